"""Stand-in: only the names imported by tel2puml.check_puml_equiv."""
from typing import Any


class EventData:  # pragma: no cover - import-time placeholder
    def __init__(self, *args: Any, **kwargs: Any) -> None:
        raise NotImplementedError("janus (test_event_generator) is absent")


def get_unparsed_job_defs(*args: Any, **kwargs: Any) -> Any:
    raise NotImplementedError("janus (test_event_generator) is absent")


def parse_raw_job_def_lines(*args: Any, **kwargs: Any) -> Any:
    raise NotImplementedError("janus (test_event_generator) is absent")
