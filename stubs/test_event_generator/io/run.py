"""Stand-in: puml -> test events needs the real janus package."""
from typing import Any


def puml_file_to_test_events(*args: Any, **kwargs: Any) -> Any:
    raise NotImplementedError("janus (test_event_generator) is absent in this sandbox")
