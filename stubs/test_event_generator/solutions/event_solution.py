"""Stand-in for test_event_generator.solutions.event_solution."""
from typing import Any


class EventSolution:
    def __init__(self, is_branch: bool = False, is_break_point: bool = False,
                 meta_data: dict[str, Any] | None = None, **kwargs: Any) -> None:
        self.is_branch = is_branch
        self.is_break_point = is_break_point
        self.meta_data: dict[str, Any] = meta_data if meta_data else {}
        self.post_events: list["EventSolution"] = []
        self.previous_events: list["EventSolution"] = []
        self.event_id: Any = None
        self.count = 0

    def add_post_event(self, post_event: "EventSolution") -> None:
        self.post_events.append(post_event)

    def add_prev_event(self, prev_event: "EventSolution") -> None:
        self.previous_events.append(prev_event)

    def add_to_post_events(self) -> None:
        for post_event in self.post_events:
            post_event.add_prev_event(self)

    def add_to_previous_events(self) -> None:
        for prev_event in self.previous_events:
            prev_event.add_post_event(self)

    def add_to_connected_events(self) -> None:
        self.add_to_post_events()
        self.add_to_previous_events()

    @property
    def is_start(self) -> bool:
        return len(self.previous_events) == 0

    @property
    def is_end(self) -> bool:
        return len(self.post_events) == 0

    def get_post_event_edge_tuples(self) -> list[tuple["EventSolution", "EventSolution"]]:
        return [(self, post) for post in self.post_events]
