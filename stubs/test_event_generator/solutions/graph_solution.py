"""Stand-in for test_event_generator.solutions.graph_solution."""
from typing import Any, Callable, Iterable

import networkx as nx

from test_event_generator.solutions.event_solution import EventSolution


class GraphSolution:
    def __init__(self) -> None:
        self.start_events: dict[int, EventSolution] = {}
        self.end_events: dict[int, EventSolution] = {}
        self.break_points: dict[int, EventSolution] = {}
        self.branch_points: dict[int, EventSolution] = {}
        self.events: dict[int, EventSolution] = {}
        self.event_dict_count = 0
        self.missing_events: list[EventSolution] = []

    def add_event(self, event: EventSolution) -> None:
        self.event_dict_count += 1
        key = self.event_dict_count
        self.events[key] = event
        if event.is_start:
            self.start_events[key] = event
        if event.is_end:
            self.end_events[key] = event
        if event.is_break_point:
            self.break_points[key] = event
        if event.is_branch:
            self.branch_points[key] = event

    def parse_event_solutions(self, events: Iterable[EventSolution]) -> None:
        for event in events:
            self.add_event(event)

    @classmethod
    def from_event_list(cls, event_list: Iterable[dict[str, Any]]) -> "GraphSolution":
        """One EventSolution per PV event; previous/post links from
        `previousEventIds` (a string is read as a single id)."""
        solutions: dict[str, EventSolution] = {}
        prev_ids: dict[str, list[str]] = {}
        for event in event_list:
            solutions[event["eventId"]] = EventSolution(
                meta_data={"EventType": event["eventType"]}
            )
            previous = event.get("previousEventIds", [])
            if isinstance(previous, str):
                previous = [previous]
            prev_ids[event["eventId"]] = list(previous)
        for event_id, previous in prev_ids.items():
            for prev_id in previous:
                solutions[event_id].add_prev_event(solutions[prev_id])
        for solution in solutions.values():
            solution.add_to_previous_events()
        graph = cls()
        graph.parse_event_solutions(solutions.values())
        return graph

    @staticmethod
    def create_networkx_graph_from_nodes(
        nodes: list[Any], link_func: Callable[[Any], list[tuple[Any, Any]]]
    ) -> "nx.DiGraph[Any]":
        graph: "nx.DiGraph[Any]" = nx.DiGraph()
        graph.add_nodes_from(nodes)
        for node in nodes:
            graph.add_edges_from(link_func(node))
        return graph

    @staticmethod
    def get_graphviz_plot(graph: Any) -> Any:
        raise NotImplementedError("plotting is not part of the stand-in")
