"""Import stand-in for the absent janus package `test_event_generator`.

Only what tel2puml needs at import time and on the pv2puml ingestion path is
reproduced (from the documented behaviour of janus): one EventSolution per PV
event, links taken from previousEventIds. Listed as an assumed dependency
contract in every evidence file that uses it.
"""
