#!/bin/bash
# Apply every behaviour-preserving refactoring in /verif/harmless to /repo (one at a time, undone straight afterwards) and run the
# quick checks of the properties whose verified functions live in the touched files.  Expected: OK or UNDECIDED, never VIOLATION.
cd /verif
export VERIF_EVIDENCE_DIR=/tmp/verif_seed_evidence
names=${@:-$(ls harmless)}
for name in $names; do
  if ! git -C /repo diff --quiet; then echo "repo dirty, abort"; exit 2; fi
  files=$(grep "^+++ b/" harmless/$name/patch.diff | sed 's#+++ b/##')
  props=""
  for f in $files; do
    case $f in
      *sequence_otel.py) props="$props C08 C12";;
      *utils.py) props="$props C16 C06";;
      *logic_detection.py) props="$props C06";;
      *pv_to_tel.py) props="$props C16";;
      *events.py) props="$props C04";;
      *data_holders/base.py) props="$props C11 C10";;
      *pv_event_simulator.py) props="$props C14";;
      *otel_to_pv/otel_to_pv.py) props="$props C14 C11 C15";;
      *pv_to_puml/pv_to_puml.py) props="$props C14 C04";;
      *data_ingestion.py) props="$props C04";;
      *sql_dataholder.py) props="$props C09 C10 C12";;
      *ingest_otel_data.py) props="$props C10 C11";;
    esac
  done
  props=$(echo $props | tr ' ' '\n' | sort -u | tr '\n' ' ')
  if ! git -C /repo apply /verif/harmless/$name/patch.diff 2>/tmp/apply_err; then echo "$name PATCH-DOES-NOT-APPLY $(head -1 /tmp/apply_err)"; continue; fi
  for prop in $props; do
    out=$(./check $prop --tier quick 2>&1 | grep -E "^(VIOLATION|OK|UNDECIDED|CHECKER)" | head -2 | tr '\n' ' ' | cut -c1-260)
    echo "$name $prop -> $out"
  done
  git -C /repo checkout -- .
done
rm -rf /tmp/verif_seed_evidence
