"""Trusted contracts of CPython builtins and library calls used by the verified
functions.  Each is an *assumption* (listed in the evidence under trusted_base).
"""
from __future__ import annotations

import ast
import hashlib
from typing import Any

import z3

from . import tys as T
from .tys import SeqTy, MapTy, SetTy, OptTy, RecTy, TupleTy, INT, BOOL, FLOAT, STR, NONE, ANY


def install(E: Any) -> None:
    from .engine import V, Unsupported, State

    def trust(msg: str) -> None:
        E.trusted_used.add(msg)

    # ----------------------------------------------------------------- len
    def b_len(self: Any, n: ast.Call, st: Any) -> Any:
        v = self.expr(n.args[0], st)
        if isinstance(v.ty, OptTy) and isinstance(v.ty.inner, (SeqTy, MapTy)):
            self.check(st, z3.Not(self.pre.opt_is_none(v.ty, v.t)), "TypeError", "len(None)")
            v = V(self.pre.opt_val(v.ty, v.t), v.ty.inner)
        if isinstance(v.ty, SeqTy):
            return V(self.seq_len(v), INT)
        if isinstance(v.ty, MapTy):
            ks = V(self.pre.mapf(v.ty, "keys")(v.t), SeqTy(v.ty.key))
            return V(self.seq_len(ks), INT)
        if isinstance(v.ty, SetTy):
            card = self.pre.func(f"card_{v.ty.name}", self.sort(v.ty), T.I)
            key = f"card.{v.ty.name}"
            if key not in self.pre._done:
                self.pre._done.add(key)
                s = z3.Const("s", self.sort(v.ty))
                x = z3.Const("x", self.sort(v.ty.elem))
                emp = self.pre.fn[f"empty_{v.ty.name}"]
                add, mem = self.pre.setf(v.ty, "add"), self.pre.setf(v.ty, "mem")
                self.pre.ax(f"{key}.nonneg", z3.ForAll([s], card(s) >= 0, patterns=[card(s)]))
                self.pre.ax(f"{key}.empty", z3.ForAll([s], (card(s) == 0) == (s == emp), patterns=[card(s)]))
                self.pre.ax(f"{key}.add", z3.ForAll([s, x], card(add(s, x)) == z3.If(mem(s, x), card(s), card(s) + 1), patterns=[card(add(s, x))]))
            return V(card(v.t), INT)
        if v.ty == STR:
            self.str_axioms()
            return V(self.pre.func("str_len", self.pre.Str, T.I)(v.t), INT)
        raise Unsupported(f"len of {v.ty}", n)
    E.builtins["len"] = b_len

    # ------------------------------------------------------------- max / min
    def b_maxmin(name: str) -> Any:
        def f(self: Any, n: ast.Call, st: Any) -> Any:
            if len(n.args) >= 2 and not n.keywords:
                vals = [self.expr(a, st) for a in n.args]
                r = vals[0]
                for v in vals[1:]:
                    r, v = self.unify(r, v)
                    if r.ty not in (INT, FLOAT):
                        raise Unsupported(f"{name} over {r.ty}", n)
                    c = (r.t >= v.t) if name == "max" else (r.t <= v.t)
                    r = V(z3.If(c, r.t, v.t), r.ty)
                return r
            if len(n.args) == 1 and not n.keywords:
                # max(<iterable of ints>): ValueError when empty; otherwise an upper bound that is attained
                xs = self.as_seq(self.expr(n.args[0], st), st)
                if xs.ty.elem != INT:
                    raise Unsupported(f"{name}() over {xs.ty}", n)
                self.check(st, self.seq_len(xs) > 0, "ValueError", f"{name}() of an empty iterable")
                S = self.sort(xs.ty)
                fn = self.pre.func(f"seq{name}_{xs.ty.name}", S, T.I)
                arg = self.pre.func(f"seqarg{name}_{xs.ty.name}", S, T.I)
                key = f"seq{name}.{xs.ty.name}"
                if key not in self.pre._done:
                    self.pre._done.add(key)
                    q = z3.Const("s", S)
                    i = z3.Int("i")
                    ln, idx = self.pre.seqf(xs.ty, "len"), self.pre.seqf(xs.ty, "idx")
                    cmp = (lambda a, b: a <= b) if name == "max" else (lambda a, b: a >= b)
                    self.pre.ax(f"{key}.bound", z3.ForAll([q, i], z3.Implies(z3.And(0 <= i, i < ln(q)), cmp(idx(q, i), fn(q))),
                                                          patterns=[z3.MultiPattern(idx(q, i), fn(q))]))
                    self.pre.ax(f"{key}.attained", z3.ForAll([q], z3.Implies(ln(q) > 0, z3.And(0 <= arg(q), arg(q) < ln(q), idx(q, arg(q)) == fn(q))),
                                                             patterns=[fn(q)]))
                trust(f"{name}(iterable of int): raises ValueError when empty, else a bound of all elements that one element attains")
                return V(fn(xs.t), INT)
            raise Unsupported(f"{name}() over an iterable", n)
        return f
    E.builtins["max"] = b_maxmin("max")
    E.builtins["min"] = b_maxmin("min")

    def b_abs(self: Any, n: ast.Call, st: Any) -> Any:
        v = self.expr(n.args[0], st)
        return V(z3.If(v.t >= 0, v.t, -v.t), v.ty)
    E.builtins["abs"] = b_abs

    # ------------------------------------------------------------------ sorted
    def b_sorted(self: Any, n: ast.Call, st: Any) -> Any:
        """sorted(xs, key=lambda x: k(x)) : a deterministic function of xs (one
        symbol per element sort and key text) whose result is a permutation of xs
        (explicit index bijection + equal multiplicities) and non-decreasing in k.
        Stability is not modelled: callers needing a unique order must know the
        keys are distinct.

        When the key reads only its argument and immutable fields, the facts are
        emitted once as *global* axioms about the symbol (so they are available
        for sorted(...) terms under quantifiers, e.g. inside comprehensions).  In
        the logic the key is a total function (an out-of-range index denotes some
        fixed value); a sorting function for a total key exists, and CPython's
        result agrees with it whenever the key raises nothing - the raising case
        is a separate exceptional path."""
        xs = self.as_seq(self.expr(n.args[0], st), st)
        key = None
        for kw in n.keywords:
            if kw.arg == "key":
                key = kw.value
            else:
                raise Unsupported(f"sorted({kw.arg}=...)", n)
        ety = xs.ty.elem
        S = self.sort(xs.ty)
        ktext = ast.unparse(key) if key is not None else "id"
        tag = hashlib.sha1(f"{xs.ty.name}|{ktext}".encode()).hexdigest()[:8]
        fn = self.pre.func(f"sorted_{tag}", S, S)
        r = V(fn(xs.t), xs.ty)
        k = self.site()

        def keyof(elem: Any, st_: Any) -> Any:
            if key is None:
                return elem
            if not isinstance(key, ast.Lambda):
                raise Unsupported("sorted key that is not a lambda", n)
            st2 = st_.fork()
            st2.env[key.args.args[0].arg] = elem
            return self.expr(key.body, st2)
        # exceptions raised by the key function on some element (per call site)
        saved = self.pending_raises
        self.pending_raises = []
        st3 = st.fork()
        bv = z3.Int(f"sk{k}")
        inb = z3.And(0 <= bv, bv < self.seq_len(xs))
        st3.pc.append(inb)
        kv = keyof(self.seq_idx(xs, bv), st3)
        inner = self.pending_raises
        self.pending_raises = saved
        base = len(st.pc)
        for (pc_at, neg, exc, what) in inner:
            local = pc_at[base:]
            rc = z3.Exists([bv], z3.And(*local, neg))
            self.pending_raises.append((list(st.pc), rc, exc, f"{what} (in sorted key)"))
            st.pc.append(z3.Not(rc))
            st.pc.append(z3.ForAll([bv], z3.Implies(z3.And(*local), z3.Not(neg)), patterns=[self.seq_idx(xs, bv).t]))
        if kv.ty not in (INT, FLOAT, STR):
            raise Unsupported(f"sort key of type {kv.ty}", n)
        trust("sorted(xs, key=k): deterministic; result is a permutation of xs (index bijection, equal multiplicities), non-decreasing in k; stability not modelled")

        def facts(xs_: Any, r_: Any, st_: Any) -> list[Any]:
            i, j = z3.Ints(f"si{k} sj{k}")
            out = []
            saved_mode = self.mode_spec
            self.mode_spec = True  # the facts mention elements of r; no new checks
            try:
                ki = keyof(self.seq_idx(r_, i), st_).t
                kj = keyof(self.seq_idx(r_, j), st_).t
                if kv.ty == STR:
                    self.str_order_axioms()
                    lt = self.pre.func("str_lt", self.pre.Str, self.pre.Str, z3.BoolSort())
                    le = z3.Or(lt(ki, kj), ki == kj)
                else:
                    le = ki <= kj
                ln = self.seq_len(r_)
                out.append(ln == self.seq_len(xs_))
                out.append(z3.ForAll([i, j], z3.Implies(z3.And(0 <= i, i <= j, j < ln), le),
                                     patterns=[z3.MultiPattern(self.seq_idx(r_, i).t, self.seq_idx(r_, j).t)]))
                pi = self.pre.func(f"sortpi_{tag}", S, T.I, T.I)
                pinv = self.pre.func(f"sortpinv_{tag}", S, T.I, T.I)
                out.append(z3.ForAll([i], z3.Implies(z3.And(0 <= i, i < ln), z3.And(
                    0 <= pi(xs_.t, i), pi(xs_.t, i) < ln, self.seq_idx(r_, i).t == self.seq_idx(xs_, pi(xs_.t, i)).t,
                    pinv(xs_.t, pi(xs_.t, i)) == i)), patterns=[self.seq_idx(r_, i).t]))
                out.append(z3.ForAll([j], z3.Implies(z3.And(0 <= j, j < ln), z3.And(
                    0 <= pinv(xs_.t, j), pinv(xs_.t, j) < ln, pi(xs_.t, pinv(xs_.t, j)) == j)), patterns=[self.seq_idx(xs_, j).t]))
                x = z3.Const(f"sx{k}", self.sort(ety))
                cnt = self.pre.seqf(xs_.ty, "count")
                out.append(z3.ForAll([x], cnt(r_.t, x) == cnt(xs_.t, x), patterns=[cnt(r_.t, x)]))
            finally:
                self.mode_spec = saved_mode
            return out
        # closed key over immutable fields -> global axioms, once per symbol
        gkey = f"sorted.{tag}"
        if gkey in self.pre._done:
            if gkey + ".global" in self.pre._done:
                return r
        else:
            self.pre._done.add(gkey)
            try:
                from .engine import State as _State
                q = V(z3.Const(f"sq_{tag}", S), xs.ty)
                gst = _State()
                outer_reads = getattr(self, "fields_read", None)
                self.fields_read = set()
                fs = facts(q, V(fn(q.t), xs.ty), gst)
                reads = set(self.fields_read)
                mutable = [f for (rec, f) in reads if f in rec.mutable]
                if mutable:
                    raise Unsupported("sorted key reads a mutable field")
                self.pre.ax(gkey, z3.ForAll([q.t], z3.And(*fs), patterns=[fn(q.t)]))
                self.pre._done.add(gkey + ".global")
                return r
            except Unsupported:
                pass
            finally:
                if outer_reads is not None:
                    outer_reads |= (self.fields_read or set())
                self.fields_read = outer_reads
        for f in facts(xs, r, st):
            self.assume(st, f)
        return r
    E.builtins["sorted"] = b_sorted

    # -------------------------------------------------------------------- list()
    def b_list(self: Any, n: ast.Call, st: Any) -> Any:
        if not n.args:
            v = V(None, SeqTy(ANY))
            v.empty_lit = True
            return v
        v = self.expr(n.args[0], st)
        return self.as_seq(v, st)
    E.builtins["list"] = b_list
    E.builtins["tuple"] = b_list

    def b_set(self: Any, n: ast.Call, st: Any) -> Any:
        if not n.args:
            v = V(None, SetTy(ANY))
            v.empty_lit = True
            return v
        v = self.expr(n.args[0], st)
        if isinstance(v.ty, SetTy):
            return v
        xs = self.as_seq(v, st)
        return seq_to_set(self, xs)
    E.builtins["set"] = b_set
    E.builtins["frozenset"] = b_set

    def seq_to_set(self: Any, xs: Any) -> Any:
        sty = SetTy(xs.ty.elem)
        f = self.pre.func(f"toset_{xs.ty.name}", self.sort(xs.ty), self.sort(sty))
        key = f"toset.{xs.ty.name}"
        if key not in self.pre._done:
            self.pre._done.add(key)
            s = z3.Const("s", self.sort(xs.ty))
            x = z3.Const("x", self.sort(xs.ty.elem))
            mem, cnt = self.pre.setf(sty, "mem"), self.pre.seqf(xs.ty, "count")
            self.pre.ax(f"{key}.mem", z3.ForAll([s, x], mem(f(s), x) == (cnt(s, x) >= 1), patterns=[mem(f(s), x)]))
        return V(f(xs.t), sty)
    E.seq_to_set = seq_to_set

    def b_isinstance(self: Any, n: ast.Call, st: Any) -> Any:
        v = self.expr(n.args[0], st)
        tname = ast.unparse(n.args[1])
        fam = {"list": SeqTy, "dict": MapTy, "set": SetTy}
        if tname in fam:
            if isinstance(v.ty, fam[tname]):
                return V(z3.BoolVal(True), BOOL)
            if isinstance(v.ty, OptTy) and isinstance(v.ty.inner, fam[tname]):
                return V(z3.Not(self.pre.opt_is_none(v.ty, v.t)), BOOL)
            if v.ty == ANY:
                isf = self.pre.func(f"any_is_{tname}", self.pre.AnyS, z3.BoolSort())
                return V(isf(v.t), BOOL)
            return V(z3.BoolVal(False), BOOL)
        if tname == "str":
            if v.ty == STR:
                return V(z3.BoolVal(True), BOOL)
            if v.ty == ANY:
                isf = self.pre.func("any_is_str", self.pre.AnyS, z3.BoolSort())
                return V(isf(v.t), BOOL)
            return V(z3.BoolVal(False), BOOL)
        if tname in self.tenv.records:
            if isinstance(v.ty, RecTy):
                return V(z3.BoolVal(v.ty.name == tname), BOOL)
            if v.ty == ANY:
                isf = self.pre.func(f"any_is_{tname}", self.pre.AnyS, z3.BoolSort())
                return V(isf(v.t), BOOL)
        raise Unsupported(f"isinstance(_, {tname}) on {v.ty}", n)
    E.builtins["isinstance"] = b_isinstance

    def b_getattr(self: Any, n: ast.Call, st: Any) -> Any:
        """getattr(record, name) for a record all of whose fields have one type: the field selected by the (possibly symbolic)
        name; AttributeError when the name is none of the fields"""
        if len(n.args) != 2:
            raise Unsupported("getattr with a default", n)
        obj = self.expr(n.args[0], st)
        if isinstance(obj.ty, OptTy) and isinstance(obj.ty.inner, RecTy):
            self.check(st, z3.Not(self.pre.opt_is_none(obj.ty, obj.t)), "AttributeError", "getattr on None")
            obj = V(self.pre.opt_val(obj.ty, obj.t), obj.ty.inner)
        if not isinstance(obj.ty, RecTy):
            raise Unsupported(f"getattr on {obj.ty}", n)
        name = self.coerce(self.expr(n.args[1], st), STR)
        ftys = {t for t in obj.ty.fields.values()}
        if len(ftys) != 1:
            raise Unsupported(f"getattr on a record with fields of several types ({obj.ty.name})", n)
        fty = next(iter(ftys))
        names = list(obj.ty.fields)
        self.check(st, z3.Or(*[name.t == self.strlit(f).t for f in names]), "AttributeError", f"getattr: not a field of {obj.ty.name}")
        vals = [self.read_field(st, obj, f) for f in names]
        t = vals[-1].t
        for f, v in reversed(list(zip(names[:-1], vals[:-1]))):
            t = z3.If(name.t == self.strlit(f).t, v.t, t)
        return V(t, fty)
    E.builtins["getattr"] = b_getattr

    def b_int(self: Any, n: ast.Call, st: Any) -> Any:
        v = self.expr(n.args[0], st)
        if v.ty == INT:
            return v
        if v.ty == FLOAT:
            # truncation toward zero
            trust("int(float): truncation toward zero")
            fl = z3.ToInt(v.t)
            return V(z3.If(v.t >= 0, fl, z3.If(z3.ToReal(fl) == v.t, fl, fl + 1)), INT)
        raise Unsupported(f"int({v.ty})", n)
    E.builtins["int"] = b_int

    def b_bool(self: Any, n: ast.Call, st: Any) -> Any:
        return V(self.truthy(self.expr(n.args[0], st)), BOOL)
    E.builtins["bool"] = b_bool

    def b_str(self: Any, n: ast.Call, st: Any) -> Any:
        v = self.expr(n.args[0], st)
        if v.ty == STR:
            return v
        f = self.pre.func(f"str_of_{v.ty.name}", self.sort(v.ty), self.pre.Str)
        return V(f(v.t), STR)
    E.builtins["str"] = b_str

    # ------------------------------------------------ clause-language map helpers
    def b_dict_update(self: Any, n: ast.Call, st: Any) -> Any:
        """dict_update(a, b): the map {**a, **b} (same symbol as the effect of a.update(b))"""
        a = self.expr(n.args[0], st)
        b = self.expr(n.args[1], st)
        a, b = self.unify(a, b)
        return self.map_update(a, b, st)
    E.builtins["dict_update"] = b_dict_update

    def b_dict_store(self: Any, n: ast.Call, st: Any) -> Any:
        """dict_store(a, k, v): the map {**a, k: v}"""
        a = self.expr(n.args[0], st)
        k = self.coerce(self.expr(n.args[1], st), a.ty.key)
        v = self.coerce(self.expr(n.args[2], st), a.ty.val)
        return V(self.pre.mapf(a.ty, "store")(a.t, k.t, v.t), a.ty)
    E.builtins["dict_store"] = b_dict_store

    def b_maps_agree(self: Any, n: ast.Call, st: Any) -> Any:
        """maps_agree(a, b): same keys, same value under every key (insertion order ignored)"""
        a = self.expr(n.args[0], st)
        b = self.expr(n.args[1], st)
        a, b = self.unify(a, b)
        ty = a.ty
        has, get = self.pre.mapf(ty, "has"), self.pre.mapf(ty, "get")
        k = z3.Const(f"mk${self.site()}", self.sort(ty.key))
        return V(self.forall_pat([k], z3.And(has(a.t, k) == has(b.t, k), z3.Implies(has(a.t, k), get(a.t, k) == get(b.t, k))),
                                 [has(a.t, k), has(b.t, k), get(a.t, k), get(b.t, k)]), BOOL)
    E.builtins["maps_agree"] = b_maps_agree

    # ------------------------------------------------------------ list methods
    def m_dict_values(self: Any, obj: Any, n: ast.Call, st: Any) -> Any:
        ty = obj.ty
        vseq = SeqTy(ty.val)
        f = self.pre.func(f"values_{ty.name}", self.sort(ty), self.sort(vseq))
        key = f"values.{ty.name}"
        if key not in self.pre._done:
            self.pre._done.add(key)
            m = z3.Const("m", self.sort(ty))
            i = z3.Int("i")
            ks = SeqTy(ty.key)
            keys, get = self.pre.mapf(ty, "keys"), self.pre.mapf(ty, "get")
            self.pre.ax(f"{key}.len", z3.ForAll([m], self.pre.seqf(vseq, "len")(f(m)) == self.pre.seqf(ks, "len")(keys(m)), patterns=[f(m)]))
            self.pre.ax(f"{key}.idx", z3.ForAll([m, i], z3.Implies(
                z3.And(0 <= i, i < self.pre.seqf(ks, "len")(keys(m))),
                self.pre.seqf(vseq, "idx")(f(m), i) == get(m, self.pre.seqf(ks, "idx")(keys(m), i))),
                patterns=[self.pre.seqf(vseq, "idx")(f(m), i), z3.MultiPattern(f(m), self.pre.seqf(ks, "idx")(keys(m), i))]))
        r = V(f(obj.t), vseq)
        self.mention(r)
        return r
    E.methods["dict.values"] = m_dict_values

    def m_dict_keys(self: Any, obj: Any, n: ast.Call, st: Any) -> Any:
        return V(self.pre.mapf(obj.ty, "keys")(obj.t), SeqTy(obj.ty.key))
    E.methods["dict.keys"] = m_dict_keys

    def m_dict_items(self: Any, obj: Any, n: ast.Call, st: Any) -> Any:
        ty = obj.ty
        tty = TupleTy([ty.key, ty.val])
        iseq = SeqTy(tty)
        if getattr(obj, "lit_items", None) is not None:
            # a dict whose entries are known one by one (e.g. the dump of a record): its items are that literal list
            elems = [V(self.pre.tup_mk(tty, [k.t, v.t]), tty) for k, v in obj.lit_items]
            r = self.seq_lit(iseq, elems)
            r.lit_elems = elems
            return r
        f = self.pre.func(f"items_{ty.name}", self.sort(ty), self.sort(iseq))
        key = f"items.{ty.name}"
        if key not in self.pre._done:
            self.pre._done.add(key)
            m = z3.Const("m", self.sort(ty))
            i = z3.Int("i")
            ks = SeqTy(ty.key)
            keys, get = self.pre.mapf(ty, "keys"), self.pre.mapf(ty, "get")
            kidx = self.pre.seqf(ks, "idx")
            self.pre.ax(f"{key}.len", z3.ForAll([m], self.pre.seqf(iseq, "len")(f(m)) == self.pre.seqf(ks, "len")(keys(m)), patterns=[f(m)]))
            self.pre.ax(f"{key}.idx", z3.ForAll([m, i], z3.Implies(
                z3.And(0 <= i, i < self.pre.seqf(ks, "len")(keys(m))),
                self.pre.seqf(iseq, "idx")(f(m), i) == self.pre.tup_mk(tty, [kidx(keys(m), i), get(m, kidx(keys(m), i))])),
                patterns=[self.pre.seqf(iseq, "idx")(f(m), i), z3.MultiPattern(f(m), kidx(keys(m), i))]))
        r = V(f(obj.t), iseq)
        self.mention(r)
        return r
    E.methods["dict.items"] = m_dict_items

    def m_dict_get(self: Any, obj: Any, n: ast.Call, st: Any) -> Any:
        ty = obj.ty
        k = self.coerce(self.expr(n.args[0], st), ty.key)
        has, get = self.pre.mapf(ty, "has"), self.pre.mapf(ty, "get")
        if len(n.args) > 1 and not (isinstance(n.args[1], ast.Constant) and n.args[1].value is None and not isinstance(ty.val, OptTy)):
            d = self.expr(n.args[1], st)
            if getattr(d, "empty_lit", False) and ty.val == ANY:
                d = V(self.seq_empty(SeqTy(STR)).t, SeqTy(STR))
            d = self.coerce(d, ty.val)
            return V(z3.If(has(obj.t, k.t), get(obj.t, k.t), d.t), ty.val)
        oty = OptTy(ty.val)
        return V(z3.If(has(obj.t, k.t), self.pre.opt_some(oty, get(obj.t, k.t)), self.pre.opt_none(oty)), oty)
    E.methods["dict.get"] = m_dict_get

    def m_set_issubset(self: Any, obj: Any, n: ast.Call, st: Any) -> Any:
        other = self.expr(n.args[0], st)
        if isinstance(other.ty, SeqTy):
            other = seq_to_set(self, other)
        elif isinstance(other.ty, MapTy):
            other = seq_to_set(self, V(self.pre.mapf(other.ty, "keys")(other.t), SeqTy(other.ty.key)))
        other = self.coerce(other, obj.ty)
        return V(self.pre.setf(obj.ty, "subset")(obj.t, other.t), BOOL)
    E.methods["set.issubset"] = m_set_issubset

    def m_str_join(self: Any, obj: Any, n: ast.Call, st: Any) -> Any:
        arg = self.expr(n.args[0], st)
        if isinstance(arg.ty, SetTy) and arg.ty.elem == STR:
            # joining a set: some string determined by the separator and the set (the iteration order is unspecified)
            fs = self.pre.func("str_join_set", self.pre.Str, self.sort(arg.ty), self.pre.Str)
            return V(fs(obj.t, arg.t), STR)
        xs = self.as_seq(arg, st)
        f = self.pre.func("str_join", self.pre.Str, self.sort(SeqTy(STR)), self.pre.Str)
        return V(f(obj.t, xs.t), STR)
    E.methods["str.join"] = m_str_join
