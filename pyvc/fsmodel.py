"""Trusted model of the file operations the repository uses to exchange JSON files (C14):

    open(path, "w") as f ; json.dump(obj, f, ...)        fs.files[path] := obj
    open(path, "r") as f ; json.load(f)                  the value of fs.files[path]

`fs` is a ghost global (one object, the same in every function and clause) of the record type FS with the single mutable
field `files`: dict[str, <content type>].  Assumptions (listed in the evidence whenever used):
  * a JSON file holds exactly the value that was dumped into it (json.dump / json.load are inverse on strings, lists of strings
    and string-keyed dicts of these);  the order of the keys inside a stored dict is not modelled;
  * open(path, "w") fails (OSError) exactly when the ghost predicate writable(path) is false, and creates/truncates nothing
    otherwise until json.dump stores the value;  open(path, "r") fails (FileNotFoundError) exactly when path is not in fs.files;
  * entering / leaving the `with` block has no other effect.
"""
from __future__ import annotations

import ast
from typing import Any

import z3

from .tys import MapTy, STR, BOOL


def install(E: Any, ghost: str = "fs", rec_name: str = "FS") -> None:
    from .engine import V, Unsupported

    rec = E.tenv.records[rec_name]
    E.__dict__.setdefault("ghost_globals", {})[ghost] = rec
    files_ty = rec.fields["files"]
    assert isinstance(files_ty, MapTy) and files_ty.key == STR
    content = files_ty.val
    writable = E.pre.func("fs_writable", E.pre.Str, z3.BoolSort())

    def fs_obj(self: Any) -> Any:
        return V(z3.Const(f"ghost${ghost}", self.sort(rec)), rec)

    def b_writable(self: Any, n: ast.Call, st: Any) -> Any:
        return V(writable(self.coerce(self.expr(n.args[0], st), STR).t), BOOL)
    E.builtins["writable"] = b_writable

    creatable = E.pre.func("fs_creatable", E.pre.Str, z3.BoolSort())

    def b_creatable(self: Any, n: ast.Call, st: Any) -> Any:
        return V(creatable(self.coerce(self.expr(n.args[0], st), STR).t), BOOL)
    E.builtins["creatable"] = b_creatable

    def b_makedirs(self: Any, n: ast.Call, st: Any) -> Any:
        """os.makedirs(path, exist_ok=True): fails (OSError) exactly when the ghost predicate creatable(path) is false; no effect on fs.files"""
        kws = {kw.arg: kw.value for kw in n.keywords}
        if not (isinstance(kws.get("exist_ok"), ast.Constant) and kws["exist_ok"].value is True):
            raise Unsupported("os.makedirs without exist_ok=True", n)
        path = self.coerce(self.expr(n.args[0], st), STR)
        self.check(st, creatable(path.t), "OSError", "os.makedirs of a directory that cannot be created")
        self.trusted_used.add("file system model (pyvc/fsmodel.py): os.makedirs(exist_ok=True) has no effect on the stored files")
        return V(self.pre.none_val, __import__("pyvc.tys", fromlist=["NONE"]).NONE)
    E.builtins["os.makedirs"] = b_makedirs

    def b_open(self: Any, n: ast.Call, st: Any) -> Any:
        path = self.coerce(self.expr(n.args[0], st), STR)
        mode = "r"
        if len(n.args) > 1:
            if not (isinstance(n.args[1], ast.Constant) and isinstance(n.args[1].value, str)):
                raise Unsupported("open() with a computed mode", n)
            mode = n.args[1].value
        for kw in n.keywords:
            if kw.arg == "mode":
                mode = kw.value.value  # type: ignore[attr-defined]
        files = self.read_field(st, fs_obj(self), "files")
        if mode in ("r", "rt"):
            self.check(st, self.pre.mapf(files_ty, "has")(files.t, path.t), "FileNotFoundError", "open(path, 'r') of a file that does not exist")
        elif mode in ("w", "wt"):
            self.check(st, writable(path.t), "OSError", "open(path, 'w') where the path cannot be written")
        else:
            raise Unsupported(f"open() mode {mode!r}", n)
        h = V(path.t, STR)
        h.file_mode = mode  # type: ignore[attr-defined]
        self.trusted_used.add("file system model (pyvc/fsmodel.py): open / json.dump / json.load over the ghost map fs.files")
        return h
    E.builtins["open"] = b_open

    def b_json_dump(self: Any, n: ast.Call, st: Any) -> Any:
        obj = self.expr(n.args[0], st)
        f = self.expr(n.args[1], st)
        if getattr(f, "file_mode", None) not in ("w", "wt"):
            raise Unsupported("json.dump into something that is not a file opened for writing", n)
        obj = self.coerce(obj, content) if obj.ty != content else obj
        fsv = fs_obj(self)
        files = self.read_field(st, fsv, "files")
        new = V(self.pre.mapf(files_ty, "store")(files.t, f.t, obj.t), files_ty)
        self.write_field(st, fsv, "files", new)
        self.note_write(f"{rec_name}.files", n)
        return V(self.pre.none_val, __import__("pyvc.tys", fromlist=["NONE"]).NONE)
    E.builtins["json.dump"] = b_json_dump

    def b_isfile(self: Any, n: ast.Call, st: Any) -> Any:
        path = self.coerce(self.expr(n.args[0], st), STR)
        files = self.read_field(st, fs_obj(self), "files")
        return V(self.pre.mapf(files_ty, "has")(files.t, path.t), BOOL)
    E.builtins["os.path.isfile"] = b_isfile

    def b_json_load(self: Any, n: ast.Call, st: Any) -> Any:
        f = self.expr(n.args[0], st)
        if getattr(f, "file_mode", None) not in ("r", "rt"):
            raise Unsupported("json.load from something that is not a file opened for reading", n)
        files = self.read_field(st, fs_obj(self), "files")
        r = V(self.pre.mapf(files_ty, "get")(files.t, f.t), content)
        self.mention(r)
        return r
    E.builtins["json.load"] = b_json_load
    E.fs_open_ok = True
