"""Trusted model of itertools.groupby over a *list* (eager reading; the laziness of the real iterator - a group is only valid until
the next one is requested - is outside the model and covered by the bounded harnesses only).

    groupby(xs, key=lambda x: x.f)  =  G, the list of (key, run) pairs of the maximal runs of consecutive elements with equal key:
        start(0) = 0, start(len G) = len xs, start(g+1) = start(g) + len(run g), every run non-empty
        run g [j] is xs[start(g) + j] and has key  G[g][0]  (= key of xs[start(g)])
        adjacent runs have different keys
        every index of xs lies in exactly one run (witness function gof)
Clause vocabulary:  group_start(xs, g, key=lambda x: x.f)  - the index in xs at which run g starts.
The facts are global axioms about one symbol per (element sort, key text).  Validated against CPython's itertools.groupby by
sampling on every run (checks/defs.validate_trusted hook of the sidecar that uses it).
"""
from __future__ import annotations

import ast
import hashlib
from typing import Any

import z3

from .tys import SeqTy, TupleTy, INT, STR


def install(E: Any) -> None:
    from .engine import V, Unsupported, State

    def symbols(self: Any, xs: Any, key: ast.expr) -> tuple[Any, Any, Any]:
        if not (isinstance(key, ast.Lambda) and len(key.args.args) == 1):
            raise Unsupported("groupby key that is not a one-argument lambda", key)
        ety = xs.ty.elem
        S = self.sort(xs.ty)
        xname = key.args.args[0].arg

        class _R(ast.NodeTransformer):
            def visit_Name(s_, node: ast.Name) -> Any:  # noqa: N805
                return ast.copy_location(ast.Name(id="_x" if node.id == xname else node.id, ctx=node.ctx), node)
        import copy
        ktext = ast.unparse(_R().visit(copy.deepcopy(key.body)))
        tag = hashlib.sha1(f"groupby|{xs.ty.name}|{ktext}".encode()).hexdigest()[:8]
        cache = self.__dict__.setdefault("_groupby", {})
        if tag in cache:
            return cache[tag]
        # the key as a term over a bound element (closed: the lambda may read its argument and immutable fields only)
        x = z3.Const(f"gbx_{tag}", self.sort(ety))
        gst = State()
        gst.env[xname] = V(x, ety)
        saved_mode, saved_pr, saved_fr = self.mode_spec, self.pending_raises, getattr(self, "fields_read", None)
        self.mode_spec, self.pending_raises, self.fields_read = True, [], set()
        try:
            kv = self.expr(key.body, gst)
            reads = set(self.fields_read)
        finally:
            self.mode_spec, self.pending_raises, self.fields_read = saved_mode, saved_pr, saved_fr
        if any(f in rec.mutable for (rec, f) in reads):
            raise Unsupported("groupby key reading a mutable field", key)
        if kv.ty not in (INT, STR):
            raise Unsupported(f"groupby key of type {kv.ty}", key)
        tty = TupleTy([kv.ty, xs.ty])
        gty = SeqTy(tty)
        Gs = self.sort(gty)
        grp = self.pre.func(f"groupby_{tag}", S, Gs)
        start = self.pre.func(f"gstart_{tag}", S, z3.IntSort(), z3.IntSort())
        gof = self.pre.func(f"gof_{tag}", S, z3.IntSort(), z3.IntSort())
        q = z3.Const(f"gbq_{tag}", S)
        g, h, j, i = z3.Ints(f"gbg_{tag} gbh_{tag} gbj_{tag} gbi_{tag}")
        lenx, idxx = self.pre.seqf(xs.ty, "len"), self.pre.seqf(xs.ty, "idx")
        leng, idxg = self.pre.seqf(gty, "len"), self.pre.seqf(gty, "idx")
        G = grp(q)
        n = leng(G)
        k_of = lambda t: self.pre.tup_get(tty, t, 0)  # noqa: E731
        run_of = lambda t: self.pre.tup_get(tty, t, 1)  # noqa: E731
        key_at = lambda e: z3.substitute(kv.t, (x, e))  # noqa: E731
        A = self.pre.ax
        A(f"groupby.{tag}.ends", z3.ForAll([q], z3.And(n >= 0, start(q, 0) == 0, start(q, n) == lenx(q)), patterns=[G]))
        A(f"groupby.{tag}.run", z3.ForAll([q, g], z3.Implies(z3.And(0 <= g, g < n), z3.And(
            lenx(run_of(idxg(G, g))) >= 1, start(q, g + 1) == start(q, g) + lenx(run_of(idxg(G, g))), 0 <= start(q, g), start(q, g) < lenx(q),
            k_of(idxg(G, g)) == key_at(idxx(q, start(q, g))))), patterns=[idxg(G, g)]))
        A(f"groupby.{tag}.elem", z3.ForAll([q, g, j], z3.Implies(z3.And(0 <= g, g < n, 0 <= j, j < lenx(run_of(idxg(G, g)))), z3.And(
            idxx(run_of(idxg(G, g)), j) == idxx(q, start(q, g) + j), key_at(idxx(q, start(q, g) + j)) == k_of(idxg(G, g)))),
            patterns=[idxx(run_of(idxg(G, g)), j)]))
        A(f"groupby.{tag}.adjacent", z3.ForAll([q, g], z3.Implies(z3.And(0 <= g, g + 1 < n), k_of(idxg(G, g)) != k_of(idxg(G, g + 1))),
                                               patterns=[idxg(G, g)]))
        A(f"groupby.{tag}.cover", z3.ForAll([q, i], z3.Implies(z3.And(0 <= i, i < lenx(q)), z3.And(
            0 <= gof(q, i), gof(q, i) < n, start(q, gof(q, i)) <= i, i < start(q, gof(q, i) + 1),
            key_at(idxx(q, i)) == k_of(idxg(G, gof(q, i))))), patterns=[z3.MultiPattern(G, idxx(q, i)), gof(q, i)]))
        A(f"groupby.{tag}.starts_increase", z3.ForAll([q, g, h], z3.Implies(z3.And(0 <= g, g < h, h <= n), start(q, g) < start(q, h)),
                                                      patterns=[z3.MultiPattern(start(q, g), start(q, h))]))
        self.trusted_used.add("itertools.groupby over a list (pyvc/itertools_model.py): maximal runs of consecutive elements with equal key; "
                              "the laziness of the real iterator is not modelled")
        cache[tag] = (grp, start, gty)
        return cache[tag]

    def key_of(n: ast.Call) -> ast.expr:
        for kw in n.keywords:
            if kw.arg == "key":
                return kw.value
        if len(n.args) > 1:
            return n.args[1]
        raise Unsupported("groupby without a key", n)

    def b_groupby(self: Any, n: ast.Call, st: Any) -> Any:
        xs = self.as_seq(self.expr(n.args[0], st), st)
        grp, _start, gty = symbols(self, xs, key_of(n))
        r = V(grp(xs.t), gty)
        self.mention(r)
        return r
    E.builtins["groupby"] = b_groupby
    E.builtins["itertools.groupby"] = b_groupby

    def b_group_start(self: Any, n: ast.Call, st: Any) -> Any:
        xs = self.as_seq(self.expr(n.args[0], st), st)
        g = self.coerce(self.expr(n.args[1], st), INT)
        _grp, start, _ = symbols(self, xs, key_of(ast.Call(func=n.func, args=[n.args[0]], keywords=n.keywords)))
        return V(start(xs.t, g.t), INT)
    E.builtins["group_start"] = b_group_start

    def b_group_of(self: Any, n: ast.Call, st: Any) -> Any:
        """group_of(xs, i, key=...): the number of the run that contains index i of xs"""
        xs = self.as_seq(self.expr(n.args[0], st), st)
        i = self.coerce(self.expr(n.args[1], st), INT)
        symbols(self, xs, key_of(ast.Call(func=n.func, args=[n.args[0]], keywords=n.keywords)))
        ety = xs.ty
        import copy
        key = key_of(ast.Call(func=n.func, args=[n.args[0]], keywords=n.keywords))
        xname = key.args.args[0].arg  # type: ignore[attr-defined]

        class _R(ast.NodeTransformer):
            def visit_Name(s_, node: ast.Name) -> Any:  # noqa: N805
                return ast.copy_location(ast.Name(id="_x" if node.id == xname else node.id, ctx=node.ctx), node)
        ktext = ast.unparse(_R().visit(copy.deepcopy(key.body)))  # type: ignore[attr-defined]
        tag = hashlib.sha1(f"groupby|{ety.name}|{ktext}".encode()).hexdigest()[:8]
        gof = self.pre.func(f"gof_{tag}", self.sort(ety), z3.IntSort(), z3.IntSort())
        return V(gof(xs.t, i.t), INT)
    E.builtins["group_of"] = b_group_of
