"""IEEE-754 binary64 arithmetic as linear constraints over the reals.

A Python float is a Real term.  Every operation that rounds introduces a fresh
Real `r` for the result and the *rounding relation* fl(x, r):

    x == 0                      ->  r == 0
    2^e <= |x| < 2^(e+1)        ->  |r - x| <= 2^(e-53),  r * 2^(52-e) is an integer,
                                    2^e <= |r| <= 2^(e+1)
    |x| < 2^EMIN                ->  |r - x| <= 2^(EMIN-53)            (coarser than reality: sound)
    |x| >= 2^(EMAX+1)           ->  not modelled: an obligation `float_range` must exclude it

This over-approximates round-to-nearest-even: every result CPython can produce
satisfies it (and, at exact ties only, one more value does).  The case split over
binades is pruned at VC-generation time: a binade is kept only if a quick LRA
query cannot exclude it under the current path condition (dropping an
infeasible disjunct is sound).
"""
from __future__ import annotations

import ast
from fractions import Fraction
from typing import Any

import z3

from .tys import INT, FLOAT

EMIN, EMAX = -30, 63


def _pow2(e: int) -> Any:
    return z3.RealVal(Fraction(2) ** e)


class _Feas:
    """One incremental LRA solver per rounding site, loaded with the quantifier-free
    part of the path condition."""

    def __init__(self, st: Any):
        self.s = z3.Solver()
        self.s.set("timeout", 5000)
        for a in st.pc:
            if not _has_quant(a):
                self.s.add(a)

    def __call__(self, cond: Any) -> bool:
        self.s.push()
        self.s.add(cond)
        r = self.s.check()
        self.s.pop()
        return r != z3.unsat


def feasible(E: Any, st: Any, cond: Any) -> bool:
    return _Feas(st)(cond)


def _has_quant(t: Any) -> bool:
    seen = set()
    stack = [t]
    while stack:
        e = stack.pop()
        if e.get_id() in seen:
            continue
        seen.add(e.get_id())
        if z3.is_quantifier(e):
            return True
        stack.extend(e.children())
    return False


def fl(E: Any, st: Any, x: Any, what: str) -> Any:
    """Fresh Real r with fl(x, r) assumed; emits the range obligation."""
    from .engine import V
    E.trusted_used.add("float arithmetic: IEEE-754 binary64 round-to-nearest, modelled per binade by half-ulp error bound + grid membership (over-approximation)")
    xs = z3.simplify(x)
    if z3.is_rational_value(xs):
        # constant folding with exact rounding through Python's float
        fr = Fraction(xs.numerator_as_long(), xs.denominator_as_long())
        f = float(fr)
        return z3.RealVal(Fraction(f))
    r = E.pre.fresh("fl", z3.RealSort())
    k = E.site()
    m = z3.Int(f"flm!{k}")
    ax = z3.If(x >= 0, x, -x)
    ar = z3.If(r >= 0, r, -r)
    feas = _Feas(st)
    cases = []
    if feas(x == 0):
        cases.append(z3.And(x == 0, r == 0))
    if feas(z3.And(ax > 0, ax < _pow2(EMIN))):
        cases.append(z3.And(ax > 0, ax < _pow2(EMIN), r - x <= _pow2(EMIN - 53), x - r <= _pow2(EMIN - 53)))
    kept = []
    if feas(ax >= _pow2(EMIN)):
        # smallest e with  ax < 2^(e+1)  feasible (together with ax >= 2^EMIN): monotone in e -> bisection
        lo, hi = EMIN, EMAX
        while lo < hi:
            mid = (lo + hi) // 2
            if feas(z3.And(ax >= _pow2(EMIN), ax < _pow2(mid + 1))):
                hi = mid
            else:
                lo = mid + 1
        e_lo = lo
        # largest e with  ax >= 2^e  feasible (together with ax < 2^(EMAX+1))
        lo, hi = e_lo, EMAX
        while lo < hi:
            mid = (lo + hi + 1) // 2
            if feas(z3.And(ax >= _pow2(mid), ax < _pow2(EMAX + 1))):
                lo = mid
            else:
                hi = mid - 1
        e_hi = lo
        for e in range(e_lo, e_hi + 1):  # a contiguous superset of the feasible binades
            rng = z3.And(_pow2(e) <= ax, ax < _pow2(e + 1))
            kept.append(e)
            cases.append(z3.And(rng, r - x <= _pow2(e - 53), x - r <= _pow2(e - 53),
                                r * _pow2(52 - e) == z3.ToReal(m), _pow2(e) <= ar, ar <= _pow2(e + 1)))
    if not E.mode_spec:
        E.emit(st, ax < _pow2(EMAX + 1), f"float_range@{what}", text=f"|{what}| < 2^{EMAX + 1}")
    st.pc.append(ax < _pow2(EMAX + 1))
    st.pc.append(z3.Or(*cases) if cases else z3.BoolVal(False))
    E.float_binades = getattr(E, "float_binades", [])
    E.float_binades.append((what, kept))
    return r


def int_to_float(E: Any, st: Any, a: Any) -> Any:
    """float(n): exact below 2^53, rounded above."""
    return fl(E, st, z3.ToReal(a.t), "float(int)")


def div(E: Any, st: Any, a: Any, b: Any, a_int: Any = None, b_int: Any = None) -> Any:
    from .engine import V
    # int / float: the int operand is converted (rounded) first; int / int is correctly rounded in one step
    both_int = a_int is not None and b_int is not None and a_int.ty == INT and b_int.ty == INT
    x, y = a.t, b.t
    if not both_int:
        if a_int is not None and a_int.ty == INT:
            x = int_to_float(E, st, a_int)
        if b_int is not None and b_int.ty == INT:
            y = int_to_float(E, st, b_int)
    ys = z3.simplify(y)
    if not (z3.is_rational_value(ys) and ys.numerator_as_long() != 0):
        E.check(st, y != 0, "ZeroDivisionError", "float division by zero")
    if z3.is_rational_value(ys):
        q = x / ys
    else:
        raise NotImplementedError("division by a non-constant float")
    return V(fl(E, st, q, "x / y"), FLOAT)


def binop(E: Any, st: Any, op: ast.operator, a: Any, b: Any) -> Any:
    from .engine import V, Unsupported
    x = a.t if a.ty == FLOAT else int_to_float(E, st, a)
    y = b.t if b.ty == FLOAT else int_to_float(E, st, b)
    if isinstance(op, ast.Add):
        return V(fl(E, st, x + y, "x + y"), FLOAT)
    if isinstance(op, ast.Sub):
        return V(fl(E, st, x - y, "x - y"), FLOAT)
    if isinstance(op, ast.Mult):
        xs, ys = z3.simplify(x), z3.simplify(y)
        if not (z3.is_rational_value(xs) or z3.is_rational_value(ys)):
            raise Unsupported("product of two non-constant floats")
        return V(fl(E, st, x * y, "x * y"), FLOAT)
    if isinstance(op, ast.Div):
        return div(E, st, V(x, FLOAT), V(y, FLOAT))
    raise Unsupported(f"float op {type(op).__name__}")


def round_half_even(E: Any, st: Any, y: Any) -> Any:
    """Integer z nearest to the real y, ties to even."""
    k = E.site()
    z = z3.Int(f"rhe!{k}")
    two_y = 2 * y
    st.pc.append(z3.And(2 * z3.ToReal(z) - 1 <= two_y, two_y <= 2 * z3.ToReal(z) + 1))
    st.pc.append(z3.Implies(z3.Or(two_y == 2 * z3.ToReal(z) + 1, two_y == 2 * z3.ToReal(z) - 1), z % 2 == 0))
    return z
