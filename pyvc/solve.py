"""Discharging VCs: z3 (Python API, E-matching only) first, cvc5 on whatever z3
leaves open; thorough tier runs both on everything and reports disagreement."""
from __future__ import annotations

import os
import subprocess
import tempfile
import time
from concurrent.futures import ProcessPoolExecutor
from dataclasses import dataclass, field
from typing import Any, Optional

Z3_TIMEOUT_MS = int(os.environ.get("PYVC_Z3_TIMEOUT_MS", "20000"))
CVC5_TIMEOUT_MS = int(os.environ.get("PYVC_CVC5_TIMEOUT_MS", "30000"))
CVC5_BIN = "/usr/bin/cvc5"


@dataclass
class Result:
    name: str
    verdict: str  # 'unsat' | 'sat' | 'unknown'
    solver: str
    seconds: float
    model: dict[str, str] = field(default_factory=dict)
    reason: str = ""
    second: Optional[tuple[str, str, float]] = None  # (solver, verdict, seconds) of the cross-check


def run_z3(smt2: str, want_model: list[str], timeout_ms: int = Z3_TIMEOUT_MS, seed: int = 0) -> tuple[str, float, dict[str, str], str]:
    import z3
    t0 = time.time()
    s = z3.Solver()
    s.set(auto_config=False, mbqi=False)
    s.set("timeout", timeout_ms)
    if seed:
        s.set("random_seed", seed)
        s.set("phase_selection", 5)
        # retries instantiate for every term, not only for the ones the current case split makes relevant: relevancy filtering is what
        # made a few E-matching proofs depend on the search order (found with contracts/c04_models.py: unsat under 2 of 3 seeds)
        s.set("relevancy", 0)
    s.from_string(smt2)
    orig = list(s.assertions())  # check() may rewrite the assertion set in place
    r = s.check()
    dt = time.time() - t0
    model: dict[str, str] = {}
    reason = ""
    if r == z3.sat:
        m = s.model()
        for c in _named_consts(orig):
            model[c.decl().name()] = str(m.eval(c, model_completion=True))
    elif r == z3.unknown:
        reason = s.reason_unknown()
        # candidate counterexample: a model of the quantifier-free part (only ever used as an
        # input to replay on the real code; never as a verdict)
        try:
            s2 = z3.Solver()
            s2.set("timeout", min(timeout_ms, 10000))
            for a in orig:
                if not _has_quant(a):
                    s2.add(a)
            if s2.check() == z3.sat:
                m = s2.model()
                for c in _named_consts(orig):
                    model[c.decl().name()] = str(m.eval(c, model_completion=True))
        except Exception as e:
            reason += f" | candidate-model error: {e}"
    return str(r), dt, model, reason


def _named_consts(assertions: Any) -> list[Any]:
    """The input / witness constants (`in.*`, `wit.*`) occurring in the assertions."""
    import z3
    seen: set[int] = set()
    out: dict[str, Any] = {}
    stack = list(assertions)
    while stack:
        e = stack.pop()
        if e.get_id() in seen:
            continue
        seen.add(e.get_id())
        if z3.is_quantifier(e):
            stack.append(e.body())
            continue
        if z3.is_app(e):
            if e.num_args() == 0 and e.decl().kind() == z3.Z3_OP_UNINTERPRETED and e.decl().name().startswith(("in.", "wit.")):
                out[e.decl().name()] = e
            stack.extend(e.children())
    return list(out.values())


def _has_quant(t: Any) -> bool:
    import z3
    seen = set()
    stack = [t]
    while stack:
        e = stack.pop()
        if e.get_id() in seen:
            continue
        seen.add(e.get_id())
        if z3.is_quantifier(e):
            return True
        stack.extend(e.children())
    return False


Z3_CLI = "z3-new"


def run_z3_cli(smt2: str, timeout_ms: int = Z3_TIMEOUT_MS) -> tuple[str, float, str]:
    """The same z3 (5.1.0, the wheel's command-line binary) on the exported query, E-matching only.  Its front end
    preprocesses a whole file differently from the API's incremental solver object; a proof found by either is a proof."""
    import shutil
    t0 = time.time()
    exe = shutil.which(Z3_CLI)
    if exe is None:
        return "unknown", 0.0, "z3 command-line binary not found"
    with tempfile.NamedTemporaryFile("w", suffix=".smt2", delete=False, dir=os.environ.get("PYVC_TMP", None)) as f:
        f.write(smt2 if "(check-sat)" in smt2 else smt2 + "\n(check-sat)\n")
        path = f.name
    try:
        p = subprocess.run([exe, "auto_config=false", "smt.mbqi=false", "smt.relevancy=0", f"-T:{max(1, timeout_ms // 1000)}", path], capture_output=True, text=True,
                           timeout=timeout_ms / 1000 + 10)
        out = (p.stdout or "").strip().splitlines()
        verdict = out[0].strip() if out else "unknown"
        if verdict not in ("sat", "unsat", "unknown"):
            verdict = "unknown"
        reason = "" if verdict == "unsat" else (p.stdout or "")[:200]
    except subprocess.TimeoutExpired:
        verdict, reason = "unknown", "timeout"
    finally:
        try:
            os.unlink(path)
        except OSError:
            pass
    return verdict, time.time() - t0, reason


def run_cvc5(smt2: str) -> tuple[str, float, str]:
    t0 = time.time()
    text = "(set-logic ALL)\n" + smt2
    with tempfile.NamedTemporaryFile("w", suffix=".smt2", delete=False, dir=os.environ.get("PYVC_TMP", None)) as f:
        f.write(text)
        path = f.name
    try:
        p = subprocess.run([CVC5_BIN, "--lang", "smt2", f"--tlimit={CVC5_TIMEOUT_MS}", path], capture_output=True, text=True,
                           timeout=CVC5_TIMEOUT_MS / 1000 + 10)
        out = (p.stdout or "").strip().splitlines()
        verdict = out[0].strip() if out else "unknown"
        if verdict not in ("sat", "unsat", "unknown"):
            verdict = "unknown"
        reason = (p.stderr or "").strip()[:200]
    except subprocess.TimeoutExpired:
        verdict, reason = "unknown", "timeout"
    finally:
        try:
            os.unlink(path)
        except OSError:
            pass
    return verdict, time.time() - t0, reason


COVER_TIMEOUT_MS = 3000
RETRY_FACTOR = 6
RETRY_MAX = 6


def solve_one(args: tuple[str, str, list[str], bool, str]) -> Result:
    name, smt2, want, both, kind = args
    try:
        v, dt, model, reason = run_z3(smt2, want, COVER_TIMEOUT_MS if kind == "cover" else Z3_TIMEOUT_MS)
    except Exception as e:  # parse problems etc. -> unknown, never a verdict
        v, dt, model, reason = "unknown", 0.0, {}, f"z3 error: {e}"
    res = Result(name, v, "z3", dt, model, reason)
    if kind == "cover":
        return res  # a cover only has to be *not refutable* quickly
    if v == "unknown":
        # first the command-line front end of the same solver, instantiating for every term (only `unsat` is taken from it)
        zv, zdt, _zr = run_z3_cli(smt2)
        dt += zdt
        if zv == "unsat":
            res = Result(name, "unsat", "z3", dt, {}, "z3 command-line front end")
            v = "unsat"
    if v == "unknown":
        # E-matching proofs can be lost to an unlucky search order: before calling an obligation undischarged, retry with other
        # seeds (a proof found under any seed is a proof; `unknown` is never turned into a verdict)
        for sd in (7, 42):
            try:
                v2, dt2, model2, reason2 = run_z3(smt2, want, Z3_TIMEOUT_MS, seed=sd)
            except Exception:  # noqa: BLE001
                continue
            dt += dt2
            if v2 == "unsat":
                res = Result(name, "unsat", f"z3", dt, {}, f"seed {sd}")
                v = "unsat"
                break
            if v2 == "sat":
                res = Result(name, "sat", "z3", dt, model2, reason2)
                v = "sat"
                break
    if v != "unsat" or both:
        cv, cdt, creason = run_cvc5(smt2)
        if v == "unsat":
            res.second = ("cvc5", cv, cdt)
        elif cv == "unsat":
            res = Result(name, "unsat", "cvc5", cdt, {}, "", second=("z3", v, dt))
        else:
            res.second = ("cvc5", cv, cdt)
            if v == "unknown" and cv == "sat":
                res.reason += " | cvc5: sat"
    return res


def solve_all(vcs: list[Any], both: bool = False, workers: int = 0) -> list[Result]:
    workers = workers or min(16, os.cpu_count() or 4)
    jobs = [(vc.name, vc.smt2, list(vc.inputs.values()), both, vc.kind) for vc in vcs]
    if not jobs:
        return []
    if workers == 1 or len(jobs) == 1:
        return [solve_one(j) for j in jobs]
    with ProcessPoolExecutor(max_workers=workers) as ex:
        results = list(ex.map(solve_one, jobs, chunksize=1))
    # A verdict must not depend on how busy the machine is: an obligation that ran into the *time limit* (not one the solver gave up
    # on) is tried again on its own, with six times the budget, before it is called undischarged.  (At most a handful: a changed
    # function whose obligations all time out stays undischarged after the first few.)
    retried = 0
    for k, (job, r) in enumerate(zip(jobs, results)):
        if job[4] == "cover" or r.verdict != "unknown" or retried >= RETRY_MAX:
            continue
        if not any(w in (r.reason or "") for w in ("timeout", "canceled", "max. resource")):
            continue
        retried += 1
        try:
            v, dt, model, reason = run_z3(job[1], job[2], RETRY_FACTOR * Z3_TIMEOUT_MS)
        except Exception:  # noqa: BLE001
            continue
        if v == "unsat":
            results[k] = Result(r.name, "unsat", "z3", r.seconds + dt, {}, "retried alone after a timeout under load")
        elif v == "sat":
            results[k] = Result(r.name, "sat", "z3", r.seconds + dt, model, reason)
    return results
