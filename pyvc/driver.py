"""Load a sidecar contract module, generate the VCs from the *current* source
under the repository root, discharge them, and summarise per clause."""
from __future__ import annotations

import importlib.util
import os
import sys
import time
import traceback
from dataclasses import asdict
from typing import Any

from .engine import Contract, LoopSpec, Lemma, Unsupported, ContractError
from .symexec import Verifier
from . import solve


def load_sidecar(path: str) -> Any:
    name = "sidecar_" + os.path.basename(path).replace(".py", "")
    spec = importlib.util.spec_from_file_location(name, path)
    mod = importlib.util.module_from_spec(spec)  # type: ignore[arg-type]
    spec.loader.exec_module(mod)  # type: ignore[union-attr]
    return mod


def mk_contract(name: str, d: dict[str, Any]) -> Contract:
    c = Contract(name=name)
    for k, v in d.items():
        if k == "loops":
            for ordinal, ld in v.items():
                ls = LoopSpec()
                ls.invariants = dict(ld.get("invariant", {}))
                ls.index = ld.get("index", "")
                ls.seq = ld.get("seq", "")
                ls.hints_end = list(ld.get("hints_end", []))
                ls.hints_after = list(ld.get("hints_after", []))
                ls.hints_begin = list(ld.get("hints_begin", []))
                ls.hints_entry = list(ld.get("hints_entry", []))
                c.loops[int(ordinal)] = ls
        elif k == "mutable_params":
            c.mutable_params = list(v)  # type: ignore[attr-defined]
        elif hasattr(c, k):
            setattr(c, k, v)
        else:
            raise ContractError(f"contract {name}: unknown key {k}")
    return c


class Session:
    """One sidecar module against one source tree."""

    def __init__(self, sidecar_path: str, repo_root: str):
        self.side = load_sidecar(sidecar_path)
        self.repo_root = repo_root
        self.V = Verifier()
        self.V.sources = {}
        self.V.lemma_defs = {}
        self.func_info: list[dict[str, Any]] = []
        self.undecided: list[str] = []
        self.errors: list[str] = []
        self.results: list[solve.Result] = []
        self.gen_seconds = 0.0
        self.solve_seconds = 0.0

    def generate(self, only: Any = None) -> None:
        """only: if given, VCs are generated for these functions alone (the others contribute their contracts only)"""
        t0 = time.time()
        V, side = self.V, self.side
        if getattr(side, "USES_DATETIME", False):
            from . import dt
            dt.install(V)
        for rname, rd in getattr(side, "RECORDS", {}).items():
            if rd.get("struct"):
                V.tenv.add_struct(rname, rd["fields"])
                if rd.get("dict_display"):      # {"key": value, ...} with exactly these constant keys denotes this struct
                    V.tenv.aliases[rname].dict_display = True  # type: ignore[attr-defined]
            else:
                V.tenv.add_record(rname, rd["fields"], rd.get("mutable"))
        V.tenv.finish()
        V.fstring_injective = getattr(side, "FSTRING_INJECTIVE", {})
        V.class_bases = getattr(side, "BASES", {})
        if getattr(side, "USES_FS", False):
            from . import fsmodel
            fsmodel.install(V)
        if getattr(side, "USES_GROUPBY", False):
            from . import itertools_model
            itertools_model.install(V)
        if hasattr(side, "setup"):
            side.setup(V)
        files = getattr(side, "FILES", None) or {"": side.MODULE}
        for rel in set(files.values()):
            V.load_source(os.path.join(self.repo_root, rel), rel)
        contracts = {name: mk_contract(name, d) for name, d in side.CONTRACTS.items()}
        V.contracts = contracts
        self.file_of = {name: files.get(name, files.get("", getattr(side, "MODULE", ""))) for name in contracts}
        # bind signatures of every function first (calls need callee signatures)
        for name, c in contracts.items():
            try:
                V.bind_signature(self.file_of[name], c)
            except (ContractError, Unsupported) as e:
                self.undecided.append(f"{name}: {e}")
        if getattr(side, "SPECS", ""):
            V.add_spec_source(side.SPECS)
        for item in getattr(side, "ORDER", list(contracts)):
            try:
                if isinstance(item, dict):  # lemma
                    V.prove_lemma(Lemma(**item))
                elif item.startswith("specs:"):
                    V.add_spec_source(getattr(side, item[6:]))
                else:
                    if any(u.startswith(item + ":") for u in self.undecided):
                        continue
                    n0 = len(V.vcs)
                    if only is not None and item not in only:
                        if contracts[item].pure:
                            V.add_pure_axiom(contracts[item])
                        continue
                    try:
                        self.func_info.append(V.verify_function(self.file_of[item], contracts[item]))
                    except (ContractError, Unsupported) as e:
                        del V.vcs[n0:]
                        self.undecided.append(f"{item}: {e}")
                    except Exception as e:  # noqa: BLE001  an engine failure on one function leaves that function undecided
                        del V.vcs[n0:]
                        self.undecided.append(f"{item}: engine error {type(e).__name__}: {str(e)[:200]}")
            except (ContractError, Unsupported) as e:
                nm = item.get("name") if isinstance(item, dict) else item
                self.undecided.append(f"{nm}: {e}")
        self.gen_seconds = time.time() - t0

    def discharge(self, both: bool = False) -> None:
        t0 = time.time()
        goals = [vc for vc in self.V.vcs]
        self.results = solve.solve_all(goals, both=both)
        self.solve_seconds = time.time() - t0

    # ------------------------------------------------------------------ summary
    def clauses(self) -> dict[str, dict[str, Any]]:
        """clause id -> {discharged, vcs, failing: [...]}"""
        out: dict[str, dict[str, Any]] = {}
        for vc, r in zip(self.V.vcs, self.results):
            if vc.kind != "goal":
                continue
            cid = f"{vc.func}/{vc.clause}"
            d = out.setdefault(cid, {"vcs": 0, "unsat": 0, "failing": [], "text": vc.text, "seconds": 0.0, "solvers": {}})
            d["vcs"] += 1
            d["seconds"] += r.seconds
            if r.verdict == "unsat":
                d["unsat"] += 1
                d["solvers"][r.solver] = d["solvers"].get(r.solver, 0) + 1
            else:
                d["failing"].append({"vc": vc.name, "verdict": r.verdict, "solver": r.solver, "reason": r.reason, "model": r.model,
                                     "second": r.second})
        for d in out.values():
            d["discharged"] = d["unsat"] == d["vcs"]
        return out

    def covers(self) -> dict[str, Any]:
        """Reachability of the function exits.  A single refuted cover is just an
        infeasible combination of branches; vacuity (a contradictory `requires`,
        invariant or axiom set) shows as *every* exit of a function - or every exit
        reached through some loop - being refuted."""
        infeasible = []
        n = 0
        groups: dict[str, list[bool]] = {}
        for vc, r in zip(self.V.vcs, self.results):
            if vc.kind == "cover":
                n += 1
                dead = r.verdict == "unsat"
                if dead:
                    infeasible.append(vc.name)
                # all ways out of loop k (condition false: `loopkX`, or `break`: `loopkbrk`) form one group
                tags = [vc.func] + [f"{vc.func}@{p[:-1] if p.endswith('X') else p[:-3]}:exit" for p in vc.path.split("/")
                                    if p.startswith("loop") and (p.endswith("X") or p.endswith("brk"))]
                for t in tags:
                    groups.setdefault(t, []).append(dead)
        vac = [g for g, ds in groups.items() if ds and all(ds)]
        return {"covers": n, "vacuous": vac, "infeasible_paths": infeasible}

    def disagreements(self) -> list[str]:
        out = []
        for vc, r in zip(self.V.vcs, self.results):
            if r.second and {r.verdict, r.second[1]} == {"sat", "unsat"}:
                out.append(vc.name)
        return out


def main(argv: list[str]) -> int:
    import argparse
    import json
    ap = argparse.ArgumentParser()
    ap.add_argument("sidecar")
    ap.add_argument("--repo", default="/repo")
    ap.add_argument("--both", action="store_true")
    ap.add_argument("--dump", default="")
    ap.add_argument("-v", action="store_true")
    ap.add_argument("--only", default="", help="comma-separated functions/lemma names whose VCs are discharged (dev)")
    ap.add_argument("--fast", action="store_true", help="z3 only, 5 s (dev)")
    a = ap.parse_args(argv)
    s = Session(a.sidecar, a.repo)
    s.generate()
    if a.dump:
        os.makedirs(a.dump, exist_ok=True)
        for vc in s.V.vcs:
            open(os.path.join(a.dump, vc.name.replace("/", "__").replace(":", "_") + ".smt2"), "w").write(vc.smt2)
    if a.only:
        keep = set(a.only.split(","))
        s.V.vcs = [vc for vc in s.V.vcs if vc.func in keep or vc.func.replace("lemma:", "") in keep]
    if a.fast:
        solve.Z3_TIMEOUT_MS = 5000
        solve.CVC5_TIMEOUT_MS = 1
    s.discharge(both=a.both)
    cl = s.clauses()
    ok = sum(1 for d in cl.values() if d["discharged"])
    for cid, d in cl.items():
        flag = "ok " if d["discharged"] else "FAIL"
        if a.v or not d["discharged"]:
            print(f"{flag} {cid}  [{d['unsat']}/{d['vcs']}] {d['seconds']:.2f}s")
            for f in d["failing"]:
                print(f"      {f['vc']}: {f['verdict']} ({f['solver']}; {f['reason']}) {f['model']} {f['second']}")
    print(f"clauses discharged {ok}/{len(cl)}; vcs {len(s.V.vcs)}; gen {s.gen_seconds:.1f}s solve {s.solve_seconds:.1f}s")
    print("covers:", s.covers())
    for u in s.undecided:
        print("UNDECIDED", u)
    return 0


if __name__ == "__main__":
    sys.exit(main(sys.argv[1:]))
