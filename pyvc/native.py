"""Native reading of the sidecar contracts: the same clause texts evaluated by
CPython on the real functions (replay of counterexamples, counterexample
search, CPython cross-check of the contracts).  Runs under /venv/bin/python
with the repository and the janus stand-in on sys.path.

usage: native.py <sidecar.py> <repo_root> <command> [json-args]
  commands:
    crosscheck  {"n": int, "seed": int, "functions": [...]}   run generated inputs, evaluate requires/ensures/raises
    replay      {"function": .., "model": {...}}               inputs from a solver model
    search      {"function": .., "clause": .., "n": int, "seed": int}
    replayfile  {"path": ...}
"""
from __future__ import annotations

import ast
import copy
import importlib
import importlib.util
import json
import os
import random
import sys
import traceback
import types as _types
from typing import Any


def load_sidecar(path: str) -> Any:
    name = "sidecar_" + os.path.basename(path).replace(".py", "")
    spec = importlib.util.spec_from_file_location(name, path)
    mod = importlib.util.module_from_spec(spec)  # type: ignore[arg-type]
    spec.loader.exec_module(mod)  # type: ignore[union-attr]
    return mod


class _NeedsLazyOld(Exception):
    pass


class Native:
    def __init__(self, sidecar_path: str, repo_root: str):
        here = os.path.dirname(os.path.dirname(os.path.abspath(__file__)))
        for p in (os.path.join(here, "stubs"), repo_root):
            if p not in sys.path:
                sys.path.insert(0, p)
        self.side = load_sidecar(sidecar_path)
        self.repo_root = repo_root
        self.ns: dict[str, Any] = {}
        self.ns.update({"implies": lambda a, b: (not a) or b, "opaque": lambda f: f,
                        "dict_update": lambda a, b: {**a, **b}, "dict_store": lambda a, k, v: {**a, k: v},
                        "maps_agree": lambda a, b: dict(a) == dict(b)})
        if hasattr(self.side, "native_env"):
            self.ns.update(self.side.native_env(self))
        if getattr(self.side, "SPECS", ""):
            exec(self._spec_code(self.side.SPECS), self.ns)
        for extra in getattr(self.side, "NATIVE_SPEC_SOURCES", []):
            exec(self._spec_code(getattr(self.side, extra)), self.ns)
        if hasattr(self.side, "native_env"):
            self.ns.update(self.side.native_env(self))   # native definitions of @opaque / builtin spec symbols win
        self.files = getattr(self.side, "FILES", None) or {"": self.side.MODULE}
        self.universe: dict[str, list[Any]] = {}
        self.ns.setdefault("forall", lambda fn, *tys, **kw: self._quant(all, fn, tys))
        self.ns.setdefault("exists", lambda fn, *tys, **kw: self._quant(any, fn, tys))
        # pure functions under contract double as spec symbols in clause texts
        # RUNTIME_CONTRACTS: contracts that are only evaluated at run time on the real function (bounded; the verifier never sees them)
        self.contracts = {**self.side.CONTRACTS, **getattr(self.side, "RUNTIME_CONTRACTS", {})}
        for name, c in self.side.CONTRACTS.items():
            if c.get("pure") and name not in self.ns and "." not in name:
                try:
                    self.ns[name] = self.real(name)
                except Exception:  # noqa: BLE001
                    pass

    @staticmethod
    def _spec_code(src: str) -> Any:
        """spec functions are executable Python; `implies(a, b)` inside them is logical implication (b is not evaluated when a is false)"""
        class T(ast.NodeTransformer):
            def visit_Call(s, n: ast.Call) -> Any:  # noqa: N805
                s.generic_visit(n)
                if isinstance(n.func, ast.Name) and n.func.id == "implies" and len(n.args) == 2:
                    return ast.copy_location(ast.BoolOp(op=ast.Or(), values=[ast.UnaryOp(op=ast.Not(), operand=n.args[0]), n.args[1]]), n)
                return n
        return compile(ast.fix_missing_locations(T().visit(ast.parse(src))), "<specs>", "exec")

    def _quant(self, agg: Any, fn: Any, tys: tuple[str, ...]) -> bool:
        import itertools
        doms = [self.universe.get(t, []) for t in tys]
        return agg(fn(*combo) for combo in itertools.product(*doms))

    def collect_universe(self, args: Any) -> None:
        """Finite domains for the native reading of forall/exists: every record object
        and every string reachable from the arguments of the current case."""
        uni: dict[str, dict[int, Any]] = {}
        strs: dict[str, None] = {}
        ints: dict[int, None] = {0: None}
        sets: dict[Any, None] = {}
        seen: set[int] = set()

        def walk(x: Any) -> None:
            if id(x) in seen:
                return
            seen.add(id(x))
            if hasattr(type(x), "__universe__"):
                walk(x.__universe__())       # a view object names the values it stands for (e.g. the paths of a file-system view)
                return
            if isinstance(x, str):
                strs[x] = None
            elif isinstance(x, int) and not isinstance(x, bool):
                ints[x] = None
                ints[x + 1] = None
            elif isinstance(x, dict):
                if type(x) is not dict:  # a dict subclass is also an object of its class (e.g. EventSet)
                    uni.setdefault(type(x).__name__, {})[id(x)] = x
                for k, v in x.items():
                    walk(k)
                    walk(v)
            elif isinstance(x, (list, tuple, set, frozenset)):
                if isinstance(x, (set, frozenset)) and all(not isinstance(v, (set, frozenset, list, dict)) for v in x):
                    sets[frozenset(x)] = None     # a set of atoms is a value of the clause type 'set[Any]'
                for v in x:
                    walk(v)
            elif isinstance(x, (_types.ModuleType, _types.FunctionType, _types.MethodType, _types.BuiltinFunctionType, Native)):
                return   # never part of a case's data (and a module's dict reaches everything)
            elif hasattr(x, "__dict__") and not isinstance(x, type):
                uni.setdefault(type(x).__name__, {})[id(x)] = x
                for v in vars(x).values():
                    walk(v)
        walk(args)
        self.universe = {k: list(v.values()) for k, v in uni.items()}
        self.universe["str"] = list(strs)
        self.universe["int"] = list(ints)[:200]
        self.universe["Any"] = list(strs)
        self.universe["set[Any]"] = list(sets)

    def snapshot_mutable(self) -> dict[int, dict[str, Any]]:
        snap: dict[int, dict[str, Any]] = {}
        for tname, fields in getattr(self.side, "MUTABLE_FIELDS", {}).items():
            for obj in self.universe.get(tname, []):
                # fields that refer to other objects of the universe (a tree's children) keep the references: a shallow copy of the list
                cp = copy.copy if getattr(self.side, "SNAPSHOT_SHALLOW", False) else copy.deepcopy
                snap[id(obj)] = {f: cp(getattr(obj, f)) for f in fields}
        return snap

    def swap_mutable(self, snap: dict[int, dict[str, Any]]) -> dict[int, dict[str, Any]]:
        """Install the field values of `snap` on the live objects; returns what was there."""
        cur: dict[int, dict[str, Any]] = {}
        for tname, fields in getattr(self.side, "MUTABLE_FIELDS", {}).items():
            for obj in self.universe.get(tname, []):
                if id(obj) in snap:
                    cur[id(obj)] = {f: getattr(obj, f) for f in fields}
                    for f, v in snap[id(obj)].items():
                        setattr(obj, f, v)
        return cur

    def real(self, qualname: str) -> Any:
        rel = self.files.get(qualname, self.files.get("", ""))
        modname = rel[:-3].replace("/", ".")
        mod = importlib.import_module(modname)
        obj: Any = mod
        for part in qualname.split("."):
            obj = getattr(obj, part)
        return obj

    # ---------------------------------------------------------------- clause evaluation
    old_snapshot: Any = None
    old_overrides: dict[str, Any] = {}

    def eval_clause(self, text: str, env: dict[str, Any], old_env: dict[str, Any] | None) -> Any:
        node = ast.parse(text.strip(), mode="eval")

        class T(ast.NodeTransformer):  # solver triggers mean nothing natively
            def visit_Call(s, n: ast.Call) -> Any:  # noqa: N805
                s.generic_visit(n)
                if isinstance(n.func, ast.Name) and n.func.id in ("forall", "exists"):
                    n.keywords = [k for k in n.keywords if k.arg != "triggers"]
                if isinstance(n.func, ast.Name) and n.func.id == "implies" and len(n.args) == 2:
                    # logical implication: the consequent is only evaluated when the antecedent holds (as in the SMT reading,
                    # where an undefined term under a false guard is harmless)
                    return ast.copy_location(ast.BoolOp(op=ast.Or(), values=[ast.UnaryOp(op=ast.Not(), operand=n.args[0]), n.args[1]]), n)
                return n
        node = ast.fix_missing_locations(T().visit(node))
        if old_env is not None and self.old_snapshot is not None and "old(" in text:
            # old(e) becomes a call that evaluates e (a closure over any bound variables) in the pre-state heap
            class L(ast.NodeTransformer):
                def visit_Call(s, n: ast.Call) -> Any:  # noqa: N805
                    s.generic_visit(n)
                    if isinstance(n.func, ast.Name) and n.func.id == "old":
                        lam = ast.Lambda(args=ast.arguments(posonlyargs=[], args=[], kwonlyargs=[], kw_defaults=[], defaults=[]), body=n.args[0])
                        return ast.copy_location(ast.Call(func=ast.Name(id="__old_eval", ctx=ast.Load()), args=[lam], keywords=[]), n)
                    return n
            node = ast.fix_missing_locations(L().visit(node))

            g = dict(self.ns)
            g.update(env)

            def __old_eval(thunk: Any) -> Any:
                cur = self.swap_mutable(self.old_snapshot)
                saved = {k: g[k] for k in self.old_overrides if k in g}
                g.update(self.old_overrides)     # values that are not plain objects (a view of the file system): their pre-state snapshot
                try:
                    return thunk()
                finally:
                    g.update(saved)
                    self.swap_mutable(cur)
            g["__old_eval"] = __old_eval
            return eval(compile(node, "<clause>", "eval"), g)
        if old_env is not None:
            olds: dict[str, Any] = {}

            class R(ast.NodeTransformer):
                def visit_Call(s, n: ast.Call) -> Any:  # noqa: N805
                    if isinstance(n.func, ast.Name) and n.func.id == "old":
                        key = f"__old{len(olds)}"
                        if self.old_snapshot is not None:
                            # reference semantics: evaluate on the live objects with their pre-state field values installed
                            # (bound variables of an enclosing quantifier cannot be captured here: see eval_clause)
                            raise _NeedsLazyOld()
                        olds[key] = eval(compile(ast.Expression(n.args[0]), "<old>", "eval"), dict(self.ns), dict(old_env))
                        return ast.copy_location(ast.Name(id=key, ctx=ast.Load()), n)
                    return s.generic_visit(n)
            node = ast.fix_missing_locations(R().visit(node))
            env = dict(env)
            env.update(olds)
        g = dict(self.ns)
        g.update(env)  # comprehensions / lambdas inside a clause resolve names through globals
        return eval(compile(node, "<clause>", "eval"), g)

    def run_case(self, fname: str, args: dict[str, Any]) -> dict[str, Any]:
        """Execute the real function on `args`; evaluate its contract natively."""
        c = self.contracts[fname]
        out: dict[str, Any] = {"function": fname, "violations": [], "skipped": False}
        self.collect_universe(args)
        self.old_snapshot = None
        try:
            for lab, txt in c.get("requires", {}).items():
                if not self.eval_clause(txt, args, None):
                    out["skipped"] = True
                    out["why"] = f"requires.{lab}"
                    return out
        except Exception as e:
            out["skipped"] = True
            out["why"] = f"requires raised {type(e).__name__}: {e}"
            return out
        self.old_overrides = {}
        if getattr(self.side, "MUTABLE_FIELDS", None):
            self.old_snapshot = self.snapshot_mutable()
            old = dict(args)  # same objects; their pre-state fields are in the snapshot
            self.old_overrides = {k: copy.deepcopy(v) for k, v in args.items() if hasattr(type(v), "__deepcopy__") and not hasattr(v, "__dict__")}
            old.update(self.old_overrides)
        elif fname in getattr(self.side, "NO_OLD_COPY", ()):
            old = dict(args)        # the arguments cannot be copied (a database handle) and the clauses do not use old()
        else:
            old = copy.deepcopy(args)
        if hasattr(self.side, "native_old"):
            old = self.side.native_old(self, fname, args, old)
        fn = None if fname in getattr(self.side, "NATIVE_CALL", {}) else self.real(self.contracts[fname].get("source_name") or fname)
        call_args = args
        if hasattr(self.side, "native_call_args"):
            call_args = self.side.native_call_args(self, fname, args)
        raised = None
        result = None
        try:
            if fname in getattr(self.side, "NATIVE_CALL", {}):
                result = self.side.NATIVE_CALL[fname](self, call_args)
            else:
                result = fn(**call_args)
            if c.get("generator"):
                result = list(result)
        except Exception as e:  # noqa: BLE001
            raised = e
        if raised is None:
            # objects created by the call belong to the post-state universe of forall/exists
            pre_uni = self.universe
            self.collect_universe([args, result])
            for tname, objs in pre_uni.items():
                byval = tname in ("str", "Any", "set[Any]", "int")
                have = set(self.universe.get(tname, [])) if byval else {id(o) for o in self.universe.get(tname, [])}
                for o in objs:
                    if (o if byval else id(o)) not in have:
                        self.universe.setdefault(tname, []).append(o)
        out["raised"] = type(raised).__name__ if raised is not None else None
        out["result"] = safe_repr(result)
        raises = c.get("raises", {})
        def _ev(nm: str, txt: str) -> Any:
            try:
                return bool(self.eval_clause(txt, old, None))
            except Exception as e:  # noqa: BLE001  (the condition itself is undefined on this input)
                out.setdefault("clause_errors", []).append(f"raises.{nm}: {type(e).__name__}: {e}")
                return None
        if self.old_snapshot is not None:
            _post = self.swap_mutable(self.old_snapshot)   # `raises` conditions speak about the pre-state
            try:
                pre_raise = {nm: _ev(nm, txt) for nm, txt in raises.items()}
            finally:
                self.swap_mutable(_post)
        else:
            pre_raise = {nm: _ev(nm, txt) for nm, txt in raises.items()}
        if raised is not None:
            nm = type(raised).__name__
            if nm not in raises:
                import builtins
                for cand in raises:   # a declared exception class covers its subclasses (FileNotFoundError is an OSError)
                    cls = getattr(builtins, cand, None)
                    if isinstance(cls, type) and isinstance(raised, cls):
                        nm = cand
                        break
            if nm in raises:
                if pre_raise[nm] is False:
                    out["violations"].append(f"raises.{nm}.only_when")
            else:
                out["violations"].append(f"no_raise.{nm}")
                out["exception"] = "".join(traceback.format_exception_only(type(raised), raised)).strip()[:300]
            return out
        for nm, txt in raises.items():
            if pre_raise[nm]:
                out["violations"].append(f"raises.{nm}.whenever")
        env = dict(args)
        env["result"] = result
        for lab, txt in list(c.get("ensures", {}).items()) + list(c.get("runtime_ensures", {}).items()):
            try:
                ok = self.eval_clause(txt, env, old)
            except Exception as e:  # noqa: BLE001
                ok = False
                out.setdefault("clause_errors", []).append(f"{lab}: {type(e).__name__}: {e}")
            if not ok:
                out["violations"].append(f"ensures.{lab}")
        return out


def safe_repr(x: Any) -> str:
    try:
        r = repr(x)
    except Exception:  # noqa: BLE001
        r = f"<{type(x).__name__}>"
    return r if len(r) < 2000 else r[:2000] + "..."


def main(argv: list[str]) -> int:
    sidecar, repo_root, cmd = argv[0], argv[1], argv[2]
    arg = json.loads(argv[3]) if len(argv) > 3 else {}
    nat = Native(sidecar, repo_root)
    side = nat.side
    res: dict[str, Any] = {"cmd": cmd}
    if cmd == "crosscheck":
        rng = random.Random(arg.get("seed", 0))
        n = arg.get("n", 200)
        funcs = arg.get("functions") or list(dict.fromkeys(list(getattr(side, "GEN", {})) + list(getattr(side, "SMALL", {}))))
        per: dict[str, Any] = {}
        for f in funcs:
            import itertools as _it
            gens = []
            if f in getattr(side, "SMALL", {}):
                gens.append(side.SMALL[f](nat))
            if f in getattr(side, "GEN", {}):
                gens.append(side.GEN[f](nat, rng, n))
            stats = {"cases": 0, "skipped": 0, "violations": 0, "first_violation": None, "sample": None,
                     "small_scope_enumeration": f in getattr(side, "SMALL", {})}
            for args in _it.chain(*gens):
                shown = safe_repr(args)
                enc0 = encode_args(side, f, args)     # before the call: the function may mutate its arguments
                r = nat.run_case(f, args)
                stats["cases"] += 1
                if r["skipped"]:
                    stats["skipped"] += 1
                    continue
                if stats["sample"] is None:
                    stats["sample"] = {"args": shown, "result": r.get("result"), "raised": r.get("raised")}
                if r["violations"]:
                    stats["violations"] += 1
                    if stats["first_violation"] is None:
                        stats["first_violation"] = {"args": shown, "encoded": enc0, **r}
            per[f] = stats
        res["functions"] = per
    elif cmd in ("replay", "replayfile"):
        if cmd == "replayfile":
            data = json.load(open(arg["path"]))
            f = data["function"]
            args = side.DECODE[f](nat, data["encoded_args"])
        else:
            f = arg["function"]
            args = side.FROM_MODEL[f](nat, arg["model"])
        if args is None:
            res["status"] = "no-input"
        else:
            shown = safe_repr(args)
            enc = encode_args(side, f, args)
            r = nat.run_case(f, args)
            res.update({"status": "ran", "args": shown, "encoded_args": enc, **r})
    elif cmd == "search":
        f = arg["function"]
        rng = random.Random(arg.get("seed", 0))
        res["status"] = "none"
        tried = 0
        gens = []
        if f in getattr(side, "SMALL", {}):
            gens.append(side.SMALL[f](nat))
        if f in getattr(side, "GEN", {}):
            gens.append(side.GEN[f](nat, rng, arg.get("n", 2000)))
        want = arg.get("clause")
        for g in gens:
            for args in g:
                shown = safe_repr(args)
                enc = encode_args(side, f, args)
                r = nat.run_case(f, args)
                tried += 1
                if r["skipped"]:
                    continue
                if r["violations"] and (want is None or want in r["violations"] or True):
                    res.update({"status": "found", "args": shown, "encoded_args": enc, **r})
                    break
            if res["status"] == "found":
                break
        res["tried"] = tried
    else:
        res["error"] = f"unknown command {cmd}"
    print("NATIVE-RESULT " + json.dumps(res))
    return 0


def encode_args(side: Any, f: str, args: dict[str, Any]) -> Any:
    try:
        enc = getattr(side, "ENCODE", {})[f]
    except KeyError:
        return None
    return enc(args)


if __name__ == "__main__":
    sys.exit(main(sys.argv[1:]))
