"""Trusted contracts of the `datetime` calls used by the two timestamp converters.

An aware UTC datetime is modelled by its microsecond count since the epoch
(`us_count`, an Int); a timedelta by its total microseconds.  The contracts
below restate CPython's implementation (Modules/_datetimemodule.c,
Python/pytime.c) and are re-validated against CPython by sampling on every run
(`contracts/c16.py: validate_trusted`), which is validation, not proof.
"""
from __future__ import annotations

import ast
from typing import Any

import z3

from .tys import Ty, INT, BOOL, FLOAT, STR
from . import floats

PV_FORMAT = "%Y-%m-%dT%H:%M:%S.%fZ"
K9999 = 253402300799999999  # 9999-12-31T23:59:59.999999Z in microseconds


class DtTy(Ty):
    name = "datetime"


class TdTy(Ty):
    name = "timedelta"


class TzTy(Ty):
    name = "tzinfo"


DT, TD, TZ = DtTy(), TdTy(), TzTy()


def install(E: Any) -> None:
    from .engine import V, Unsupported
    pre = E.pre
    _sort = pre.sort

    def sort(ty: Ty) -> Any:
        if isinstance(ty, (DtTy, TdTy)):
            return z3.IntSort()
        if isinstance(ty, TzTy):
            return pre.Unit
        return _sort(ty)
    pre.sort = sort  # type: ignore[assignment]
    E.tenv.aliases["datetime"] = DT
    E.tenv.aliases["timedelta"] = TD

    S = pre.Str
    str_of = pre.func("pv_str_of", z3.IntSort(), S)
    iso_parse = pre.func("iso_parse", S, z3.IntSort())
    rstripZ = pre.func("str_rstrip_Z", S, S)
    E.str_order_axioms()
    lt = pre.func("str_lt", S, S, z3.BoolSort())
    a, b = z3.Ints("a b")
    KMIN = -62135596800 * 10**6   # 0001-01-01T00:00:00Z
    rng = lambda k: z3.And(KMIN <= k, k <= K9999)  # noqa: E731
    inv = pre.func("pv_str_inv", S, z3.IntSort())
    pre.ax("dt.str_of_injective", z3.ForAll([a], z3.Implies(rng(a), inv(str_of(a)) == a), patterns=[str_of(a)]))
    pre.ax("dt.str_of_order", z3.ForAll([a, b], z3.Implies(z3.And(rng(a), rng(b)), lt(str_of(a), str_of(b)) == (a < b)),
                                        patterns=[z3.MultiPattern(str_of(a), str_of(b))]))
    pre.ax("dt.iso_parse_inverse", z3.ForAll([a], z3.Implies(rng(a), iso_parse(rstripZ(str_of(a))) == a), patterns=[str_of(a)]))
    TRUST = [
        "datetime: strftime('%Y-%m-%dT%H:%M:%S.%fZ') of a UTC datetime with microsecond count k in 0..9999-12-31 is pv_str_of(k); pv_str_of is injective and order-isomorphic (fixed-width, zero-padded fields)",
        "datetime.fromisoformat(pv_str_of(k).rstrip('Z')).replace(tzinfo=utc) has microsecond count k",
        "datetime.fromtimestamp(t, tz=UTC), t >= 0: modf; us = round_half_even(fl(frac * 1e6)); carry when us >= 10^6 (pytime.c _PyTime_DoubleToDenominator)",
        "aware datetime.timestamp(): correctly rounded k / 10^6; .microsecond = k mod 10^6; dt - dt = exact timedelta; timedelta // timedelta = integer floor division",
    ]

    def trust() -> None:
        for t in TRUST:
            E.trusted_used.add(t)

    def pv_str_of(self: Any, n: ast.Call, st: Any) -> Any:
        k = self.coerce(self.expr(n.args[0], st), INT)
        return V(str_of(k.t), STR)
    E.builtins["pv_str_of"] = pv_str_of

    # datetime.fromtimestamp(t, tz=UTC)
    def fromtimestamp(self: Any, n: ast.Call, st: Any) -> Any:
        trust()
        t = self.coerce(self.expr(n.args[0], st), FLOAT)
        tz = [kw for kw in n.keywords if kw.arg == "tz"]
        if not tz or ast.unparse(tz[0].value) not in ("UTC", "timezone.utc"):
            raise Unsupported("fromtimestamp without tz=UTC", n)
        if not self.mode_spec:
            self.emit(st, t.t >= 0, "datetime.fromtimestamp.requires.nonneg", text="t >= 0")
        ip = z3.ToInt(t.t)
        frac = t.t - z3.ToReal(ip)  # exact (modf)
        scaled = floats.fl(self, st, frac * 1000000, "frac * 1e6")
        us = floats.round_half_even(self, st, scaled)
        k = z3.If(us >= 1000000, (ip + 1) * 1000000 + (us - 1000000), ip * 1000000 + us)
        return V(k, DT)
    E.builtins["datetime.fromtimestamp"] = fromtimestamp

    def fromisoformat(self: Any, n: ast.Call, st: Any) -> Any:
        trust()
        s = self.expr(n.args[0], st)
        return V(iso_parse(s.t), DT)
    E.builtins["datetime.fromisoformat"] = fromisoformat

    def datetime_ctor(self: Any, n: ast.Call, st: Any) -> Any:
        trust()
        vals = [ast.unparse(a) for a in n.args]
        kws = {kw.arg: ast.unparse(kw.value) for kw in n.keywords}
        if vals == ["1970", "1", "1"] and kws.get("tzinfo") in ("timezone.utc", "UTC") and len(kws) == 1:
            return V(z3.IntVal(0), DT)
        raise Unsupported("datetime(...) other than the UTC epoch", n)
    E.builtins["datetime"] = datetime_ctor

    def timedelta_ctor(self: Any, n: ast.Call, st: Any) -> Any:
        trust()
        if n.args:
            raise Unsupported("timedelta positional", n)
        unit = {"microseconds": 1, "milliseconds": 1000, "seconds": 10**6, "minutes": 60 * 10**6, "hours": 3600 * 10**6, "days": 86400 * 10**6}
        tot: Any = z3.IntVal(0)
        for kw in n.keywords:
            v = self.coerce(self.expr(kw.value, st), INT)
            tot = tot + v.t * unit[kw.arg]
        return V(tot, TD)
    E.builtins["timedelta"] = timedelta_ctor

    def m_rstrip(self: Any, obj: Any, n: ast.Call, st: Any) -> Any:
        if len(n.args) == 1 and isinstance(n.args[0], ast.Constant) and n.args[0].value == "Z":
            return V(rstripZ(obj.t), STR)
        raise Unsupported("str.rstrip other than 'Z'", n)
    E.methods["str.rstrip"] = m_rstrip

    def m_replace(self: Any, obj: Any, n: ast.Call, st: Any) -> Any:
        trust()
        kws = {kw.arg: ast.unparse(kw.value) for kw in n.keywords}
        if not n.args and kws == {"tzinfo": "timezone.utc"} or kws == {"tzinfo": "UTC"}:
            return obj
        raise Unsupported("datetime.replace other than tzinfo=utc", n)
    E.methods["datetime.replace"] = m_replace

    def m_strftime(self: Any, obj: Any, n: ast.Call, st: Any) -> Any:
        trust()
        is_pv = len(n.args) == 1 and isinstance(n.args[0], ast.Constant) and n.args[0].value == PV_FORMAT
        if not is_pv and len(n.args) == 1 and not isinstance(n.args[0], ast.Constant):
            try:
                fv = self.expr(n.args[0], st)   # e.g. a local variable holding the format
                is_pv = fv.ty == STR and fv.t.eq(self.strlit(PV_FORMAT).t)
            except Unsupported:
                is_pv = False
        if is_pv:
            if not self.mode_spec:
                self.emit(st, z3.And(0 <= obj.t, obj.t <= K9999), "datetime.strftime.requires.year_range", text="year 1970..9999")
            return V(str_of(obj.t), STR)
        raise Unsupported("strftime with another format", n)
    E.methods["datetime.strftime"] = m_strftime

    def m_timestamp(self: Any, obj: Any, n: ast.Call, st: Any) -> Any:
        trust()
        return V(floats.fl(self, st, z3.ToReal(obj.t) / 1000000, "k / 10**6"), FLOAT)
    E.methods["datetime.timestamp"] = m_timestamp

    def a_microsecond(self: Any, obj: Any, st: Any) -> Any:
        trust()
        return V(obj.t % 1000000, INT)
    E.attr_handlers["datetime.microsecond"] = a_microsecond

    def a_td(field: str) -> Any:
        def f(self: Any, obj: Any, st: Any) -> Any:
            trust()
            day = 86400 * 10**6
            if field == "days":
                return V(obj.t / day, INT)
            if field == "seconds":
                return V((obj.t % day) / 10**6, INT)
            return V(obj.t % 10**6, INT)
        return f
    for fld in ("days", "seconds", "microseconds"):
        E.attr_handlers[f"timedelta.{fld}"] = a_td(fld)

    # arithmetic on datetimes / timedeltas is dispatched from e_BinOp via this hook
    def dt_binop(self: Any, op: ast.operator, a: Any, b: Any, st: Any) -> Any:
        trust()
        if isinstance(op, ast.Sub) and a.ty == DT and b.ty == DT:
            return V(a.t - b.t, TD)
        if isinstance(op, ast.FloorDiv) and a.ty == TD and b.ty == TD:
            self.check(st, b.t != 0, "ZeroDivisionError", "timedelta // 0")
            return V(self.floordiv(a.t, b.t), INT)
        if isinstance(op, ast.Mult) and a.ty == TD and b.ty == INT:
            return V(a.t * b.t, TD)
        return None
    E.dt_binop = dt_binop
