"""Types of the verified Python subset and their SMT encoding (prelude).

Every Python type used by a function under contract is mapped to one SMT sort:

  int            -> Int   (exact: Python ints are unbounded)
  bool           -> Bool
  float          -> Real  + rounding side conditions (see floats.py)
  str            -> uninterpreted sort Str (equality only; a few trusted symbols)
  None           -> unit sort
  Optional[T]    -> datatype  none | some(val: T)
  list[T]/tuple  -> axiomatised sequence sort Seq_T  (len/idx/empty/unit/app/take/drop/upd)
  dict[K, V]     -> axiomatised map sort Map_K_V (has/get/store/remove/empty + insertion-ordered key sequence)
  set[T]         -> axiomatised set sort Set_T (mem/add/union/... + extensionality)
  record/class   -> uninterpreted reference sort; one field function (immutable field)
                    or one heap array (mutable field) per field

The sequence axioms follow the Boogie/Dafny prelude; every quantified axiom has
explicit triggers and the solvers run with E-matching only (no MBQI), so an
`unsat` never depends on a model-finder's guess.
"""
from __future__ import annotations

import z3

I = z3.IntSort()
B = z3.BoolSort()
R = z3.RealSort()


class Ty:
    name: str

    def __repr__(self) -> str:
        return self.name

    def __eq__(self, o: object) -> bool:
        return isinstance(o, Ty) and self.name == o.name

    def __hash__(self) -> int:
        return hash(self.name)


class IntTy(Ty):
    name = "int"


class BoolTy(Ty):
    name = "bool"


class FloatTy(Ty):
    name = "float"


class StrTy(Ty):
    name = "str"


class NoneTy(Ty):
    name = "None"


class AnyTy(Ty):
    """Opaque value (uninterpreted sort `Any`); only equality."""
    name = "Any"


class SeqTy(Ty):
    def __init__(self, elem: Ty):
        self.elem = elem
        self.name = f"Seq_{elem.name}"


class SetTy(Ty):
    def __init__(self, elem: Ty):
        self.elem = elem
        self.name = f"Set_{elem.name}"


class MapTy(Ty):
    def __init__(self, key: Ty, val: Ty):
        self.key, self.val = key, val
        self.name = f"Map_{key.name}_{val.name}"


class OptTy(Ty):
    def __init__(self, inner: Ty):
        self.inner = inner
        self.name = f"Opt_{inner.name}"


class TupleTy(Ty):
    def __init__(self, elems: list[Ty]):
        self.elems = elems
        self.name = "Tup_" + "_".join(e.name for e in elems)


class RecTy(Ty):
    def __init__(self, name: str, fields: dict[str, Ty], mutable: set[str]):
        self.name = name
        self.fields = fields
        self.mutable = mutable


class StructTy(Ty):
    """Immutable value record (TypedDict / frozen model): an SMT datatype with one
    constructor; equality is structural."""

    def __init__(self, name: str, fields: dict[str, Ty]):
        self.name = name
        self.fields = fields


INT, BOOL, FLOAT, STR, NONE, ANY = IntTy(), BoolTy(), FloatTy(), StrTy(), NoneTy(), AnyTy()


def name_quantifier(q: z3.ExprRef, name: str) -> z3.ExprRef:
    """Attach a :qid to a top-level universal quantifier (for instantiation profiles)."""
    try:
        if not (z3.is_quantifier(q) and q.is_forall()) or q.num_patterns() == 0:
            return q
        n = q.num_vars()
        vs = [z3.Const(q.var_name(k), q.var_sort(k)) for k in range(n)]
        body = z3.substitute_vars(q.body(), *reversed(vs))
        pats = []
        for k in range(q.num_patterns()):
            p = q.pattern(k)
            terms = [z3.substitute_vars(p.arg(j), *reversed(vs)) for j in range(p.num_args())]
            pats.append(z3.MultiPattern(*terms) if len(terms) > 1 else terms[0])
        return z3.ForAll(vs, body, qid=name, patterns=pats)
    except Exception:  # noqa: BLE001
        return q


class Prelude:
    """Holds declared sorts, function symbols and axioms of one VC session."""

    def __init__(self) -> None:
        self.sorts: dict[str, z3.SortRef] = {}
        self.axioms: list[tuple[str, z3.BoolRef]] = []
        self.fn: dict[str, z3.FuncDeclRef] = {}
        self.records: dict[str, RecTy] = {}
        self._done: set[str] = set()
        self.Str = z3.DeclareSort("Str")
        self.Unit = z3.DeclareSort("NoneT")
        self.AnyS = z3.DeclareSort("Any")
        self.none_val = z3.Const("None_", self.Unit)
        u = z3.Const("u", self.Unit)
        self.axioms.append(("unit.single", z3.ForAll([u], u == self.none_val, patterns=[z3.MultiPattern(u == self.none_val)]) if False else z3.BoolVal(True)))
        self._fresh = 0

    # ------------------------------------------------------------------ utils
    def fresh(self, base: str, sort: z3.SortRef) -> z3.ExprRef:
        self._fresh += 1
        return z3.Const(f"{base}!{self._fresh}", sort)

    def ax(self, name: str, f: z3.BoolRef) -> None:
        self.axioms.append((name, name_quantifier(f, name)))

    def func(self, name: str, *sig: z3.SortRef) -> z3.FuncDeclRef:
        if name not in self.fn:
            self.fn[name] = z3.Function(name, *sig)
        return self.fn[name]

    # ------------------------------------------------------------------ sorts
    def sort(self, ty: Ty) -> z3.SortRef:
        if isinstance(ty, IntTy):
            return I
        if isinstance(ty, BoolTy):
            return B
        if isinstance(ty, FloatTy):
            return R
        if isinstance(ty, StrTy):
            return self.Str
        if isinstance(ty, NoneTy):
            return self.Unit
        if isinstance(ty, AnyTy):
            return self.AnyS
        if ty.name in self.sorts:
            return self.sorts[ty.name]
        if isinstance(ty, SeqTy):
            self.sort(ty.elem)
            s = z3.DeclareSort(ty.name)
            self.sorts[ty.name] = s
            self._seq_axioms(ty, s)
            return s
        if isinstance(ty, SetTy):
            self.sort(ty.elem)
            s = z3.DeclareSort(ty.name)
            self.sorts[ty.name] = s
            self._set_axioms(ty, s)
            return s
        if isinstance(ty, MapTy):
            self.sort(ty.key)
            self.sort(ty.val)
            s = z3.DeclareSort(ty.name)
            self.sorts[ty.name] = s
            self._map_axioms(ty, s)
            return s
        if isinstance(ty, OptTy):
            inner = self.sort(ty.inner)
            d = z3.Datatype(ty.name)
            d.declare(f"none_{ty.name}")
            d.declare(f"some_{ty.name}", (f"val_{ty.name}", inner))
            s = d.create()
            self.sorts[ty.name] = s
            return s
        if isinstance(ty, TupleTy):
            d = z3.Datatype(ty.name)
            d.declare(f"mk_{ty.name}", *[(f"p{i}_{ty.name}", self.sort(e)) for i, e in enumerate(ty.elems)])
            s = d.create()
            self.sorts[ty.name] = s
            return s
        if isinstance(ty, StructTy):
            d = z3.Datatype(f"Struct_{ty.name}")
            d.declare(f"mk_{ty.name}", *[(f"{ty.name}__{f}", self.sort(t)) for f, t in ty.fields.items()])
            s = d.create()
            self.sorts[ty.name] = s
            return s
        if isinstance(ty, RecTy):
            s = z3.DeclareSort(f"Ref_{ty.name}")
            self.sorts[ty.name] = s
            self.records[ty.name] = ty
            return s
        raise TypeError(f"no sort for {ty!r}")

    # ------------------------------------------------------------- Optional
    def opt_none(self, ty: OptTy) -> z3.ExprRef:
        s = self.sort(ty)
        return s.constructor(0)()

    def opt_some(self, ty: OptTy, v: z3.ExprRef) -> z3.ExprRef:
        s = self.sort(ty)
        return s.constructor(1)(v)

    def opt_is_none(self, ty: OptTy, v: z3.ExprRef) -> z3.BoolRef:
        s = self.sort(ty)
        return s.recognizer(0)(v)

    def opt_val(self, ty: OptTy, v: z3.ExprRef) -> z3.ExprRef:
        s = self.sort(ty)
        return s.accessor(1, 0)(v)

    # ---------------------------------------------------------------- tuples
    def tup_mk(self, ty: TupleTy, vals: list[z3.ExprRef]) -> z3.ExprRef:
        return self.sort(ty).constructor(0)(*vals)

    def tup_get(self, ty: TupleTy, v: z3.ExprRef, i: int) -> z3.ExprRef:
        return self.sort(ty).accessor(0, i)(v)

    # --------------------------------------------------------------- structs
    def struct_mk(self, ty: "StructTy", vals: list[z3.ExprRef]) -> z3.ExprRef:
        return self.sort(ty).constructor(0)(*vals)

    def struct_get(self, ty: "StructTy", v: z3.ExprRef, f: str) -> z3.ExprRef:
        return self.sort(ty).accessor(0, list(ty.fields).index(f))(v)

    # ------------------------------------------------------------- sequences
    def seqf(self, ty: SeqTy, op: str) -> z3.FuncDeclRef:
        self.sort(ty)
        return self.fn[f"{op}_{ty.name}"]

    def _seq_axioms(self, ty: SeqTy, S: z3.SortRef) -> None:
        n = ty.name
        E = self.sort(ty.elem)
        ln = self.func(f"len_{n}", S, I)
        idx = self.func(f"idx_{n}", S, I, E)
        emp = z3.Const(f"empty_{n}", S)
        self.fn[f"empty_{n}"] = emp  # type: ignore[assignment]
        unit = self.func(f"unit_{n}", E, S)
        app = self.func(f"app_{n}", S, S, S)
        take = self.func(f"take_{n}", S, I, S)
        drop = self.func(f"drop_{n}", S, I, S)
        upd = self.func(f"upd_{n}", S, I, E, S)
        seq_eq = self.func(f"seqeq_{n}", S, S, B)
        cnt = self.func(f"count_{n}", S, E, I)
        s, t = z3.Const("s", S), z3.Const("t", S)
        x, y = z3.Const("x", E), z3.Const("y", E)
        i, j, k = z3.Ints("i j k")
        A = self.ax
        A(f"{n}.len_nonneg", z3.ForAll([s], ln(s) >= 0, patterns=[ln(s)]))
        A(f"{n}.len_empty", ln(emp) == 0)
        A(f"{n}.len0_empty", z3.ForAll([s], z3.Implies(ln(s) == 0, s == emp), patterns=[ln(s)]))
        A(f"{n}.len_unit", z3.ForAll([x], ln(unit(x)) == 1, patterns=[unit(x)]))
        A(f"{n}.idx_unit", z3.ForAll([x], idx(unit(x), 0) == x, patterns=[unit(x)]))
        A(f"{n}.len_app", z3.ForAll([s, t], ln(app(s, t)) == ln(s) + ln(t), patterns=[app(s, t)]))
        A(f"{n}.idx_app", z3.ForAll([s, t, i], z3.And(
            z3.Implies(z3.And(0 <= i, i < ln(s)), idx(app(s, t), i) == idx(s, i)),
            z3.Implies(z3.And(ln(s) <= i, i < ln(s) + ln(t)), idx(app(s, t), i) == idx(t, i - ln(s)))),
            patterns=[idx(app(s, t), i)]))
        # reverse direction (keeps existential witnesses alive across an append): an element of s is an element of s ++ t
        A(f"{n}.idx_app_left", z3.ForAll([s, t, i], z3.Implies(z3.And(0 <= i, i < ln(s)), idx(app(s, t), i) == idx(s, i)),
                                         patterns=[z3.MultiPattern(app(s, t), idx(s, i))]))
        A(f"{n}.idx_app_right", z3.ForAll([s, t, i], z3.Implies(z3.And(0 <= i, i < ln(t)), idx(app(s, t), ln(s) + i) == idx(t, i)),
                                          patterns=[z3.MultiPattern(app(s, t), idx(t, i))]))
        A(f"{n}.idx_app_last", z3.ForAll([s, x], idx(app(s, unit(x)), ln(s)) == x, patterns=[app(s, unit(x))]))
        A(f"{n}.app_empty_r", z3.ForAll([s], app(s, emp) == s, patterns=[app(s, emp)]))
        A(f"{n}.app_empty_l", z3.ForAll([s], app(emp, s) == s, patterns=[app(emp, s)]))
        A(f"{n}.len_take", z3.ForAll([s, k], z3.Implies(z3.And(0 <= k, k <= ln(s)), ln(take(s, k)) == k), patterns=[take(s, k)]))
        A(f"{n}.idx_take", z3.ForAll([s, k, i], z3.Implies(z3.And(0 <= i, i < k, k <= ln(s)), idx(take(s, k), i) == idx(s, i)),
                                     patterns=[idx(take(s, k), i)]))
        A(f"{n}.len_drop", z3.ForAll([s, k], z3.Implies(z3.And(0 <= k, k <= ln(s)), ln(drop(s, k)) == ln(s) - k), patterns=[drop(s, k)]))
        A(f"{n}.idx_drop", z3.ForAll([s, k, i], z3.Implies(z3.And(0 <= k, 0 <= i, i < ln(s) - k), idx(drop(s, k), i) == idx(s, i + k)),
                                     patterns=[idx(drop(s, k), i)]))
        A(f"{n}.take_all", z3.ForAll([s], take(s, ln(s)) == s, patterns=[take(s, ln(s))]))
        A(f"{n}.take_all2", z3.ForAll([s, k], z3.Implies(k == ln(s), take(s, k) == s), patterns=[take(s, k)]))
        A(f"{n}.drop_zero", z3.ForAll([s], drop(s, 0) == s, patterns=[drop(s, 0)]))
        A(f"{n}.take_zero", z3.ForAll([s], take(s, 0) == emp, patterns=[take(s, 0)]))
        A(f"{n}.drop_all", z3.ForAll([s, k], z3.Implies(k == ln(s), drop(s, k) == emp), patterns=[drop(s, k)]))
        # take / drop over append (Dafny prelude)
        A(f"{n}.take_app", z3.ForAll([s, t, k], z3.And(
            z3.Implies(z3.And(0 <= k, k <= ln(s)), take(app(s, t), k) == take(s, k)),
            z3.Implies(z3.And(ln(s) <= k, k <= ln(s) + ln(t)), take(app(s, t), k) == app(s, take(t, k - ln(s))))),
            patterns=[take(app(s, t), k)]))
        A(f"{n}.drop_app", z3.ForAll([s, t, k], z3.And(
            z3.Implies(z3.And(0 <= k, k <= ln(s)), drop(app(s, t), k) == app(drop(s, k), t)),
            z3.Implies(z3.And(ln(s) <= k, k <= ln(s) + ln(t)), drop(app(s, t), k) == drop(t, k - ln(s)))),
            patterns=[drop(app(s, t), k)]))
        A(f"{n}.take_take", z3.ForAll([s, k, j], z3.Implies(z3.And(0 <= j, j <= k, k <= ln(s)), take(take(s, k), j) == take(s, j)),
                                      patterns=[take(take(s, k), j)]))
        A(f"{n}.drop_drop", z3.ForAll([s, k, j], z3.Implies(z3.And(0 <= j, 0 <= k, j + k <= ln(s)), drop(drop(s, k), j) == drop(s, k + j)),
                                      patterns=[drop(drop(s, k), j)]))
        # snoc decomposition: take(s, k+1) == take(s, k) ++ [s[k]]
        A(f"{n}.take_snoc", z3.ForAll([s, k], z3.Implies(z3.And(0 <= k, k < ln(s)),
                                                          take(s, k + 1) == app(take(s, k), unit(idx(s, k)))),
                                      patterns=[take(s, k + 1)]))
        A(f"{n}.len_upd", z3.ForAll([s, i, x], ln(upd(s, i, x)) == ln(s), patterns=[upd(s, i, x)]))
        A(f"{n}.idx_upd", z3.ForAll([s, i, x, j], z3.Implies(z3.And(0 <= j, j < ln(s)),
                                                           idx(upd(s, i, x), j) == z3.If(i == j, x, idx(s, j))),
                                    patterns=[idx(upd(s, i, x), j)]))
        A(f"{n}.ext", z3.ForAll([s, t], seq_eq(s, t) == z3.And(
            ln(s) == ln(t),
            z3.ForAll([j], z3.Implies(z3.And(0 <= j, j < ln(s)), idx(s, j) == idx(t, j)), patterns=[idx(s, j)], ) if False else
            z3.ForAll([j], z3.Implies(z3.And(0 <= j, j < ln(s)), idx(s, j) == idx(t, j)), patterns=[idx(s, j), idx(t, j)])),
            patterns=[seq_eq(s, t)]))
        A(f"{n}.ext_eq", z3.ForAll([s, t], z3.Implies(seq_eq(s, t), s == t), patterns=[seq_eq(s, t)]))
        # multiplicity (count) -- defined over the constructors
        A(f"{n}.count_empty", z3.ForAll([x], cnt(emp, x) == 0, patterns=[cnt(emp, x)]))
        A(f"{n}.count_unit", z3.ForAll([x, y], cnt(unit(y), x) == z3.If(x == y, 1, 0), patterns=[cnt(unit(y), x)]))
        A(f"{n}.count_app", z3.ForAll([s, t, x], cnt(app(s, t), x) == cnt(s, x) + cnt(t, x), patterns=[cnt(app(s, t), x)]))
        A(f"{n}.count_nonneg", z3.ForAll([s, x], cnt(s, x) >= 0, patterns=[cnt(s, x)]))
        # only for sequences whose multiplicities are being discussed (some count term on s exists)
        # opt-in ("count_witness"): an element that is counted occurs at some position
        cpos = self.func(f"cpos_{n}", S, E, I)
        A(f"{n}.count_witness", z3.ForAll([s, x], z3.Implies(cnt(s, x) >= 1, z3.And(0 <= cpos(s, x), cpos(s, x) < ln(s), idx(s, cpos(s, x)) == x)),
                                          patterns=[cnt(s, x)]))
        A(f"{n}.count_idx", z3.ForAll([s, i, y], z3.Implies(z3.And(0 <= i, i < ln(s)), cnt(s, idx(s, i)) >= 1),
                                      patterns=[z3.MultiPattern(idx(s, i), cnt(s, y))]))

    # ------------------------------------------------------------------ sets
    def setf(self, ty: SetTy, op: str) -> z3.FuncDeclRef:
        self.sort(ty)
        return self.fn[f"{op}_{ty.name}"]

    def _set_axioms(self, ty: SetTy, S: z3.SortRef) -> None:
        n = ty.name
        E = self.sort(ty.elem)
        mem = self.func(f"mem_{n}", S, E, B)
        emp = z3.Const(f"empty_{n}", S)
        self.fn[f"empty_{n}"] = emp  # type: ignore[assignment]
        add = self.func(f"add_{n}", S, E, S)
        rem = self.func(f"rem_{n}", S, E, S)
        uni = self.func(f"union_{n}", S, S, S)
        inter = self.func(f"inter_{n}", S, S, S)
        diff = self.func(f"diff_{n}", S, S, S)
        sub = self.func(f"subset_{n}", S, S, B)
        seteq = self.func(f"seteq_{n}", S, S, B)
        a, b = z3.Const("a", S), z3.Const("b", S)
        x, y = z3.Const("x", E), z3.Const("y", E)
        A = self.ax
        A(f"{n}.mem_empty", z3.ForAll([x], z3.Not(mem(emp, x)), patterns=[mem(emp, x)]))
        A(f"{n}.mem_add", z3.ForAll([a, x, y], mem(add(a, x), y) == z3.Or(x == y, mem(a, y)), patterns=[mem(add(a, x), y)]))
        A(f"{n}.mem_add_self", z3.ForAll([a, x], mem(add(a, x), x), patterns=[add(a, x)]))
        A(f"{n}.mem_rem", z3.ForAll([a, x, y], mem(rem(a, x), y) == z3.And(x != y, mem(a, y)), patterns=[mem(rem(a, x), y)]))
        A(f"{n}.mem_union", z3.ForAll([a, b, y], mem(uni(a, b), y) == z3.Or(mem(a, y), mem(b, y)), patterns=[mem(uni(a, b), y)]))
        A(f"{n}.mem_inter", z3.ForAll([a, b, y], mem(inter(a, b), y) == z3.And(mem(a, y), mem(b, y)), patterns=[mem(inter(a, b), y)]))
        A(f"{n}.mem_diff", z3.ForAll([a, b, y], mem(diff(a, b), y) == z3.And(mem(a, y), z3.Not(mem(b, y))), patterns=[mem(diff(a, b), y)]))
        # introduction rules, triggered only when the compound set is already being talked about
        A(f"{n}.inter_intro", z3.ForAll([a, b, y], z3.Implies(z3.And(mem(a, y), mem(b, y)), mem(inter(a, b), y)),
                                        patterns=[z3.MultiPattern(inter(a, b), mem(a, y)), z3.MultiPattern(inter(a, b), mem(b, y))]))
        A(f"{n}.union_intro", z3.ForAll([a, b, y], z3.Implies(z3.Or(mem(a, y), mem(b, y)), mem(uni(a, b), y)),
                                        patterns=[z3.MultiPattern(uni(a, b), mem(a, y)), z3.MultiPattern(uni(a, b), mem(b, y))]))
        A(f"{n}.rem_intro", z3.ForAll([a, x, y], z3.Implies(z3.And(mem(a, y), x != y), mem(rem(a, x), y)),
                                      patterns=[z3.MultiPattern(rem(a, x), mem(a, y))]))
        A(f"{n}.diff_intro", z3.ForAll([a, b, y], z3.Implies(z3.And(mem(a, y), z3.Not(mem(b, y))), mem(diff(a, b), y)),
                                       patterns=[z3.MultiPattern(diff(a, b), mem(a, y))]))
        A(f"{n}.subset", z3.ForAll([a, b], sub(a, b) == z3.ForAll([y], z3.Implies(mem(a, y), mem(b, y)), patterns=[mem(a, y)]),
                                   patterns=[sub(a, b)]))
        A(f"{n}.ext", z3.ForAll([a, b], seteq(a, b) == z3.ForAll([y], mem(a, y) == mem(b, y), patterns=[mem(a, y), mem(b, y)]),
                                patterns=[seteq(a, b)]))
        A(f"{n}.ext_eq", z3.ForAll([a, b], z3.Implies(seteq(a, b), a == b), patterns=[seteq(a, b)]))

    # ------------------------------------------------------------------ maps
    def mapf(self, ty: MapTy, op: str) -> z3.FuncDeclRef:
        self.sort(ty)
        return self.fn[f"{op}_{ty.name}"]

    def _map_axioms(self, ty: MapTy, M: z3.SortRef) -> None:
        n = ty.name
        K, V = self.sort(ty.key), self.sort(ty.val)
        kseq = SeqTy(ty.key)
        KS = self.sort(kseq)
        has = self.func(f"has_{n}", M, K, B)
        get = self.func(f"get_{n}", M, K, V)
        emp = z3.Const(f"empty_{n}", M)
        self.fn[f"empty_{n}"] = emp  # type: ignore[assignment]
        store = self.func(f"store_{n}", M, K, V, M)
        remove = self.func(f"remove_{n}", M, K, M)
        keys = self.func(f"keys_{n}", M, KS)
        mapeq = self.func(f"mapeq_{n}", M, M, B)
        m, m2 = z3.Const("m", M), z3.Const("m2", M)
        k, k2 = z3.Const("k", K), z3.Const("k2", K)
        v = z3.Const("v", V)
        i, j = z3.Ints("i j")
        klen, kidx = self.seqf(kseq, "len"), self.seqf(kseq, "idx")
        kapp, kunit, kemp = self.seqf(kseq, "app"), self.seqf(kseq, "unit"), self.fn[f"empty_{kseq.name}"]
        A = self.ax
        A(f"{n}.has_empty", z3.ForAll([k], z3.Not(has(emp, k)), patterns=[has(emp, k)]))
        A(f"{n}.keys_empty", keys(emp) == kemp)
        A(f"{n}.has_store", z3.ForAll([m, k, v, k2], has(store(m, k, v), k2) == z3.Or(k == k2, has(m, k2)), patterns=[has(store(m, k, v), k2)]))
        A(f"{n}.get_store", z3.ForAll([m, k, v, k2], get(store(m, k, v), k2) == z3.If(k == k2, v, get(m, k2)), patterns=[get(store(m, k, v), k2)]))
        A(f"{n}.has_store_self", z3.ForAll([m, k, v], has(store(m, k, v), k), patterns=[store(m, k, v)]))
        A(f"{n}.keys_store", z3.ForAll([m, k, v], keys(store(m, k, v)) == z3.If(has(m, k), keys(m), kapp(keys(m), kunit(k))),
                                       patterns=[store(m, k, v)]))
        A(f"{n}.has_remove", z3.ForAll([m, k, k2], has(remove(m, k), k2) == z3.And(k != k2, has(m, k2)), patterns=[has(remove(m, k), k2)]))
        A(f"{n}.get_remove", z3.ForAll([m, k, k2], z3.Implies(k != k2, get(remove(m, k), k2) == get(m, k2)), patterns=[get(remove(m, k), k2)]))
        # keys(m) enumerates dom(m) without repetition, in insertion order
        A(f"{n}.keys_has", z3.ForAll([m, i], z3.Implies(z3.And(0 <= i, i < klen(keys(m))), has(m, kidx(keys(m), i))),
                                     patterns=[kidx(keys(m), i)]))
        pos = self.func(f"pos_{n}", M, K, I)
        A(f"{n}.has_keys", z3.ForAll([m, k], z3.Implies(has(m, k), z3.And(0 <= pos(m, k), pos(m, k) < klen(keys(m)),
                                                                        kidx(keys(m), pos(m, k)) == k)),
                                     patterns=[has(m, k)]))
        A(f"{n}.keys_distinct", z3.ForAll([m, i], z3.Implies(z3.And(0 <= i, i < klen(keys(m))), pos(m, kidx(keys(m), i)) == i),
                                          patterns=[kidx(keys(m), i)]))
        kcnt = self.seqf(kseq, "count")
        A(f"{n}.keys_count", z3.ForAll([m, k], kcnt(keys(m), k) == z3.If(has(m, k), 1, 0), patterns=[kcnt(keys(m), k)]))
        A(f"{n}.ext", z3.ForAll([m, m2], mapeq(m, m2) == z3.And(
            keys(m) == keys(m2),
            z3.ForAll([k], z3.And(has(m, k) == has(m2, k), z3.Implies(has(m, k), get(m, k) == get(m2, k))),
                      patterns=[has(m, k)], ) if False else
            z3.ForAll([k], z3.And(has(m, k) == has(m2, k), z3.Implies(has(m, k), get(m, k) == get(m2, k))),
                      patterns=[has(m, k), has(m2, k), get(m, k), get(m2, k)])),
            patterns=[mapeq(m, m2)]))
        # a dict is its contents (value semantics): extensionally equal maps are the same value
        A(f"{n}.ext_eq", z3.ForAll([m, m2], z3.Implies(mapeq(m, m2), m == m2), patterns=[mapeq(m, m2)]))
        A(f"{n}.eq_refl", z3.ForAll([m], mapeq(m, m), patterns=[mapeq(m, m)]))

    # --------------------------------------------------------------- records
    def field(self, rec: RecTy, fname: str) -> tuple[str, z3.SortRef]:
        """Sort of the symbol that gives field `fname`: a function Ref -> T
        (immutable) or an array Ref -> T (mutable, threaded through states)."""
        ref = self.sort(rec)
        fs = self.sort(rec.fields[fname])
        return (f"{rec.name}.{fname}", z3.ArraySort(ref, fs))
