"""pyvc engine: symbolic execution of real Python source into verification
conditions (VCs), Dafny/Boogie style.

* statements of the supported subset are executed forward, forking at branches;
* loops are cut at the sidecar's invariants (assert at entry, havoc the assigned
  variables, assume invariant, execute the body once, assert invariant);
* calls to functions under contract assert the callee's `requires` and assume
  its `ensures` (the callee's body is never inlined);
* builtins / library functions use trusted contracts from builtins.py;
* every `assert` on every path is one named VC (SMT-LIB2 text) that a solver
  must answer `unsat`.

Anything outside the subset raises Unsupported -> the function is *undecided*,
never discharged.
"""
from __future__ import annotations

import ast
import copy
import hashlib
from dataclasses import dataclass, field
from typing import Any, Callable, Optional

import z3

from . import tys as T
from .tys import Prelude, Ty, SeqTy, MapTy, SetTy, OptTy, RecTy, TupleTy, StructTy, INT, BOOL, FLOAT, STR, NONE, ANY


class Unsupported(Exception):
    def __init__(self, what: str, node: Optional[ast.AST] = None):
        line = getattr(node, "lineno", "?")
        super().__init__(f"unsupported: {what} (line {line})")
        self.what, self.line = what, line


class What(str):
    """description of a possible exception, optionally carrying the heap at the point where it is raised"""
    heap: Any = None


class ContractError(Exception):
    """The sidecar cannot be bound to the code (renamed parameter, loop gone ...)."""


@dataclass
class V:
    t: Any  # z3 term
    ty: Ty


@dataclass
class VC:
    name: str
    smt2: str
    kind: str  # 'goal' | 'cover'
    func: str
    clause: str
    path: str
    inputs: dict[str, str] = field(default_factory=dict)  # python name -> smt constant name (for models)
    text: str = ""


class State:
    def __init__(self) -> None:
        self.env: dict[str, V] = {}
        self.heap: dict[str, Any] = {}
        self.pc: list[Any] = []
        self.old: Optional["State"] = None
        self.path: list[str] = []
        self.ghost_idx: dict[int, str] = {}
        self.loop_entry: Optional["State"] = None  # state on entry to the innermost enclosing loop (for pre_loop(...))
        self.exc_names: dict[str, str] = {}  # `except X as e`: e -> the exception class caught on this path

    def fork(self) -> "State":
        s = State()
        s.env = dict(self.env)
        s.heap = dict(self.heap)
        s.pc = list(self.pc)
        s.old = self.old
        s.path = list(self.path)
        s.loop_entry = self.loop_entry
        s.exc_names = dict(self.exc_names)
        return s

    def snapshot(self) -> "State":
        s = self.fork()
        s.old = None
        return s


class Outcome:
    """End of one execution path of a block."""

    def __init__(self, kind: str, st: State, value: Optional[V] = None, exc: str = ""):
        self.kind = kind  # 'normal' | 'return' | 'raise' | 'break' | 'continue'
        self.st = st
        self.value = value
        self.exc = exc


# --------------------------------------------------------------------------- type annotations
class TypeEnv:
    def __init__(self, pre: Prelude):
        self.pre = pre
        self.records: dict[str, RecTy] = {}
        self.aliases: dict[str, Ty] = {}

    def add_record(self, name: str, fields: dict[str, str], mutable: list[str] | None = None) -> RecTy:
        rec = RecTy(name, {}, set(mutable or []))
        self.records[name] = rec
        self._pending = getattr(self, "_pending", [])
        self._pending.append((rec, fields))
        return rec

    def add_struct(self, name: str, fields: dict[str, str]) -> None:
        st = StructTy(name, {})
        self.aliases[name] = st
        self._pending = getattr(self, "_pending", [])
        self._pending.append((st, fields))

    def finish(self) -> None:
        for rec, fields in getattr(self, "_pending", []):
            for f, ann in fields.items():
                rec.fields[f] = self.parse(ann)
        self._pending = []

    def parse(self, ann: str | ast.AST) -> Ty:
        node = ast.parse(ann, mode="eval").body if isinstance(ann, str) else ann
        return self._p(node)

    def _p(self, n: ast.AST) -> Ty:
        if isinstance(n, ast.Constant):
            if n.value is None:
                return NONE
            if isinstance(n.value, str):
                return self._p(ast.parse(n.value, mode="eval").body)
        if isinstance(n, ast.Name):
            base = {"int": INT, "bool": BOOL, "float": FLOAT, "str": STR, "None": NONE, "Any": ANY, "object": ANY}
            if n.id in base:
                return base[n.id]
            if n.id in self.records:
                return self.records[n.id]
            if n.id in self.aliases:
                return self.aliases[n.id]
            raise Unsupported(f"type {n.id}", n)
        if isinstance(n, ast.Attribute):
            return self._p(ast.Name(id=n.attr))
        if isinstance(n, ast.BinOp) and isinstance(n.op, ast.BitOr):
            l, r = self._p(n.left), self._p(n.right)
            if r == NONE:
                return OptTy(l)
            if l == NONE:
                return OptTy(r)
            if l == r:
                return l   # e.g. list[PVEvent] | list[dict[str, Any]] once PVEvent is modelled as the dict it is
            raise Unsupported("union type", n)
        if isinstance(n, ast.Subscript):
            head = n.value.id if isinstance(n.value, ast.Name) else getattr(n.value, "attr", "?")
            args = n.slice.elts if isinstance(n.slice, ast.Tuple) else [n.slice]
            if head in ("list", "List", "Iterable", "Sequence", "Generator", "Iterator"):
                return SeqTy(self._p(args[0]))
            if head in ("set", "Set", "frozenset"):
                return SetTy(self._p(args[0]))
            if head in ("dict", "Dict"):
                return MapTy(self._p(args[0]), self._p(args[1]))
            if head == "Optional":
                return OptTy(self._p(args[0]))
            if head == "tuple":
                if len(args) == 2 and isinstance(args[1], ast.Constant) and args[1].value is Ellipsis:
                    return SeqTy(self._p(args[0]))
                return TupleTy([self._p(a) for a in args])
            raise Unsupported(f"generic {head}", n)
        raise Unsupported(f"annotation {ast.dump(n)}", n)


# --------------------------------------------------------------------------- contracts
@dataclass
class LoopSpec:
    invariants: dict[str, str] = field(default_factory=dict)
    index: str = ""  # ghost name for the iteration index of a for loop
    seq: str = ""  # ghost name bound to the iterated sequence
    decreases: str = ""
    hints_end: list[str] = field(default_factory=list)  # facts asserted (proved, then assumed) at the end of the body
    hints_after: list[str] = field(default_factory=list)
    hints_begin: list[str] = field(default_factory=list)
    hints_entry: list[str] = field(default_factory=list)  # just before the loop (after the iterated value is evaluated)


@dataclass
class Contract:
    name: str  # qualname
    params: dict[str, str] = field(default_factory=dict)  # optional overrides of annotations
    returns: str = ""
    requires: dict[str, str] = field(default_factory=dict)
    ensures: dict[str, str] = field(default_factory=dict)
    runtime_ensures: dict[str, str] = field(default_factory=dict)  # postconditions that are only evaluated at run time on the real function (no VC: their vocabulary is opaque to the solver); never counted as proved
    raises: dict[str, str] = field(default_factory=dict)  # Exc -> condition (iff)
    loops: dict[int, LoopSpec] = field(default_factory=dict)
    modifies: list[str] = field(default_factory=list)  # "Rec.field" heap arrays the function may write
    pure: bool = False  # deterministic function of its arguments: usable as a spec symbol
    trusted: bool = False  # assumed, not verified (external)
    locals: dict[str, str] = field(default_factory=dict)  # type hints for locals where inference fails
    hints: list[str] = field(default_factory=list)  # facts proved then assumed just before the postcondition
    at: dict[str, list[str]] = field(default_factory=dict)  # cut points: statement text (ast.unparse) -> facts proved, then assumed, right after that statement; a key that matches no statement is simply not used
    decreases: str = ""
    old_names: dict[str, str] = field(default_factory=dict)
    generator: bool = False  # verified as the list of yielded values
    splits: dict[str, str] = field(default_factory=dict)  # case split of the precondition: label -> condition
    witness: dict[str, str] = field(default_factory=dict)  # named terms whose model values are reported (for replay)
    hide: list[str] = field(default_factory=list)  # spec functions whose definitions stay opaque in this function's VCs
    prelude: list[str] = field(default_factory=list)  # optional prelude axiom groups to include (e.g. "idx_app_rev")
    source_name: str = ""  # qualified name in the source when it differs from the contract's key (e.g. a property setter)
    decorator: str = ""  # pick the definition carrying this decorator (e.g. "logic_gate_tree.setter")
    external: bool = False  # trusted contract of a function that has no source in the repository: signature = `params` (in order) and `returns`
    externals: list[str] = field(default_factory=list)  # root names (modules / handles of external libraries) whose attribute / call chains are opaque values
    ghost_effects: list[dict[str, Any]] = field(default_factory=list)  # trusted effects of external statements on ghost state: {"after": "<statement text prefix>", "modifies": [...], "ensures": {...}}
    atomic_raises: bool = False  # a declared exception leaves every field in `modifies` unchanged (an obligation when verified, an assumption at call sites)
    static: bool = False  # a @staticmethod: `obj.name(args)` does not pass obj
    is_property: bool = False  # a @property getter: `obj.name` in code and clauses denotes a call of this contract


@dataclass
class SpecFn:
    name: str
    params: list[tuple[str, Ty]]
    ret: Ty
    body: Optional[ast.expr]
    decl: Any = None
    decl_lim: Any = None
    src: str = ""


@dataclass
class Lemma:
    name: str
    forall: dict[str, str]
    requires: list[str]
    ensures: str
    induction: str = ""  # name of the variable whose len (or value) decreases
    measure: str = ""  # explicit measure expression
    hints: list[str] = field(default_factory=list)
    triggers: list[str] = field(default_factory=list)
    trusted: bool = False
    cases: list[str] = field(default_factory=list)
    hide: list[str] = field(default_factory=list)
    prelude: list[str] = field(default_factory=list)
    explicit: bool = False  # not a global axiom: only instantiated by `use name(args)` hints


# --------------------------------------------------------------------------- the engine
class Engine:
    def __init__(self) -> None:
        self.pre = Prelude()
        self.tenv = TypeEnv(self.pre)
        self.contracts: dict[str, Contract] = {}
        self.specs: dict[str, SpecFn] = {}
        self.lemmas: list[Lemma] = []
        self.lemma_axioms: list[tuple[str, Any]] = []
        self.spec_axioms: list[tuple[str, Any]] = []
        self.vcs: list[VC] = []
        self.dropped: list[str] = []
        self.trusted_used: set[str] = set()
        self.alias_sites: list[str] = []
        self.func_sigs: dict[str, tuple[list[tuple[str, Ty]], Ty]] = {}
        self.builtins: dict[str, Callable[..., Any]] = {}
        self.methods: dict[str, Callable[..., Any]] = {}
        self.consts: dict[str, V] = {}
        self.extra_axioms: list[tuple[str, Any]] = []
        self.cur_func = ""
        self.cur_contract: Optional[Contract] = None
        self.strlits: dict[str, Any] = {}
        self.aux_facts: list[Any] = []
        self.seq_ty_by_sort: dict[str, SeqTy] = {}
        self.pure_decls: dict[str, Any] = {}
        self.mode_spec = False
        self._site = 0
        from . import builtins as _b
        _b.install(self)

    # ----------------------------------------------------------------- helpers
    def sort(self, ty: Ty) -> Any:
        if isinstance(ty, SeqTy):
            self.seq_ty_by_sort.setdefault(ty.name, ty)
        return self.pre.sort(ty)

    fresh_serial = 0

    def fresh(self, base: str, ty: Ty) -> V:
        self.fresh_serial += 1
        return V(self.pre.fresh(base, self.sort(ty)), ty)

    def strlit(self, s: str) -> V:
        if s not in self.strlits:
            h = hashlib.sha1(s.encode()).hexdigest()[:6]
            safe = "".join(c if c.isalnum() else "_" for c in s)[:20]
            self.strlits[s] = z3.Const(f"str${safe}${h}", self.pre.Str)
        return V(self.strlits[s], STR)

    def strlit_axioms(self) -> list[Any]:
        vals = list(self.strlits.values())
        return [z3.Distinct(*vals)] if len(vals) > 1 else []

    def site(self) -> int:
        self._site += 1
        return self._site

    # ------------------------------------------------------- heap / fields
    def heap_key(self, rec: RecTy, f: str) -> str:
        return f"{rec.name}.{f}"

    def heap_arr(self, st: State, rec: RecTy, f: str) -> Any:
        k = self.heap_key(rec, f)
        if k not in st.heap:
            _, srt = self.pre.field(rec, f)
            st.heap[k] = z3.Const(f"H0.{k}", srt)
        return st.heap[k]

    def read_field(self, st: State, obj: V, f: str) -> V:
        rec = obj.ty
        assert isinstance(rec, RecTy)
        if f not in rec.fields:
            raise Unsupported(f"field {rec.name}.{f}")
        if getattr(self, "fields_read", None) is not None:
            self.fields_read.add((rec, f))
        return V(z3.Select(self.heap_arr(st, rec, f), obj.t), rec.fields[f])

    def write_field(self, st: State, obj: V, f: str, val: V) -> None:
        rec = obj.ty
        assert isinstance(rec, RecTy)
        if f not in rec.fields:
            raise Unsupported(f"field {rec.name}.{f}")
        val = self.coerce(val, rec.fields[f])
        arr = self.heap_arr(st, rec, f)
        st.heap[self.heap_key(rec, f)] = z3.Store(arr, obj.t, val.t)

    # ------------------------------------------------------------ coercions
    def coerce(self, v: V, ty: Ty) -> V:
        if v.ty == ty:
            return v
        if isinstance(ty, OptTy):
            if v.ty == NONE:
                return V(self.pre.opt_none(ty), ty)
            if v.ty == ty.inner:
                return V(self.pre.opt_some(ty, v.t), ty)
            if isinstance(v.ty, OptTy) and v.ty.inner == NONE:
                return V(self.pre.opt_none(ty), ty)
            inner = self.coerce(v, ty.inner)
            return V(self.pre.opt_some(ty, inner.t), ty)
        if isinstance(v.ty, OptTy) and v.ty.inner == ty:
            # narrowing (the caller is responsible for having established not-None)
            return V(self.pre.opt_val(v.ty, v.t), ty)
        if ty == FLOAT and v.ty == INT:
            return V(z3.ToReal(v.t), FLOAT)
        if ty == INT and v.ty == BOOL:
            return V(z3.If(v.t, 1, 0), INT)
        if isinstance(ty, SeqTy) and isinstance(v.ty, SeqTy) and v.ty.elem == ANY and getattr(v, "is_empty_lit", False):
            return V(self.pre.fn[f"empty_{ty.name}"] if self.sort(ty) is not None else None, ty)
        if isinstance(ty, SeqTy) and isinstance(v.ty, SeqTy) and getattr(v, "empty_lit", False):
            self.sort(ty)
            return V(self.pre.fn[f"empty_{ty.name}"], ty)
        if isinstance(ty, MapTy) and isinstance(v.ty, MapTy) and getattr(v, "empty_lit", False):
            self.sort(ty)
            return V(self.pre.fn[f"empty_{ty.name}"], ty)
        if isinstance(ty, SetTy) and isinstance(v.ty, SetTy) and getattr(v, "empty_lit", False):
            self.sort(ty)
            return V(self.pre.fn[f"empty_{ty.name}"], ty)
        if ty == ANY:
            box = self.pre.func(f"box_{v.ty.name}", self.sort(v.ty), self.pre.AnyS)
            unbox = self.pre.func(f"unbox_{v.ty.name}", self.pre.AnyS, self.sort(v.ty))
            key = f"box.{v.ty.name}"
            if key not in self.pre._done:
                self.pre._done.add(key)
                x = z3.Const("x", self.sort(v.ty))
                self.pre.ax(f"{key}.inj", z3.ForAll([x], unbox(box(x)) == x, patterns=[box(x)]))
            return V(box(v.t), ANY)
        if v.ty == ANY:
            unbox = self.pre.func(f"unbox_{ty.name}", self.pre.AnyS, self.sort(ty))
            self.pre.func(f"box_{ty.name}", self.sort(ty), self.pre.AnyS)
            return V(unbox(v.t), ty)
        raise Unsupported(f"coercion {v.ty} -> {ty}")

    def unify(self, a: V, b: V) -> tuple[V, V]:
        if a.ty == b.ty:
            return a, b
        for (x, y, sw) in ((a, b, False), (b, a, True)):
            try:
                y2 = self.coerce(y, x.ty)
                return (x, y2) if not sw else (y2, x)
            except Unsupported:
                pass
        raise Unsupported(f"cannot unify {a.ty} and {b.ty}")

    def truthy(self, v: V) -> Any:
        ty = v.ty
        if ty == BOOL:
            return v.t
        if ty == INT:
            return v.t != 0
        if ty == STR:
            return v.t != self.strlit("").t
        if isinstance(ty, SeqTy):
            return self.pre.seqf(ty, "len")(v.t) != 0
        if isinstance(ty, OptTy):
            inner = V(self.pre.opt_val(ty, v.t), ty.inner)
            notnone = z3.Not(self.pre.opt_is_none(ty, v.t))
            if isinstance(ty.inner, (RecTy,)):
                return notnone
            return z3.And(notnone, self.truthy(inner))
        if isinstance(ty, MapTy):
            ks = SeqTy(ty.key)
            return self.pre.seqf(ks, "len")(self.pre.mapf(ty, "keys")(v.t)) != 0
        if isinstance(ty, SetTy):
            return v.t != self.pre.fn[f"empty_{ty.name}"]
        if ty == NONE:
            return z3.BoolVal(False)
        if isinstance(ty, RecTy):
            return z3.BoolVal(True)
        raise Unsupported(f"truthiness of {ty}")

    def eq(self, a: V, b: V) -> Any:
        a, b = self.unify(a, b)
        if isinstance(a.ty, SeqTy):
            return self.pre.seqf(a.ty, "seqeq")(a.t, b.t)
        if isinstance(a.ty, SetTy):
            return self.pre.setf(a.ty, "seteq")(a.t, b.t)
        if isinstance(a.ty, MapTy):
            return self.pre.mapf(a.ty, "mapeq")(a.t, b.t)
        return a.t == b.t

    # sequences ------------------------------------------------------------
    def seq_len(self, s: V) -> Any:
        if isinstance(s.ty, SeqTy):
            self.seq_ty_by_sort.setdefault(s.ty.name, s.ty)
        return self.pre.seqf(s.ty, "len")(s.t)  # type: ignore[arg-type]

    def seq_idx(self, s: V, i: Any) -> V:
        assert isinstance(s.ty, SeqTy)
        return V(self.pre.seqf(s.ty, "idx")(s.t, i), s.ty.elem)

    def seq_empty(self, ty: SeqTy) -> V:
        self.sort(ty)
        return V(self.pre.fn[f"empty_{ty.name}"], ty)

    def seq_unit(self, ty: SeqTy, x: V) -> V:
        return V(self.pre.seqf(ty, "unit")(self.coerce(x, ty.elem).t), ty)

    def seq_app(self, a: V, b: V) -> V:
        a, b = self.unify(a, b)
        return V(self.pre.seqf(a.ty, "app")(a.t, b.t), a.ty)  # type: ignore[arg-type]

    def seq_lit(self, ty: SeqTy, items: list[V]) -> V:
        r = self.seq_empty(ty)
        first = True
        for it in items:
            u = self.seq_unit(ty, it)
            r = u if first else self.seq_app(r, u)
            first = False
        return r

    def norm_index(self, s: V, i: Any, st: Optional["State"] = None) -> Any:
        """Python index -> offset (negative indices count from the end)."""
        i = z3.simplify(i) if z3.is_expr(i) else z3.IntVal(i)
        if z3.is_int_value(i):
            n = i.as_long()
            return z3.IntVal(n) if n >= 0 else self.seq_len(s) + n
        if getattr(self, "trigger_mode", False):
            return i  # patterns must be ite-free; the index is taken as written
        if st is not None and self.entails_qf(st, i >= 0):
            return i
        if st is not None and self.entails_qf(st, i < 0):
            return i + self.seq_len(s)
        return z3.If(i < 0, i + self.seq_len(s), i)

    def entails_qf(self, st: "State", f: Any) -> bool:
        """Does the quantifier-free part of the path condition entail f?  (A quick,
        sound simplification aid: `unknown` counts as no.)"""
        sv = z3.Solver()
        sv.set("timeout", 1000)
        for a in st.pc:
            if not _has_quant(a):
                sv.add(a)
        for _, a in self.pre.axioms:
            if not _has_quant(a):
                sv.add(a)
        # lengths are non-negative (instances of the quantified len_nonneg axiom for the length terms in sight)
        seen: set[int] = set()
        stack = [f] + [a for a in st.pc if not _has_quant(a)]
        while stack:
            e = stack.pop()
            if e.get_id() in seen:
                continue
            seen.add(e.get_id())
            if z3.is_app(e):
                if e.decl().name().startswith("len_") and e.num_args() == 1:
                    sv.add(e >= 0)
                stack.extend(e.children())
        sv.add(z3.Not(f))
        return sv.check() == z3.unsat

    def seq_slice(self, s: V, lo: Optional[Any], hi: Optional[Any], st: Optional["State"] = None) -> V:
        assert isinstance(s.ty, SeqTy)
        ln = self.seq_len(s)
        take, drop = self.pre.seqf(s.ty, "take"), self.pre.seqf(s.ty, "drop")

        def clamp(x: Any) -> Any:
            x = z3.simplify(x)
            if st is not None and not z3.is_int_value(x) and self.entails_qf(st, z3.And(0 <= x, x <= ln)):
                return x  # in range under the path condition: no clamping (keeps terms ite-free)
            if st is not None and z3.is_int_value(x) and x.as_long() > 0 and self.entails_qf(st, x <= ln):
                return x
            if st is not None and z3.is_int_value(x) and x.as_long() < 0 and self.entails_qf(st, ln + x >= 0):
                return ln + x
            if z3.is_int_value(x):
                n = x.as_long()
                if n >= 0:
                    return z3.If(ln < n, ln, z3.IntVal(n)) if n > 0 else z3.IntVal(0)
                return z3.If(ln + n < 0, 0, ln + n)
            x = z3.If(x < 0, x + ln, x)
            return z3.If(x < 0, 0, z3.If(x > ln, ln, x))
        t = s.t
        if hi is not None:
            h = clamp(hi)
            t = take(t, h)
            if lo is not None:
                l = clamp(lo)
                t = drop(t, z3.If(l > h, h, l))
        elif lo is not None:
            t = drop(t, clamp(lo))
        return V(t, s.ty)

    # ------------------------------------------------------------------ VCs
    def base_assertions(self) -> list[Any]:
        opt = set((self.cur_contract.prelude if self.cur_contract is not None else None) or getattr(self, "cur_prelude", None) or [])
        out = [f for nm, f in self.pre.axioms
               if not (nm.endswith((".idx_app_left", ".idx_app_right", ".idx_app_last")) and "idx_app_rev" not in opt)
               and not (nm.endswith(".count_witness") and "count_witness" not in opt)]
        hidden = set((self.cur_contract.hide if self.cur_contract is not None else None) or getattr(self, "cur_hide", None) or [])
        out += [f for nm, f in self.spec_axioms if nm.split(".")[1] not in hidden]
        out += [f for _, f in self.lemma_axioms]
        out += [f for _, f in self.extra_axioms]
        out += self.strlit_axioms()
        return out

    def emit(self, st: State, goal: Any, clause: str, kind: str = "goal", text: str = "", extra_pc: list[Any] | None = None) -> None:
        s = z3.Solver()
        for a in self.base_assertions():
            s.add(a)
        for a in st.pc:
            s.add(a)
        for a in extra_pc or []:
            s.add(a)
        for a in self.aux_facts:
            s.add(a)
        s.add(z3.Not(goal))
        path = "/".join(st.path) or "-"
        name = f"{self.cur_func}/{clause}/{path}"
        inputs = getattr(self, "cur_inputs", {})
        self.vcs.append(VC(name=name, smt2=s.to_smt2(), kind=kind, func=self.cur_func, clause=clause, path=path,
                           inputs=dict(inputs), text=text))

    def assume(self, st: State, f: Any) -> None:
        st.pc.append(f)

    def mention(self, v: V) -> None:
        """Keep a ground sequence term in the e-graph: `len(t) >= 0` (an instance of
        the len_nonneg axiom, hence sound to add to every VC) makes t a ground term
        that multi-patterns can match even when it otherwise only occurs under a
        quantifier."""
        if not isinstance(v.ty, SeqTy) or self.has_bound(v.t):
            return
        f = self.seq_len(v) >= 0
        if not any(f.eq(g) for g in self.aux_facts[-200:]):
            self.aux_facts.append(f)

    def mention_ground_seqs(self, f: Any) -> None:
        """Every ground sequence-valued application occurring under a quantifier of
        a clause is kept in the e-graph (see `mention`)."""
        seen: set[int] = set()
        bound_cache: dict[int, bool] = {}

        def is_bound(e: Any) -> bool:
            k = e.get_id()
            if k in bound_cache:
                return bound_cache[k]
            if z3.is_var(e):
                r = True
            elif z3.is_quantifier(e):
                r = True
            elif z3.is_const(e):
                r = e.decl().kind() == z3.Z3_OP_UNINTERPRETED and "$" in e.decl().name()
            else:
                r = any(is_bound(c) for c in e.children())
            bound_cache[k] = r
            return r

        def walk(e: Any, under: bool) -> None:
            if e.get_id() in seen and not under:
                return
            seen.add(e.get_id())
            if z3.is_quantifier(e):
                walk(e.body(), True)
                return
            if not z3.is_app(e):
                return
            if under and e.num_args() > 0 and e.sort().name().startswith("Seq_") and not is_bound(e):
                ty = self.seq_ty_by_sort.get(e.sort().name())
                if ty is not None:
                    self.mention(V(e, ty))
            for c in e.children():
                walk(c, under)
        walk(f, False)

    def has_bound(self, t: Any) -> bool:
        seen = set()
        stack = [t]
        while stack:
            e = stack.pop()
            if e.get_id() in seen:
                continue
            seen.add(e.get_id())
            if z3.is_var(e):
                return True
            if z3.is_const(e) and e.decl().kind() == z3.Z3_OP_UNINTERPRETED and "$" in e.decl().name():
                return True
            stack.extend(e.children())
        return False

    def prove_then_assume(self, st: State, f: Any, clause: str, text: str = "") -> None:
        self.emit(st, f, clause, text=text)
        st.pc.append(f)

    # ------------------------------------------------------------ clause text
    def clause(self, text: str, st: State, extra: dict[str, V] | None = None) -> Any:
        """Translate a contract clause (Python expression text) to a formula."""
        node = ast.parse(text.strip(), mode="eval").body
        saved = self.mode_spec
        self.mode_spec = True
        try:
            st2 = st.fork()
            st2.old = st.old
            if extra:
                st2.env.update(extra)
            v = self.expr(node, st2)
            f = self.truthy(v)
            self.mention_ground_seqs(f)
            return f
        finally:
            self.mode_spec = saved

    def term(self, text: str, st: State, extra: dict[str, V] | None = None) -> V:
        node = ast.parse(text.strip(), mode="eval").body
        saved = self.mode_spec
        self.mode_spec = True
        try:
            st2 = st.fork()
            st2.old = st.old
            if extra:
                st2.env.update(extra)
            return self.expr(node, st2)
        finally:
            self.mode_spec = saved

    # ============================================================ expressions
    def external_root(self, n: ast.expr) -> Optional[str]:
        c = self.cur_contract
        if c is None or not c.externals:
            return None
        e = n
        while isinstance(e, (ast.Attribute, ast.Call, ast.Subscript)):
            e = e.func if isinstance(e, ast.Call) else e.value
        return e.id if isinstance(e, ast.Name) and e.id in c.externals else None

    def expr(self, n: ast.expr, st: State) -> V:
        if not self.mode_spec and isinstance(n, (ast.Attribute, ast.Call, ast.Name)) and self.external_root(n) is not None:
            # an expression that only talks to an external library object: an opaque value; its arguments are still evaluated
            # (they may raise), its effects on the verified state are none beyond the declared ghost effects
            if isinstance(n, ast.Call):
                for a in n.args:
                    if self.external_root(a) is None:
                        try:
                            self.expr(a, st)
                        except Unsupported:
                            pass
            self.trusted_used.add(f"expressions rooted at {self.external_root(n)!r} are calls into an external library: opaque values, no effect on the verified state "
                                  "beyond the declared ghost effects")
            return self.fresh("ext", ANY)
        m = getattr(self, "e_" + type(n).__name__, None)
        if m is None:
            raise Unsupported(f"expression {type(n).__name__}", n)
        return m(n, st)

    # checks: in code mode an unsafe operation forks an exceptional path
    def check(self, st: State, cond: Any, exc: str, what: str) -> None:
        if self.mode_spec:
            return
        self.pending_raises.append((list(st.pc), z3.Not(cond), exc, what))
        st.pc.append(cond)

    def e_Constant(self, n: ast.Constant, st: State) -> V:
        v = n.value
        if isinstance(v, bool):
            return V(z3.BoolVal(v), BOOL)
        if isinstance(v, int):
            return V(z3.IntVal(v), INT)
        if isinstance(v, float):
            return V(z3.RealVal(repr(v)) if v != int(v) or abs(v) > 1e15 else z3.RealVal(int(v)), FLOAT)
        if isinstance(v, str):
            return self.strlit(v)
        if v is None:
            return V(self.pre.none_val, NONE)
        raise Unsupported(f"constant {v!r}", n)

    def e_Name(self, n: ast.Name, st: State) -> V:
        if n.id in st.env:
            return st.env[n.id]
        if n.id == "yielded" and "$yielded" in st.env and self.mode_spec:
            return st.env["$yielded"]  # ghost: the values a generator function has yielded so far
        if n.id in self.consts:
            return self.consts[n.id]
        if n.id in getattr(self, "ghost_globals", {}):
            # a ghost global (e.g. the file system): one object, the same in every function and clause
            rec = self.ghost_globals[n.id]
            return V(z3.Const(f"ghost${n.id}", self.sort(rec)), rec)
        if n.id in ("True", "False"):
            return V(z3.BoolVal(n.id == "True"), BOOL)
        raise Unsupported(f"unknown name {n.id}", n)

    def e_NamedExpr(self, n: ast.NamedExpr, st: State) -> V:
        """`name := value` (in a loop / branch condition): binds the local, yields the value"""
        if self.mode_spec or self.in_comprehension:
            raise Unsupported("assignment expression in a clause / comprehension", n)
        v = self.expr(n.value, st)
        if getattr(v, "empty_lit", False):
            raise Unsupported("assignment expression with an untyped empty literal", n)
        declared = getattr(self, "local_types", {}).get(n.target.id)
        if declared is not None:
            v = self.coerce(v, declared)
        st.env[n.target.id] = v
        return v

    def e_JoinedStr(self, n: ast.JoinedStr, st: State) -> V:
        """An f-string is an uninterpreted *function* of its interpolated values (one symbol per template text and argument
        sorts): the same template over equal values is the same string, in code and in clauses alike; nothing else is known
        about it (a sidecar may state injectivity in named positions as a trusted assumption, see FSTRING_INJECTIVE)."""
        template = ""
        parts: list[V] = []
        try:
            for v in n.values:
                if isinstance(v, ast.Constant):
                    template += str(v.value).replace("{", "{{").replace("}", "}}")
                else:
                    assert isinstance(v, ast.FormattedValue)
                    spec = ast.unparse(v.format_spec) if v.format_spec is not None else ""
                    template += "{" + ("!" + chr(v.conversion) if v.conversion != -1 else "") + (":" + spec if spec else "") + "}"
                    pv = self.expr(v.value, st)
                    if getattr(pv, "empty_lit", False) or pv.ty == NONE:
                        raise Unsupported("f-string part", v)
                    parts.append(pv)
        except Unsupported:
            self.dropped.append(f"f-string at line {getattr(n, 'lineno', '?')} treated as an opaque string")
            return self.fresh("fstr", STR)
        tag = hashlib.sha1((template + "|" + "|".join(p.ty.name for p in parts)).encode()).hexdigest()[:8]
        fn = self.pre.func(f"fstr_{tag}", *[self.sort(p.ty) for p in parts], self.pre.Str)
        inj = getattr(self, "fstring_injective", {}).get(template)
        key = f"fstr.{tag}.inj"
        if inj and key not in self.pre._done:
            self.pre._done.add(key)
            xs = [z3.Const(f"fs_x{i}_{tag}", self.sort(p.ty)) for i, p in enumerate(parts)]
            for pos in inj:
                inv = self.pre.func(f"fstr_{tag}_inv{pos}", self.pre.Str, self.sort(parts[pos].ty))
                self.pre.ax(f"{key}{pos}", z3.ForAll(xs, inv(fn(*xs)) == xs[pos], patterns=[fn(*xs)]))
            self.trusted_used.add(f"the f-string {template!r} determines its interpolated value(s) at position(s) {list(inj)} (stated by the sidecar)")
        if not parts:
            return self.strlit(template.replace("{{", "{").replace("}}", "}"))
        return V(fn(*[p.t for p in parts]), STR)

    def e_Attribute(self, n: ast.Attribute, st: State) -> V:
        obj = self.expr(n.value, st)
        key = f"{obj.ty.name}.{n.attr}"
        if key in self.attr_handlers:
            return self.attr_handlers[key](self, obj, st)
        if isinstance(obj.ty, OptTy) and isinstance(obj.ty.inner, RecTy):
            self.check(st, z3.Not(self.pre.opt_is_none(obj.ty, obj.t)), "AttributeError", f"{ast.unparse(n.value)} is None")
            obj = V(self.pre.opt_val(obj.ty, obj.t), obj.ty.inner)
        if isinstance(obj.ty, RecTy):
            pc = self.contracts.get(f"{obj.ty.name}.{n.attr}")
            if pc is not None and pc.is_property and n.attr not in obj.ty.fields:
                if pc.name not in self.func_sigs:
                    raise ContractError(f"{pc.name}: no signature bound (property missing in source?)")
                _, rty = self.func_sigs[pc.name]
                pname = self.func_sigs[pc.name][0][0][0]
                return self.apply_contract(pc, {pname: obj}, rty, st, n)
            return self.read_field(st, obj, n.attr)
        if isinstance(obj.ty, StructTy) and n.attr in obj.ty.fields:
            return V(self.pre.struct_get(obj.ty, obj.t, n.attr), obj.ty.fields[n.attr])
        raise Unsupported(f"attribute .{n.attr} on {obj.ty}", n)

    def e_BoolOp(self, n: ast.BoolOp, st: State) -> V:
        # short-circuit: later operands are evaluated under the earlier ones
        vals: list[Any] = []
        is_and = isinstance(n.op, ast.And)
        saved_pc = list(st.pc)
        first_ty: Optional[V] = None
        for i, sub in enumerate(n.values):
            v = self.expr(sub, st)
            if first_ty is None:
                first_ty = v
            b = self.truthy(v)
            vals.append((v, b))
            st.pc.append(b if is_and else z3.Not(b))
        st.pc[:] = saved_pc
        if all(v.ty == BOOL for v, _ in vals):
            bs = [b for _, b in vals]
            return V(z3.And(*bs) if is_and else z3.Or(*bs), BOOL)
        # value-returning form: `a or b`
        res = vals[-1][0]
        for v, b in reversed(vals[:-1]):
            v2, res2 = self.unify(v, res)
            res = V(z3.If(b, res2.t, v2.t) if is_and else z3.If(b, v2.t, res2.t), v2.ty)
        return res

    def e_UnaryOp(self, n: ast.UnaryOp, st: State) -> V:
        v = self.expr(n.operand, st)
        if isinstance(n.op, ast.Not):
            return V(z3.Not(self.truthy(v)), BOOL)
        if isinstance(n.op, ast.USub):
            return V(-v.t, v.ty)
        raise Unsupported("unary op", n)

    def e_IfExp(self, n: ast.IfExp, st: State) -> V:
        c = self.truthy(self.expr(n.test, st))
        saved = list(st.pc)
        st.pc.append(c)
        a = self.expr(n.body, st)
        st.pc[:] = saved + [z3.Not(c)]
        b = self.expr(n.orelse, st)
        st.pc[:] = saved
        a, b = self.unify(a, b)
        return V(z3.If(c, a.t, b.t), a.ty)

    def e_BinOp(self, n: ast.BinOp, st: State) -> V:
        a, b = self.expr(n.left, st), self.expr(n.right, st)
        op = n.op
        if hasattr(self, "dt_binop"):
            r = self.dt_binop(self, op, a, b, st)
            if r is not None:
                return r
        if isinstance(a.ty, SeqTy) and isinstance(b.ty, SeqTy) and isinstance(op, ast.Add):
            return self.seq_app(a, b)
        if isinstance(a.ty, SetTy) and isinstance(op, (ast.BitOr, ast.BitAnd, ast.Sub)):
            if isinstance(b.ty, SeqTy) and b.ty.elem == a.ty.elem:   # set - dict.keys() etc.
                b = self.seq_to_set(self, b)
            a, b = self.unify(a, b)
            f = {ast.BitOr: "union", ast.BitAnd: "inter", ast.Sub: "diff"}[type(op)]
            return V(self.pre.setf(a.ty, f)(a.t, b.t), a.ty)  # type: ignore[arg-type]
        if a.ty == STR and b.ty == STR and isinstance(op, ast.Add):
            cat = self.pre.func("str_concat", self.pre.Str, self.pre.Str, self.pre.Str)
            self.str_axioms()
            return V(cat(a.t, b.t), STR)
        if a.ty in (INT, BOOL) and b.ty in (INT, BOOL):
            a, b = self.coerce(a, INT), self.coerce(b, INT)
            if isinstance(op, ast.Add):
                return V(a.t + b.t, INT)
            if isinstance(op, ast.Sub):
                return V(a.t - b.t, INT)
            if isinstance(op, ast.Mult):
                return V(a.t * b.t, INT)
            if isinstance(op, ast.FloorDiv):
                self.check(st, b.t != 0, "ZeroDivisionError", "floor division by zero")
                return V(self.floordiv(a.t, b.t), INT)
            if isinstance(op, ast.Mod):
                self.check(st, b.t != 0, "ZeroDivisionError", "modulo by zero")
                return V(self.pymod(a.t, b.t), INT)
            if isinstance(op, ast.Pow):
                bb = z3.simplify(b.t)
                aa = z3.simplify(a.t)
                if z3.is_int_value(bb) and z3.is_int_value(aa) and bb.as_long() >= 0:
                    return V(z3.IntVal(aa.as_long() ** bb.as_long()), INT)
                if z3.is_int_value(bb) and bb.as_long() == 2:
                    return V(a.t * a.t, INT)
                raise Unsupported("general power", n)
            if isinstance(op, ast.Div):
                from . import floats
                return floats.div(self, st, self.coerce(a, FLOAT), self.coerce(b, FLOAT), a_int=a, b_int=b)
        if FLOAT in (a.ty, b.ty):
            from . import floats
            return floats.binop(self, st, op, a, b)
        raise Unsupported(f"binop {type(op).__name__} on {a.ty},{b.ty}", n)

    def floordiv(self, a: Any, b: Any) -> Any:
        # Python floor division; z3 `div` is Euclidean: equal for b > 0
        bb = z3.simplify(b)
        if z3.is_int_value(bb) and bb.as_long() > 0:
            return a / b
        return z3.If(b > 0, a / b, z3.If(a % b == 0, a / b, a / b - 1) if False else -((-a) / b) if False else z3.If(b > 0, a / b, (-a) / (-b)))

    def pymod(self, a: Any, b: Any) -> Any:
        bb = z3.simplify(b)
        if z3.is_int_value(bb) and bb.as_long() > 0:
            return a % b
        return a - b * self.floordiv(a, b)

    def str_axioms(self) -> None:
        if "str" in self.pre._done:
            return
        self.pre._done.add("str")
        S = self.pre.Str
        cat = self.pre.func("str_concat", S, S, S)
        slen = self.pre.func("str_len", S, T.I)
        a, b, c = z3.Consts("a b c", S)
        self.pre.ax("str.len_nonneg", z3.ForAll([a], slen(a) >= 0, patterns=[slen(a)]))
        self.pre.ax("str.len_cat", z3.ForAll([a, b], slen(cat(a, b)) == slen(a) + slen(b), patterns=[cat(a, b)]))
        self.pre.ax("str.cat_assoc", z3.ForAll([a, b, c], cat(cat(a, b), c) == cat(a, cat(b, c)), patterns=[cat(cat(a, b), c)]))

    def e_Compare(self, n: ast.Compare, st: State) -> V:
        left = self.expr(n.left, st)
        parts = []
        for op, rn in zip(n.ops, n.comparators):
            right = self.expr(rn, st)
            parts.append(self.compare(op, left, right, st, n))
            left = right
        return V(z3.And(*parts) if len(parts) > 1 else parts[0], BOOL)

    def compare(self, op: ast.cmpop, a: V, b: V, st: State, n: ast.AST) -> Any:
        if isinstance(op, (ast.Is, ast.IsNot)):
            if b.ty == NONE:
                if isinstance(a.ty, OptTy):
                    r = self.pre.opt_is_none(a.ty, a.t)
                elif a.ty == NONE:
                    r = z3.BoolVal(True)
                else:
                    r = z3.BoolVal(False)
                return r if isinstance(op, ast.Is) else z3.Not(r)
            if isinstance(a.ty, RecTy) and a.ty == b.ty:
                return a.t == b.t if isinstance(op, ast.Is) else a.t != b.t
            # an Optional[record] against a record (or another Optional of it): identical when present and the same object
            for (x, y) in ((a, b), (b, a)):
                if isinstance(x.ty, OptTy) and isinstance(x.ty.inner, RecTy) and y.ty == x.ty.inner:
                    r = z3.And(z3.Not(self.pre.opt_is_none(x.ty, x.t)), self.pre.opt_val(x.ty, x.t) == y.t)
                    return r if isinstance(op, ast.Is) else z3.Not(r)
            if isinstance(a.ty, OptTy) and isinstance(a.ty.inner, RecTy) and a.ty == b.ty:
                return a.t == b.t if isinstance(op, ast.Is) else a.t != b.t
            raise Unsupported("is-comparison", n)
        if isinstance(op, (ast.In, ast.NotIn)):
            r = self.contains(b, a, st)
            return r if isinstance(op, ast.In) else z3.Not(r)
        if isinstance(op, (ast.Eq, ast.NotEq)):
            r = self.eq(a, b)
            return r if isinstance(op, ast.Eq) else z3.Not(r)
        if a.ty == STR and b.ty == STR:
            lt = self.pre.func("str_lt", self.pre.Str, self.pre.Str, BOOL_S)
            self.str_order_axioms()
            x, y = a.t, b.t
            if isinstance(op, ast.Lt):
                return lt(x, y)
            if isinstance(op, ast.LtE):
                return z3.Or(lt(x, y), x == y)
            if isinstance(op, ast.Gt):
                return lt(y, x)
            if isinstance(op, ast.GtE):
                return z3.Or(lt(y, x), x == y)
        if isinstance(a.ty, SetTy) and isinstance(b.ty, SetTy):
            a, b = self.unify(a, b)
            sub = self.pre.setf(a.ty, "subset")
            if isinstance(op, ast.LtE):
                return sub(a.t, b.t)
            if isinstance(op, ast.GtE):
                return sub(b.t, a.t)
            if isinstance(op, ast.Lt):
                return z3.And(sub(a.t, b.t), z3.Not(self.eq(a, b)))
            if isinstance(op, ast.Gt):
                return z3.And(sub(b.t, a.t), z3.Not(self.eq(a, b)))
        a2, b2 = a, b
        if FLOAT in (a.ty, b.ty):
            a2, b2 = self.coerce(a, FLOAT), self.coerce(b, FLOAT)
        elif a.ty in (INT, BOOL) and b.ty in (INT, BOOL):
            a2, b2 = self.coerce(a, INT), self.coerce(b, INT)
        else:
            raise Unsupported(f"ordering on {a.ty},{b.ty}", n)
        x, y = a2.t, b2.t
        if isinstance(op, ast.Lt):
            return x < y
        if isinstance(op, ast.LtE):
            return x <= y
        if isinstance(op, ast.Gt):
            return x > y
        if isinstance(op, ast.GtE):
            return x >= y
        raise Unsupported("comparison", n)

    def str_order_axioms(self) -> None:
        if "strlt" in self.pre._done:
            return
        self.pre._done.add("strlt")
        S = self.pre.Str
        lt = self.pre.func("str_lt", S, S, BOOL_S)
        a, b, c = z3.Consts("a b c", S)
        self.pre.ax("str.lt_irrefl", z3.ForAll([a], z3.Not(lt(a, a)), patterns=[lt(a, a)]))
        self.pre.ax("str.lt_trans", z3.ForAll([a, b, c], z3.Implies(z3.And(lt(a, b), lt(b, c)), lt(a, c)),
                                             patterns=[z3.MultiPattern(lt(a, b), lt(b, c))]))
        self.pre.ax("str.lt_total", z3.ForAll([a, b], z3.Or(lt(a, b), a == b, lt(b, a)), patterns=[lt(a, b)]))

    def contains(self, coll: V, x: V, st: State) -> Any:
        if isinstance(coll.ty, OptTy) and isinstance(coll.ty.inner, (SeqTy, MapTy, SetTy)):
            self.check(st, z3.Not(self.pre.opt_is_none(coll.ty, coll.t)), "TypeError", "`in` on None")
            coll = V(self.pre.opt_val(coll.ty, coll.t), coll.ty.inner)
        ty = coll.ty
        if ty.name in self.contains_handlers:
            return self.contains_handlers[ty.name](self, coll, x, st)
        if isinstance(ty, MapTy):
            return self.pre.mapf(ty, "has")(coll.t, self.coerce(x, ty.key).t)
        if isinstance(ty, SetTy):
            return self.pre.setf(ty, "mem")(coll.t, self.coerce(x, ty.elem).t)
        if isinstance(ty, SeqTy):
            return self.pre.seqf(ty, "count")(coll.t, self.coerce(x, ty.elem).t) >= 1
        raise Unsupported(f"`in` on {ty}")

    def e_Subscript(self, n: ast.Subscript, st: State) -> V:
        obj = self.expr(n.value, st)
        if isinstance(obj.ty, OptTy) and isinstance(obj.ty.inner, (SeqTy, MapTy)):
            self.check(st, z3.Not(self.pre.opt_is_none(obj.ty, obj.t)), "TypeError", "subscript of None")
            obj = V(self.pre.opt_val(obj.ty, obj.t), obj.ty.inner)
        if isinstance(n.slice, ast.Slice):
            if n.slice.step is not None:
                raise Unsupported("slice step", n)
            lo = self.expr(n.slice.lower, st).t if n.slice.lower else None
            hi = self.expr(n.slice.upper, st).t if n.slice.upper else None
            if not isinstance(obj.ty, SeqTy):
                raise Unsupported("slice of non-sequence", n)
            return self.seq_slice(obj, lo, hi, st)
        key = self.expr(n.slice, st)
        if isinstance(obj.ty, SeqTy):
            i = self.norm_index(obj, self.coerce(key, INT).t, st)
            self.check(st, z3.And(0 <= i, i < self.seq_len(obj)), "IndexError", f"{ast.unparse(n)}")
            return self.seq_idx(obj, i)
        if isinstance(obj.ty, MapTy):
            k = self.coerce(key, obj.ty.key)
            self.check(st, self.pre.mapf(obj.ty, "has")(obj.t, k.t), "KeyError", f"{ast.unparse(n)}")
            return V(self.pre.mapf(obj.ty, "get")(obj.t, k.t), obj.ty.val)
        if isinstance(obj.ty, TupleTy):
            kk = z3.simplify(key.t)
            if not z3.is_int_value(kk):
                raise Unsupported("symbolic tuple index", n)
            i = kk.as_long()
            return V(self.pre.tup_get(obj.ty, obj.t, i), obj.ty.elems[i])
        if isinstance(obj.ty, StructTy) and isinstance(n.slice, ast.Constant) and isinstance(n.slice.value, str):
            if n.slice.value not in obj.ty.fields:
                raise Unsupported(f"{obj.ty.name}[{n.slice.value!r}]", n)
            return V(self.pre.struct_get(obj.ty, obj.t, n.slice.value), obj.ty.fields[n.slice.value])
        if isinstance(obj.ty, RecTy) and isinstance(n.slice, ast.Constant) and isinstance(n.slice.value, str):
            # TypedDict-style record access  p["eventId"]
            return self.read_field(st, obj, n.slice.value)
        raise Unsupported(f"subscript on {obj.ty}", n)

    def e_List(self, n: ast.List, st: State) -> V:
        if any(isinstance(e, ast.Starred) for e in n.elts):
            # [*xs, y, *zs]: the concatenation of the unpacked sequences and the single elements, in order
            parts: list[V] = []
            for e in n.elts:
                if isinstance(e, ast.Starred):
                    parts.append(self.as_seq(self.expr(e.value, st), st))
                else:
                    v1 = self.expr(e, st)
                    parts.append(self.seq_lit(SeqTy(v1.ty), [v1]))
            ty0 = next((p.ty for p in parts if not getattr(p, "empty_lit", False)), None)
            if ty0 is None:
                raise Unsupported("list display of empty literals only", n)
            acc = self.coerce(parts[0], ty0)
            for p in parts[1:]:
                acc = self.seq_app(acc, self.coerce(p, ty0))
            return acc
        items = [self.expr(e, st) for e in n.elts]
        if not items:
            v = V(None, SeqTy(ANY))
            v.empty_lit = True  # type: ignore[attr-defined]
            return v
        ty = SeqTy(items[0].ty)
        return self.seq_lit(ty, items)

    def e_Tuple(self, n: ast.Tuple, st: State) -> V:
        items = [self.expr(e, st) for e in n.elts]
        ty = TupleTy([i.ty for i in items])
        return V(self.pre.tup_mk(ty, [i.t for i in items]), ty)

    def e_Dict(self, n: ast.Dict, st: State) -> V:
        if not n.keys:
            v = V(None, MapTy(ANY, ANY))
            v.empty_lit = True  # type: ignore[attr-defined]
            return v
        if all(isinstance(k, ast.Constant) and isinstance(k.value, str) for k in n.keys):
            # a dict display whose constant keys are exactly the fields of a declared value struct (a TypedDict / row shape the sidecar
            # names) is that struct: {"case_id": c, "activity": a, ...}
            keyset = {k.value for k in n.keys}  # type: ignore[union-attr]
            cands = [t for t in self.tenv.aliases.values() if isinstance(t, StructTy) and set(t.fields) == keyset and getattr(t, "dict_display", False)]
            if len(cands) == 1 and len(keyset) == len(n.keys):
                sty = cands[0]
                kws = {k.value: self.coerce(self.expr(v, st), sty.fields[k.value]) for k, v in zip(n.keys, n.values)}  # type: ignore[union-attr]
                return V(self.pre.struct_mk(sty, [kws[f].t for f in sty.fields]), sty)
        ks = [self.expr(k, st) for k in n.keys]  # type: ignore[arg-type]
        vs = [self.expr(v, st) for v in n.values]
        # flow-sensitive narrowing: an Optional value that the path condition shows to be present is stored as the plain value
        for i, v in enumerate(vs):
            if isinstance(v.ty, OptTy) and any(o.ty == v.ty.inner for o in vs) and self.entails_qf(st, z3.Not(self.pre.opt_is_none(v.ty, v.t))):
                vs[i] = V(self.pre.opt_val(v.ty, v.t), v.ty.inner)
        vty = vs[0].ty
        for v in vs[1:]:
            if v.ty != vty:
                vty = OptTy(vty) if isinstance(v.ty, OptTy) and v.ty.inner == vty else (v.ty if isinstance(vty, OptTy) and False else vty)
        ty = MapTy(ks[0].ty, vty)
        self.sort(ty)
        m = self.pre.fn[f"empty_{ty.name}"]
        for k, v in zip(ks, vs):
            m = self.pre.mapf(ty, "store")(m, self.coerce(k, ty.key).t, self.coerce(v, ty.val).t)
        return V(m, ty)

    def closed_dictcomp(self, n: ast.DictComp, gen: ast.comprehension, xs: V, st: State) -> Any:
        """{k(x): v(x) for x in xs if p(x)} with closed key / value / filter expressions denotes a *function* of the iterated
        sequence (and of the free variables): one global symbol D per alpha-normalised text with the axioms
            produced:  0 <= i < len(q) and p(q[i])              ==>  k(q[i]) in D(q)  and  i <= last(q, k(q[i]))
            witness:   x in D(q)  ==>  l = last(q, x) is in range, p(q[l]), k(q[l]) == x, D(q)[x] == v(q[l])
        (the last producer of a key wins; the insertion order of the keys is left unspecified)."""
        import hashlib as _h
        tnames = [x.id for x in ast.walk(gen.target) if isinstance(x, ast.Name)]
        ren = {nm: f"_v{i}" for i, nm in enumerate(tnames)}
        free: list[str] = []
        for part in [n.key, n.value] + list(gen.ifs):
            for x in ast.walk(part):
                if isinstance(x, ast.Name) and x.id not in ren and x.id not in free:
                    known = (x.id in self.specs or x.id in self.builtins or x.id in self.contracts or x.id in self.consts
                             or x.id in self.tenv.records or x.id in self.tenv.aliases or x.id in ("True", "False", "None"))
                    if not known:
                        free.append(x.id)
        if any(nm not in st.env for nm in free):
            return None
        pvals = [st.env[nm] for nm in free]
        for i, nm in enumerate(free):
            ren[nm] = f"_p{i}"

        class _R(ast.NodeTransformer):
            def visit_Name(s_, node: ast.Name) -> Any:  # noqa: N805
                return ast.copy_location(ast.Name(id=ren.get(node.id, node.id), ctx=node.ctx), node)

        def norm(e: ast.AST) -> str:
            return ast.unparse(_R().visit(copy.deepcopy(e)))
        text = f"dict|{xs.ty.name}|{[p.ty.name for p in pvals]}|{norm(gen.target)}|{norm(n.key)}|{norm(n.value)}|{[norm(c) for c in gen.ifs]}"
        tag = _h.sha1(text.encode()).hexdigest()[:8]
        cache = self.__dict__.setdefault("_closed_dcomp", {})
        if tag in cache:
            ent = cache[tag]
            return None if ent is None else (lambda xt, _f=ent[0], _p=pvals: _f(xt, *[p.t for p in _p]), ent[1])
        cache[tag] = None
        S = self.sort(xs.ty)
        q = V(z3.Const(f"dq_{tag}", S), xs.ty)
        pcs = [V(z3.Const(f"dp{i}_{tag}", self.sort(p.ty)), p.ty) for i, p in enumerate(pvals)]
        bv = z3.Int(f"dqi_{tag}")
        gst = State()
        for nm, pc in zip(free, pcs):
            gst.env[nm] = pc
        saved_mode, saved_pr, saved_fr = self.mode_spec, self.pending_raises, getattr(self, "fields_read", None)
        self.mode_spec, self.pending_raises, self.fields_read = True, [], set()
        try:
            gst.env.update(self.bind_target(gen.target, self.seq_idx(q, bv)))
            serial0 = self.fresh_serial
            conds = [self.truthy(self.expr(c, gst)) for c in gen.ifs]
            gst.pc += conds
            kv = self.expr(n.key, gst)
            vv = self.expr(n.value, gst)
            reads = set(self.fields_read)
            if self.fresh_serial != serial0:
                return None
        except (Unsupported, ContractError, KeyError):
            return None
        finally:
            self.mode_spec, self.pending_raises, self.fields_read = saved_mode, saved_pr, saved_fr
        if any(f in rec.mutable for (rec, f) in reads) or getattr(vv, "empty_lit", False):
            return None
        ty = MapTy(kv.ty, vv.ty)
        M = self.sort(ty)
        psorts = [self.sort(p.ty) for p in pvals]
        fn_raw = z3.Function(f"dcomp_{tag}", S, *psorts, M)
        last_raw = z3.Function(f"dlast_{tag}", S, self.sort(ty.key), *psorts, T.I)
        pts = [pc.t for pc in pcs]
        D = fn_raw(q.t, *pts)
        has, get = self.pre.mapf(ty, "has"), self.pre.mapf(ty, "get")
        ln_x, idx_x = self.pre.seqf(xs.ty, "len"), self.pre.seqf(xs.ty, "idx")
        i = z3.Int(f"dgi_{tag}")
        x = z3.Const(f"dgx_{tag}", self.sort(ty.key))
        cond_at = lambda j: z3.substitute(z3.And(*conds), (bv, j)) if conds else z3.BoolVal(True)  # noqa: E731
        key_at = lambda j: z3.substitute(kv.t, (bv, j))  # noqa: E731
        val_at = lambda j: z3.substitute(vv.t, (bv, j))  # noqa: E731
        last = lambda k_: last_raw(q.t, k_, *pts)  # noqa: E731
        A = self.pre.ax
        inb = z3.And(0 <= i, i < ln_x(q.t))
        A(f"dcomp.{tag}.produced", z3.ForAll([q.t, i] + pts, z3.Implies(z3.And(inb, cond_at(i)), z3.And(has(D, key_at(i)), i <= last(key_at(i)))),
                                             patterns=[z3.MultiPattern(D, idx_x(q.t, i))]))
        A(f"dcomp.{tag}.witness", z3.ForAll([q.t, x] + pts, z3.Implies(has(D, x), z3.And(
            0 <= last(x), last(x) < ln_x(q.t), cond_at(last(x)), key_at(last(x)) == x, get(D, x) == val_at(last(x)))),
            patterns=[has(D, x), get(D, x)]))
        self.trusted_used.add("dict comprehensions over closed key/value/filter expressions denote functions of the iterated sequence "
                              "(keys are exactly the produced keys, the last producer wins; key order unspecified)")
        cache[tag] = (fn_raw, ty)
        return (lambda xt, _f=fn_raw, _p=pvals: _f(xt, *[p.t for p in _p])), ty

    def e_DictComp(self, n: ast.DictComp, st: State) -> V:
        """{k(x): v(x) for x in xs}: a fresh map d with
             forall p in range(len(xs)): k(xs[p]) in d                (and d[k] is v of the *last* such p)
             forall key in d: some position p produced it             (witness function)
        Supported when the generator has one clause and no filter."""
        if len(n.generators) != 1:
            raise Unsupported("dict comprehension with several generators", n)
        gen = n.generators[0]
        k = self.site()
        xs = self.as_seq(self.expr(gen.iter, st), st)
        closed = self.closed_dictcomp(n, gen, xs, st)
        if closed is not None:
            gfn, gty = closed
            # exceptions of the key / value expressions on some element, lifted over the index
            bv = z3.Int(f"di${k}")
            st2 = st.fork()
            st2.old = st.old
            st2.env.update(self.bind_target(gen.target, self.seq_idx(xs, bv)))
            st2.pc.append(z3.And(0 <= bv, bv < self.seq_len(xs)))
            saved = self.pending_raises
            self.pending_raises = []
            for c in gen.ifs:
                st2.pc.append(self.truthy(self.expr(c, st2)))
            self.expr(n.key, st2)
            self.expr(n.value, st2)
            inner = self.pending_raises
            self.pending_raises = saved
            base = len(st.pc)
            for (pc_at, neg, exc, what) in inner:
                local = pc_at[base:]
                raise_cond = z3.Exists([bv], z3.And(*local, neg))
                self.pending_raises.append((list(st.pc), raise_cond, exc, f"{what} (in dict comprehension)"))
                st.pc.append(z3.Not(raise_cond))
                st.pc.append(z3.ForAll([bv], z3.Implies(z3.And(*local), z3.Not(neg))))
            return V(gfn(xs.t), gty)
        named = self.fresh(f"dsrc{k}", xs.ty)
        self.assume(st, named.t == xs.t)
        self.assume(st, self.seq_len(xs) >= 0)  # keeps the source term in the e-graph as a ground term
        xs = named
        bv = z3.Int(f"di${k}")
        st2 = st.fork()
        st2.old = st.old
        st2.env.update(self.bind_target(gen.target, self.seq_idx(xs, bv)))
        inb = z3.And(0 <= bv, bv < self.seq_len(xs))
        st2.pc.append(inb)
        saved = self.pending_raises
        self.pending_raises = []
        dconds = [self.truthy(self.expr(c, st2)) for c in gen.ifs]
        st2.pc += dconds
        dcond = z3.And(*dconds) if dconds else z3.BoolVal(True)
        kv = self.expr(n.key, st2)
        vv = self.expr(n.value, st2)
        inner = self.pending_raises
        self.pending_raises = saved
        if inner and not self.mode_spec:
            raise Unsupported("possibly-raising expression inside a dict comprehension", n)
        declared = getattr(self, "expected_type", None)
        if getattr(vv, "empty_lit", False):
            if not isinstance(declared, MapTy):
                raise Unsupported("dict comprehension with an empty-literal value needs a declared type", n)
            vv = self.coerce(vv, declared.val)
        ty = declared if isinstance(declared, MapTy) else MapTy(kv.ty, vv.ty)
        kv, vv = self.coerce(kv, ty.key), self.coerce(vv, ty.val)
        d = self.fresh(f"dcomp{k}", ty)
        has, get = self.pre.mapf(ty, "has"), self.pre.mapf(ty, "get")
        last = z3.Function(f"dlast{k}", self.sort(ty.key), T.I)
        key_at = lambda i: z3.substitute(kv.t, (bv, i))  # noqa: E731
        val_at = lambda i: z3.substitute(vv.t, (bv, i))  # noqa: E731
        x = z3.Const(f"dk${k}", self.sort(ty.key))
        cond_at = lambda i: z3.substitute(dcond, (bv, i))  # noqa: E731
        self.assume(st, z3.ForAll([bv], z3.Implies(z3.And(inb, dcond), has(d.t, kv.t)), patterns=[self.seq_idx(xs, bv).t]))
        self.assume(st, z3.ForAll([x], z3.Implies(has(d.t, x), z3.And(0 <= last(x), last(x) < self.seq_len(xs), cond_at(last(x)), key_at(last(x)) == x,
                                                                    get(d.t, x) == val_at(last(x)))), patterns=[has(d.t, x)]))
        self.assume(st, z3.ForAll([bv], z3.Implies(z3.And(inb, dcond), bv <= last(kv.t)), patterns=[self.seq_idx(xs, bv).t]))
        self.trusted_used.add("dict comprehension: keys are exactly the produced keys, the last producer wins; insertion order of keys is left unspecified")
        return d

    def e_SetComp(self, n: ast.SetComp, st: State) -> V:
        """{f(x) for x in S if p(x)}: a fresh set R with  y in R  <=>  exists x in S. p(x) and f(x) == y
        (witness function for the => direction)."""
        if len(n.generators) != 1:
            raise Unsupported("set comprehension with several generators", n)
        gen = n.generators[0]
        k = self.site()
        coll = self.expr(gen.iter, st)
        if getattr(coll, "lit_elems", None) is not None:
            # finitely many known elements: y in R  <=>  OR_k (filter_k and elt_k == y)
            cases = []
            ety2 = None
            for ev in coll.lit_elems:
                st2 = st.fork()
                st2.old = st.old
                st2.env.update(self.bind_target(gen.target, ev))
                saved = self.pending_raises
                self.pending_raises = []
                conds = [self.truthy(self.expr(c, st2)) for c in gen.ifs]
                st2.pc += conds
                elt = self.expr(n.elt, st2)
                if self.pending_raises and not self.mode_spec:
                    self.pending_raises = saved
                    raise Unsupported("possibly-raising expression inside a set comprehension", n)
                self.pending_raises = saved
                ety2 = elt.ty
                cases.append((z3.And(*conds) if conds else z3.BoolVal(True), elt))
            if ety2 is None:
                raise Unsupported("set comprehension over an empty literal", n)
            rty = SetTy(ety2)
            R = self.fresh(f"scomp{k}", rty)
            y = z3.Const(f"sy${k}", self.sort(ety2))
            mem = self.pre.setf(rty, "mem")
            self.assume(st, z3.ForAll([y], mem(R.t, y) == z3.Or(*[z3.And(c, e.t == y) for c, e in cases]), patterns=[mem(R.t, y)]))
            for c, e in cases:
                self.assume(st, z3.Implies(c, mem(R.t, e.t)))
            return R
        if isinstance(coll.ty, SetTy):
            ety = coll.ty.elem
            x = z3.Const(f"sc${k}", self.sort(ety))
            dom = self.pre.setf(coll.ty, "mem")(coll.t, x)
            elemv = V(x, ety)
        else:
            xs = self.as_seq(coll, st)
            ety = xs.ty.elem
            x = z3.Const(f"sc${k}", self.sort(ety))
            dom = self.pre.seqf(xs.ty, "count")(xs.t, x) >= 1
            elemv = V(x, ety)
        st2 = st.fork()
        st2.old = st.old
        st2.env.update(self.bind_target(gen.target, elemv))
        st2.pc.append(dom)
        saved = self.pending_raises
        self.pending_raises = []
        conds = [self.truthy(self.expr(c, st2)) for c in gen.ifs]
        for c in conds:
            st2.pc.append(c)
        elt = self.expr(n.elt, st2)
        inner = self.pending_raises
        self.pending_raises = saved
        if inner and not self.mode_spec:
            raise Unsupported("possibly-raising expression inside a set comprehension", n)
        rty = SetTy(elt.ty)
        R = self.fresh(f"scomp{k}", rty)
        mem = self.pre.setf(rty, "mem")
        cond = z3.And(dom, *conds)
        self.assume(st, z3.ForAll([x], z3.Implies(cond, mem(R.t, elt.t)), patterns=[dom] if not z3.is_and(dom) else []))
        y = z3.Const(f"sy${k}", self.sort(elt.ty))
        wit = z3.Function(f"scwit{k}", self.sort(elt.ty), self.sort(ety))
        self.assume(st, z3.ForAll([y], z3.Implies(mem(R.t, y), z3.And(z3.substitute(cond, (x, wit(y))), z3.substitute(elt.t, (x, wit(y))) == y)),
                                  patterns=[mem(R.t, y)]))
        return R

    def e_Set(self, n: ast.Set, st: State) -> V:
        items = [self.expr(e, st) for e in n.elts]
        ty = SetTy(items[0].ty)
        self.sort(ty)
        s = self.pre.fn[f"empty_{ty.name}"]
        for it in items:
            s = self.pre.setf(ty, "add")(s, self.coerce(it, ty.elem).t)
        return V(s, ty)

    def e_Lambda(self, n: ast.Lambda, st: State) -> V:
        raise Unsupported("lambda outside a supported call position", n)

    # ---------------------------------------------------------------- quantifiers / comprehensions
    def bind_iter(self, gen: ast.comprehension, st: State) -> tuple[list[Any], Any, dict[str, V]]:
        """Bind the target of `for target in iter` to a bound variable.
        Returns (bound vars, range guard, env additions)."""
        it = gen.iter
        k = self.site()
        # range(a, b)
        if isinstance(it, ast.Call) and isinstance(it.func, ast.Name) and it.func.id == "range":
            args = [self.coerce(self.expr(a, st), INT).t for a in it.args]
            lo, hi = (z3.IntVal(0), args[0]) if len(args) == 1 else (args[0], args[1])
            if not isinstance(gen.target, ast.Name):
                raise Unsupported("range target", gen.target)
            bv = z3.Int(f"{gen.target.id}${k}")
            return [bv], z3.And(lo <= bv, bv < hi), {gen.target.id: V(bv, INT)}
        # enumerate(xs)
        if isinstance(it, ast.Call) and isinstance(it.func, ast.Name) and it.func.id == "enumerate":
            xs = self.as_seq(self.expr(it.args[0], st), st)
            if len(it.args) > 1 or it.keywords:
                raise Unsupported("enumerate(..., start) in a comprehension / quantifier", it)
            assert isinstance(gen.target, ast.Tuple)
            iname, xname = gen.target.elts[0].id, gen.target.elts[1].id  # type: ignore[attr-defined]
            bv = z3.Int(f"{iname}${k}")
            return [bv], z3.And(0 <= bv, bv < self.seq_len(xs)), {iname: V(bv, INT), xname: self.seq_idx(xs, bv)}
        # zip(a, b)
        if isinstance(it, ast.Call) and isinstance(it.func, ast.Name) and it.func.id == "zip":
            seqs = [self.as_seq(self.expr(a, st), st) for a in it.args]
            bv = z3.Int(f"zi${k}")
            guard = z3.And(0 <= bv, *[bv < self.seq_len(s) for s in seqs])
            assert isinstance(gen.target, ast.Tuple)
            env = {t.id: self.seq_idx(s, bv) for t, s in zip(gen.target.elts, seqs)}  # type: ignore[attr-defined]
            return [bv], guard, env
        coll = self.expr(it, st)
        if isinstance(coll.ty, SetTy):
            if not isinstance(gen.target, ast.Name):
                raise Unsupported("set iteration target", gen.target)
            bv = z3.Const(f"{gen.target.id}${k}", self.sort(coll.ty.elem))
            return [bv], self.pre.setf(coll.ty, "mem")(coll.t, bv), {gen.target.id: V(bv, coll.ty.elem)}
        xs = self.as_seq(coll, st)
        bv = z3.Int(f"qi${k}")
        guard = z3.And(0 <= bv, bv < self.seq_len(xs))
        elem = self.seq_idx(xs, bv)
        return [bv], guard, self.bind_target(gen.target, elem)

    def bind_target(self, target: ast.expr, val: V) -> dict[str, V]:
        if isinstance(target, ast.Name):
            return {target.id: val}
        if isinstance(target, ast.Tuple) and isinstance(val.ty, TupleTy):
            out: dict[str, V] = {}
            for i, t in enumerate(target.elts):
                out.update(self.bind_target(t, V(self.pre.tup_get(val.ty, val.t, i), val.ty.elems[i])))
            return out
        raise Unsupported("binding target", target)

    def as_seq(self, v: V, st: State) -> V:
        """Iteration view of a value: a sequence."""
        if isinstance(v.ty, SeqTy):
            return v
        if isinstance(v.ty, MapTy):  # iterating a dict = its keys in insertion order
            return V(self.pre.mapf(v.ty, "keys")(v.t), SeqTy(v.ty.key))
        if isinstance(v.ty, OptTy) and isinstance(v.ty.inner, SeqTy):
            self.check(st, z3.Not(self.pre.opt_is_none(v.ty, v.t)), "TypeError", "iteration over None")
            return V(self.pre.opt_val(v.ty, v.t), v.ty.inner)
        if isinstance(v.ty, OptTy) and isinstance(v.ty.inner, MapTy):
            self.check(st, z3.Not(self.pre.opt_is_none(v.ty, v.t)), "TypeError", "iteration over None")
            return self.as_seq(V(self.pre.opt_val(v.ty, v.t), v.ty.inner), st)
        raise Unsupported(f"iteration over {v.ty}")

    def enumerate_set(self, v: V, st: State) -> V:
        """an arbitrary duplicate-free enumeration of a set value (fresh per evaluation: Python's iteration order is not a
        function of the set's value)"""
        assert isinstance(v.ty, SetTy)
        k = self.site()
        sq = self.fresh(f"enum{k}", SeqTy(v.ty.elem))
        j, j2 = z3.Ints(f"j{k} jj{k}")
        mem = self.pre.setf(v.ty, "mem")
        self.assume(st, z3.ForAll([j], z3.Implies(z3.And(0 <= j, j < self.seq_len(sq)), mem(v.t, self.seq_idx(sq, j).t)),
                                  patterns=[self.seq_idx(sq, j).t]))
        self.assume(st, z3.ForAll([j, j2], z3.Implies(z3.And(0 <= j, j < j2, j2 < self.seq_len(sq)),
                                                      self.seq_idx(sq, j).t != self.seq_idx(sq, j2).t),
                                  patterns=[z3.MultiPattern(self.seq_idx(sq, j).t, self.seq_idx(sq, j2).t)]))
        x = z3.Const(f"x{k}", self.sort(v.ty.elem))
        pos = z3.Function(f"enumpos{k}", self.sort(v.ty.elem), z3.IntSort())
        self.assume(st, z3.ForAll([x], z3.Implies(mem(v.t, x), z3.And(self.pre.seqf(sq.ty, "count")(sq.t, x) >= 1, 0 <= pos(x), pos(x) < self.seq_len(sq),
                                                                       self.seq_idx(sq, pos(x)).t == x)), patterns=[mem(v.t, x)]))
        return sq

    def quant(self, n: ast.GeneratorExp | ast.ListComp, st: State, universal: bool) -> Any:
        bvs: list[Any] = []
        guards: list[Any] = []
        st2 = st.fork()
        st2.old = st.old
        for gen in n.generators:
            b, g, env = self.bind_iter(gen, st2)
            bvs += b
            guards.append(g)
            st2.pc.append(g)
            st2.env.update(env)
            for cond in gen.ifs:
                c = self.truthy(self.expr(cond, st2))
                guards.append(c)
                st2.pc.append(c)
        saved = self.pending_raises
        self.pending_raises = []
        body = self.truthy(self.expr(n.elt, st2))
        inner_raises = self.pending_raises
        self.pending_raises = saved
        if inner_raises and not self.mode_spec:
            raise Unsupported("possibly-raising expression inside all()/any()", n)
        g = z3.And(*guards) if guards else z3.BoolVal(True)
        pats = [p for p in self.index_patterns(bvs, [g, body]) if not self.contains_ite(p)]
        # terms that occur only under a nested quantifier would not reach the e-graph once the bound
        # variable is skolemised / instantiated: name them at this level through a predicate that is
        # axiomatically true (`touch`), which leaves the meaning unchanged
        for c in self.last_cands:
            g = z3.And(g, self.touch(c))
        try:
            if universal:
                return z3.ForAll(bvs, z3.Implies(g, body), patterns=pats) if pats else z3.ForAll(bvs, z3.Implies(g, body))
            return z3.Exists(bvs, z3.And(g, body), patterns=pats) if pats else z3.Exists(bvs, z3.And(g, body))
        except z3.Z3Exception:   # a candidate trigger is not admissible (e.g. it contains an ite): let the solver choose
            return z3.ForAll(bvs, z3.Implies(g, body)) if universal else z3.Exists(bvs, z3.And(g, body))

    def index_patterns(self, bvs: list[Any], fs: list[Any]) -> list[Any]:
        """Explicit triggers for `all(... for i in range(n))`-style quantifiers: the
        element terms xs[i] (and map lookups m[k]) indexed by exactly the bound
        variable.  One alternative per candidate for a single variable; for several
        variables one multi-pattern.  Empty -> the solver infers."""
        cands: dict[int, list[Any]] = {i: [] for i in range(len(bvs))}
        seen: set[int] = set()

        nested_only: list[Any] = []
        self.last_cands = nested_only

        def walk(e: Any, under: bool = False) -> None:
            if e.get_id() in seen and not under:
                return
            seen.add(e.get_id())
            if z3.is_quantifier(e):
                walk(e.body(), True)
                return
            if under:
                # only collect terms for `touch`; they cannot serve as patterns of the outer quantifier unless also outside
                if z3.is_app(e) and e.num_args() >= 2 and e.decl().name().startswith("idx_"):
                    last = e.arg(e.num_args() - 1)
                    if any(last.eq(bv) for bv in bvs) and not self.has_var(e) and not any(e.eq(c) for c in nested_only):
                        nested_only.append(e)
                for c in e.children():
                    walk(c, True)
                return
            if z3.is_app(e) and e.num_args() >= 2:
                nm = e.decl().name()
                last = e.arg(e.num_args() - 1)
                if nm.startswith(("idx_", "has_Map", "get_Map", "mem_Set")):
                    for i, bv in enumerate(bvs):
                        if last.eq(bv) and not any(self.mentions_any(e.arg(j), bvs) for j in range(e.num_args() - 1)):
                            if not any(e.eq(c) for c in cands[i]):
                                cands[i].append(e)
            for c in e.children():
                walk(c)
        for f in fs:
            walk(f)
        outside = [c for v in cands.values() for c in v]
        nested_only[:] = [c for c in nested_only if not any(c.eq(o) for o in outside)]
        for i, bv in enumerate(bvs):
            if not cands[i]:
                cands[i] = [c for c in nested_only if c.arg(c.num_args() - 1).eq(bv)]
        if any(not v for v in cands.values()):
            return []
        if len(bvs) == 1:
            return cands[0][:3]
        return [z3.MultiPattern(*[cands[i][0] for i in range(len(bvs))])]

    def has_var(self, t: Any) -> bool:
        seen = set()
        stack = [t]
        while stack:
            e = stack.pop()
            if e.get_id() in seen:
                continue
            seen.add(e.get_id())
            if z3.is_var(e):
                return True
            stack.extend(e.children())
        return False

    def touch(self, t: Any) -> Any:
        srt = t.sort()
        nm = f"touch_{srt.name()}"
        f = self.pre.func(nm, srt, z3.BoolSort())
        if nm not in self.pre._done:
            self.pre._done.add(nm)
            x = z3.Const("x", srt)
            self.pre.ax(nm, z3.ForAll([x], f(x), patterns=[f(x)]))
        return f(t)

    def forall_pat(self, vs: list[Any], body: Any, patterns: list[Any]) -> Any:
        """ForAll with the given triggers when they are admissible (ite-free ...), else solver-inferred ones."""
        try:
            return z3.ForAll(vs, body, patterns=patterns)
        except z3.Z3Exception:
            return z3.ForAll(vs, body)

    def mentions_any(self, t: Any, cs: list[Any]) -> bool:
        return any(self.mentions(t, c) for c in cs)

    def comprehension(self, n: ast.ListComp | ast.GeneratorExp, st: State) -> V:
        self.in_comprehension += 1
        try:
            return self._comprehension(n, st)
        finally:
            self.in_comprehension -= 1

    def _comprehension(self, n: ast.ListComp | ast.GeneratorExp, st: State) -> V:
        """[f(x) for x in xs] -> fresh sequence r with len(r) == len(xs) and r[i] == f(xs[i]).
        A single generator without filter maps elementwise; a filter gives an
        opaque subsequence characterised by the filter axioms."""
        if len(n.generators) != 1:
            return self.comprehension_nested(n, st)
        gen = n.generators[0]
        k = self.site()
        coll = self.expr(gen.iter, st)
        if isinstance(coll.ty, SetTy):
            if self.mode_spec or self.in_comprehension > 1:
                raise Unsupported("list comprehension over a set in a clause / under a binder (the iteration order is not a function of the set)", n)
            coll = self.enumerate_set(coll, st)   # some duplicate-free enumeration of the set: nothing is known about its order
        xs = self.as_seq(coll, st)
        xs_orig = xs
        gfn = self.closed_comprehension(n, gen, xs, st)
        if gfn is None and not (z3.is_const(xs.t) and xs.t.decl().kind() == z3.Z3_OP_UNINTERPRETED):
            # name the source so that it can occur in (ite-free) patterns
            named = self.fresh(f"csrc{k}", xs.ty)
            self.assume(st, named.t == xs.t)
            self.assume(st, self.seq_len(xs) >= 0)  # keeps the source term in the e-graph as a ground term
            xs = named
        bv = z3.Int(f"ci${k}")
        st2 = st.fork()
        st2.old = st.old
        st2.env.update(self.bind_target(gen.target, self.seq_idx(xs, bv)))
        inb = z3.And(0 <= bv, bv < self.seq_len(xs))
        st2.pc.append(inb)
        saved = self.pending_raises
        self.pending_raises = []
        serial0 = self.fresh_serial
        conds = [self.truthy(self.expr(c, st2)) for c in gen.ifs]
        for c in conds:
            st2.pc.append(c)
        elt = self.expr(n.elt, st2)
        inner = self.pending_raises
        self.pending_raises = saved
        if self.fresh_serial != serial0 and gfn is None:
            # a constant introduced while evaluating the element does not depend on the index: `r[i] == elt` would equate all elements
            raise Unsupported("comprehension element that introduces its own defined value (nested non-closed comprehension, dict/set comprehension)", n)
        # possible exceptions of the body, lifted over the index
        base = len(st.pc)
        for (pc_at, neg, exc, what) in inner:
            local = pc_at[base:]
            raise_cond = z3.Exists([bv], z3.And(*local, neg))
            self.pending_raises.append((list(st.pc), raise_cond, exc, f"{what} (in comprehension)"))
            st.pc.append(z3.Not(raise_cond))
            # make the universally quantified safety fact available
            st.pc.append(z3.ForAll([bv], z3.Implies(z3.And(*local), z3.Not(neg))))
        rty = SeqTy(elt.ty)
        if gfn is not None:
            r = V(gfn(xs_orig.t), rty)
            self.mention(r)
            return r
        r = self.fresh(f"comp{k}", rty)
        if not conds:
            self.assume(st, self.seq_len(r) == self.seq_len(xs))
            self.assume(st, z3.ForAll([bv], z3.Implies(inb, self.seq_idx(r, bv).t == elt.t),
                                      patterns=[self.seq_idx(r, bv).t, self.seq_idx(xs, bv).t]))
            r.comp_src = (xs, bv, elt)  # type: ignore[attr-defined]
            return r
        # filtered comprehension: r = map(f, filter(p, xs)) via an order-preserving index embedding
        emb = z3.Function(f"emb{k}", T.I, T.I)
        ri = z3.Int(f"ri${k}")
        cond_at = lambda i: z3.substitute(z3.And(*conds), (bv, i))  # noqa: E731
        elt_at = lambda i: z3.substitute(elt.t, (bv, i))  # noqa: E731
        ln_r, ln_x = self.seq_len(r), self.seq_len(xs)
        rj = z3.Int(f"rj${k}")
        self.assume(st, z3.ForAll([ri], z3.Implies(z3.And(0 <= ri, ri < ln_r), z3.And(
            0 <= emb(ri), emb(ri) < ln_x, cond_at(emb(ri)), self.seq_idx(r, ri).t == elt_at(emb(ri)))),
            patterns=[self.seq_idx(r, ri).t]))
        self.assume(st, z3.ForAll([ri, rj], z3.Implies(z3.And(0 <= ri, ri < rj, rj < ln_r), emb(ri) < emb(rj)),
                                  patterns=[z3.MultiPattern(emb(ri), emb(rj))]))
        inv = z3.Function(f"embinv{k}", T.I, T.I)
        self.assume(st, z3.ForAll([bv], z3.Implies(z3.And(inb, z3.And(*conds)), z3.And(0 <= inv(bv), inv(bv) < ln_r, emb(inv(bv)) == bv)),
                                  patterns=[self.seq_idx(xs, bv).t]))
        self.assume(st, ln_r <= ln_x)
        return r

    def closed_comprehension(self, n: Any, gen: ast.comprehension, xs: V, st: Optional[State] = None) -> Any:
        """A comprehension whose element / filter expressions mention only the loop
        target, immutable fields and plain variables of the enclosing scope denotes a
        *function* of the iterated sequence and of those variables: one global symbol
        per (sorts, alpha-normalised text) with global axioms (pointwise map /
        order-preserving embedding for filters, plus the homomorphism laws
        f([]) = [], f([x]) = ..., f(a + b) = f(a) + f(b) that give lemmas an
        inductive handle).  The same text in code and in a clause is the same term."""
        import hashlib as _h
        # alpha-normalised: the names of the loop target and of the free variables do not matter
        tnames = [x.id for x in ast.walk(gen.target) if isinstance(x, ast.Name)]
        ren = {nm: f"_v{i}" for i, nm in enumerate(tnames)}
        free: list[str] = []
        bound_inside: set[str] = set()
        for part in [n.elt] + list(gen.ifs):
            for x in ast.walk(part):
                if isinstance(x, ast.comprehension):
                    bound_inside |= {y.id for y in ast.walk(x.target) if isinstance(y, ast.Name)}
                elif isinstance(x, ast.Lambda):
                    bound_inside |= {a_.arg for a_ in x.args.args}
        for part in [n.elt] + list(gen.ifs):
            for x in ast.walk(part):
                if isinstance(x, ast.Name) and x.id not in ren and x.id not in free and x.id not in bound_inside:
                    known = (x.id in self.specs or x.id in self.builtins or x.id in self.contracts or x.id in self.consts
                             or x.id in self.tenv.records or x.id in self.tenv.aliases or x.id in ("True", "False", "None"))
                    if not known:
                        free.append(x.id)
        if free and (st is None or any(nm not in st.env for nm in free)):
            return None
        pvals = [st.env[nm] for nm in free] if free else []  # type: ignore[union-attr]
        for i, nm in enumerate(free):
            ren[nm] = f"_p{i}"

        class _R(ast.NodeTransformer):
            def visit_Name(s_, node: ast.Name) -> Any:  # noqa: N805
                return ast.copy_location(ast.Name(id=ren.get(node.id, node.id), ctx=node.ctx), node)

        class _G(ast.NodeTransformer):      # a generator expression and a list comprehension denote the same list in the model
            def visit_GeneratorExp(s_, node: ast.GeneratorExp) -> Any:  # noqa: N805
                s_.generic_visit(node)
                return ast.copy_location(ast.ListComp(elt=node.elt, generators=node.generators), node)

        inner_bound: dict[str, str] = {}
        for part in [n.elt] + list(gen.ifs):      # variables bound by comprehensions / lambdas nested in the element: canonical names too
            for x in ast.walk(part):
                if isinstance(x, ast.comprehension):
                    for nm in [y.id for y in ast.walk(x.target) if isinstance(y, ast.Name)]:
                        if nm not in ren:
                            inner_bound.setdefault(nm, f"_i{len(inner_bound)}")
                elif isinstance(x, ast.Lambda):
                    for a_ in x.args.args:
                        if a_.arg not in ren:
                            inner_bound.setdefault(a_.arg, f"_i{len(inner_bound)}")

        class _I(ast.NodeTransformer):
            def visit_Name(s_, node: ast.Name) -> Any:  # noqa: N805
                return ast.copy_location(ast.Name(id=inner_bound.get(node.id, node.id), ctx=node.ctx), node)

            def visit_arg(s_, node: ast.arg) -> Any:  # noqa: N805
                return ast.copy_location(ast.arg(arg=inner_bound.get(node.arg, node.arg), annotation=None), node)

        def norm(e: ast.AST) -> str:
            return ast.unparse(_I().visit(_G().visit(_R().visit(copy.deepcopy(e)))))
        text = f"{xs.ty.name}|{[p.ty.name for p in pvals]}|{norm(gen.target)}|{norm(n.elt)}|{[norm(c) for c in gen.ifs]}"
        tag = _h.sha1(text.encode()).hexdigest()[:8]
        cache = self.__dict__.setdefault("_closed_comp", {})
        if tag in cache:
            fn0 = cache[tag]
            return None if fn0 is None else (lambda xt, _f=fn0, _p=pvals: _f(xt, *[p.t for p in _p]))
        cache[tag] = None
        S = self.sort(xs.ty)
        q = V(z3.Const(f"cq_{tag}", S), xs.ty)
        pcs = [V(z3.Const(f"cp{i}_{tag}", self.sort(p.ty)), p.ty) for i, p in enumerate(pvals)]
        bv = z3.Int(f"cqi_{tag}")
        gst = State()
        for nm, pc in zip(free, pcs):
            gst.env[nm] = pc
        saved_mode, saved_pr, saved_fr = self.mode_spec, self.pending_raises, getattr(self, "fields_read", None)
        self.mode_spec = True
        self.pending_raises = []
        self.fields_read = set()
        try:
            gst.env.update(self.bind_target(gen.target, self.seq_idx(q, bv)))
            serial0 = self.fresh_serial
            conds = [self.truthy(self.expr(c, gst)) for c in gen.ifs]
            gst.pc += conds  # the element expression is evaluated under the filter
            elt = self.expr(n.elt, gst)
            reads = set(self.fields_read)
            if self.fresh_serial != serial0:
                return None   # the element is not a pure term of the loop target (it introduced a constant of its own)
        except (Unsupported, ContractError, KeyError):
            return None
        finally:
            self.mode_spec, self.pending_raises, self.fields_read = saved_mode, saved_pr, saved_fr
        if any(f in rec.mutable for (rec, f) in reads):
            return None
        if getattr(elt, "empty_lit", False):
            return None
        rty = SeqTy(elt.ty)
        R = self.sort(rty)
        fn_raw = z3.Function(f"comp_{tag}", S, *[self.sort(p.ty) for p in pvals], R)
        pts = [pc.t for pc in pcs]
        fn = lambda xt: fn_raw(xt, *pts)  # noqa: E731  (inside the axioms the parameters are the quantified constants)
        ln_x, ln_r = self.pre.seqf(xs.ty, "len"), self.pre.seqf(rty, "len")
        idx_x, idx_r = self.pre.seqf(xs.ty, "idx"), self.pre.seqf(rty, "idx")
        cond_at = lambda i: z3.substitute(z3.And(*conds), (bv, i)) if conds else z3.BoolVal(True)  # noqa: E731
        elt_at = lambda i: z3.substitute(elt.t, (bv, i))  # noqa: E731
        A = self.pre.ax
        i, j = z3.Ints(f"cgi_{tag} cgj_{tag}")
        inb = z3.And(0 <= i, i < ln_x(q.t))
        if not conds and getattr(self, "no_global_map", False):
            return None
        if not conds:
            A(f"comp.{tag}.len", z3.ForAll([q.t] + pts, ln_r(fn(q.t)) == ln_x(q.t), patterns=[fn(q.t)]))
            A(f"comp.{tag}.idx", z3.ForAll([q.t, i] + pts, z3.Implies(inb, idx_r(fn(q.t), i) == elt_at(i)),
                                           patterns=[idx_r(fn(q.t), i), z3.MultiPattern(fn(q.t), idx_x(q.t, i))]))
        else:
            emb_raw = z3.Function(f"emb_{tag}", S, T.I, *[self.sort(p.ty) for p in pvals], T.I)
            emb = lambda s_, i_: emb_raw(s_, i_, *pts)  # noqa: E731
            inv_raw = z3.Function(f"embinv_{tag}", S, T.I, *[self.sort(p.ty) for p in pvals], T.I)
            inv = lambda s_, i_: inv_raw(s_, i_, *pts)  # noqa: E731
            A(f"comp.{tag}.emb", z3.ForAll([q.t, i] + pts, z3.Implies(z3.And(0 <= i, i < ln_r(fn(q.t))), z3.And(
                0 <= emb(q.t, i), emb(q.t, i) < ln_x(q.t), cond_at(emb(q.t, i)), idx_r(fn(q.t), i) == elt_at(emb(q.t, i)),
                inv(q.t, emb(q.t, i)) == i)), patterns=[idx_r(fn(q.t), i)]))
            A(f"comp.{tag}.mono", z3.ForAll([q.t, i, j] + pts, z3.Implies(z3.And(0 <= i, i < j, j < ln_r(fn(q.t))), emb(q.t, i) < emb(q.t, j)),
                                            patterns=[z3.MultiPattern(emb(q.t, i), emb(q.t, j))]))
            A(f"comp.{tag}.inv", z3.ForAll([q.t, i] + pts, z3.Implies(z3.And(inb, cond_at(i)), z3.And(
                0 <= inv(q.t, i), inv(q.t, i) < ln_r(fn(q.t)), emb(q.t, inv(q.t, i)) == i,
                idx_r(fn(q.t), inv(q.t, i)) == elt_at(i))),
                patterns=[z3.MultiPattern(fn(q.t), idx_x(q.t, i))]))
            A(f"comp.{tag}.len", z3.ForAll([q.t] + pts, z3.And(0 <= ln_r(fn(q.t)), ln_r(fn(q.t)) <= ln_x(q.t)), patterns=[fn(q.t)]))
            # a non-empty result has a first element, which comes from an element satisfying the filter (emptiness proofs need this
            # without an index term to trigger on)
            A(f"comp.{tag}.first", z3.ForAll([q.t] + pts, z3.Implies(ln_r(fn(q.t)) > 0, z3.And(
                0 <= emb(q.t, 0), emb(q.t, 0) < ln_x(q.t), cond_at(emb(q.t, 0)), idx_r(fn(q.t), 0) == elt_at(emb(q.t, 0)))), patterns=[fn(q.t)]))
        # homomorphism laws
        emp_x, emp_r = self.pre.fn[f"empty_{xs.ty.name}"], self.pre.fn[f"empty_{rty.name}"]
        unit_x, unit_r = self.pre.seqf(xs.ty, "unit"), self.pre.seqf(rty, "unit")
        app_x, app_r = self.pre.seqf(xs.ty, "app"), self.pre.seqf(rty, "app")
        a, b = z3.Const(f"cga_{tag}", S), z3.Const(f"cgb_{tag}", S)
        x = z3.Const(f"cgx_{tag}", self.sort(xs.ty.elem))
        A(f"comp.{tag}.empty", z3.ForAll(pts, fn(emp_x) == emp_r, patterns=[fn(emp_x)]) if pts else fn(emp_x) == emp_r)
        if not getattr(self, "no_hom", False): A(f"comp.{tag}.app", z3.ForAll([a, b] + pts, fn(app_x(a, b)) == app_r(fn(a), fn(b)), patterns=[fn(app_x(a, b))]))
        ux = unit_x(x)
        e0 = z3.substitute(elt.t, (self.seq_idx(q, bv).t, x))
        c0 = z3.substitute(z3.And(*conds), (self.seq_idx(q, bv).t, x)) if conds else z3.BoolVal(True)
        if not self.mentions(e0, bv) and not self.mentions(c0, bv):
            A(f"comp.{tag}.unit", z3.ForAll([x] + pts, fn(ux) == z3.If(c0, unit_r(e0), emp_r), patterns=[fn(ux)]))
        self.trusted_used.add("comprehensions over closed element/filter expressions denote functions of the iterated sequence (pointwise map / order-preserving filter; f([])=[], f(a+b)=f(a)+f(b))")
        cache[tag] = fn_raw
        return lambda xt, _f=fn_raw, _p=pvals: _f(xt, *[p.t for p in _p])

    def contains_ite(self, t: Any) -> bool:
        seen = set()
        stack = [t]
        while stack:
            e = stack.pop()
            if e.get_id() in seen:
                continue
            seen.add(e.get_id())
            if z3.is_app(e) and e.decl().kind() == z3.Z3_OP_ITE:
                return True
            stack.extend(e.children())
        return False

    def mentions(self, t: Any, c: Any) -> bool:
        seen = set()
        stack = [t]
        while stack:
            e = stack.pop()
            if e.get_id() in seen:
                continue
            seen.add(e.get_id())
            if e.eq(c):
                return True
            stack.extend(e.children())
        return False

    def comprehension_nested(self, n: ast.ListComp | ast.GeneratorExp, st: State) -> V:
        """[f(x) for x in xs for _ in range(g(x))]  (each element repeated g(x) times), f and g closed over x and
        immutable fields: a global function rep(xs) with
            rep([]) = [],  rep(a + b) = rep(a) + rep(b),  count(rep([x]), y) = (max(g(x), 0) if y == f(x) else 0),
            len(rep([x])) = max(g(x), 0),  every element of rep([x]) is f(x)."""
        import hashlib as _h
        gens = n.generators
        ok = (len(gens) == 2 and not gens[0].ifs and not gens[1].ifs and isinstance(gens[1].iter, ast.Call)
              and isinstance(gens[1].iter.func, ast.Name) and gens[1].iter.func.id == "range" and len(gens[1].iter.args) == 1
              and isinstance(gens[0].target, ast.Name) and isinstance(gens[1].target, ast.Name))
        if not ok:
            raise Unsupported("nested comprehension other than [f(x) for x in xs for _ in range(g(x))]", n)
        xname, uname = gens[0].target.id, gens[1].target.id
        used = {x.id for x in ast.walk(n.elt) if isinstance(x, ast.Name)} | {x.id for x in ast.walk(gens[1].iter.args[0]) if isinstance(x, ast.Name)}
        if uname in used:
            raise Unsupported("nested comprehension whose element depends on the repetition index", n)
        xs = self.as_seq(self.expr(gens[0].iter, st), st)

        class _R(ast.NodeTransformer):
            def visit_Name(s_, node: ast.Name) -> Any:  # noqa: N805
                return ast.copy_location(ast.Name(id="_v0" if node.id == xname else node.id, ctx=node.ctx), node)
        norm = lambda e: ast.unparse(_R().visit(copy.deepcopy(e)))  # noqa: E731
        tag = _h.sha1(f"rep|{xs.ty.name}|{norm(n.elt)}|{norm(gens[1].iter.args[0])}".encode()).hexdigest()[:8]
        cache = self.__dict__.setdefault("_rep_comp", {})
        if tag not in cache:
            S = self.sort(xs.ty)
            x = z3.Const(f"rx_{tag}", self.sort(xs.ty.elem))
            gst = State()
            gst.env[xname] = V(x, xs.ty.elem)
            saved_mode, saved_pr, saved_fr = self.mode_spec, self.pending_raises, getattr(self, "fields_read", None)
            self.mode_spec, self.pending_raises, self.fields_read = True, [], set()
            try:
                f = self.expr(n.elt, gst)
                g = self.coerce(self.expr(gens[1].iter.args[0], gst), INT)
                reads = set(self.fields_read)
            finally:
                self.mode_spec, self.pending_raises, self.fields_read = saved_mode, saved_pr, saved_fr
            if any(fl in rec.mutable for (rec, fl) in reads):
                raise Unsupported("nested comprehension over mutable fields", n)
            rty = SeqTy(f.ty)
            R = self.sort(rty)
            rep = z3.Function(f"rep_{tag}", S, R)
            A = self.pre.ax
            a, b = z3.Const(f"ra_{tag}", S), z3.Const(f"rb_{tag}", S)
            y = z3.Const(f"ry_{tag}", self.sort(f.ty))
            i = z3.Int(f"ri_{tag}")
            emp_x, emp_r = self.pre.fn[f"empty_{xs.ty.name}"], self.pre.fn[f"empty_{rty.name}"]
            unit_x, app_x, app_r = self.pre.seqf(xs.ty, "unit"), self.pre.seqf(xs.ty, "app"), self.pre.seqf(rty, "app")
            ln_r, idx_r, cnt_r = self.pre.seqf(rty, "len"), self.pre.seqf(rty, "idx"), self.pre.seqf(rty, "count")
            gpos = z3.If(g.t > 0, g.t, 0)
            A(f"rep.{tag}.empty", rep(emp_x) == emp_r)
            A(f"rep.{tag}.app", z3.ForAll([a, b], rep(app_x(a, b)) == app_r(rep(a), rep(b)), patterns=[rep(app_x(a, b))]))
            A(f"rep.{tag}.unit_len", z3.ForAll([x], ln_r(rep(unit_x(x))) == gpos, patterns=[rep(unit_x(x))]))
            A(f"rep.{tag}.unit_idx", z3.ForAll([x, i], z3.Implies(z3.And(0 <= i, i < gpos), idx_r(rep(unit_x(x)), i) == f.t),
                                               patterns=[idx_r(rep(unit_x(x)), i)]))
            A(f"rep.{tag}.unit_count", z3.ForAll([x, y], cnt_r(rep(unit_x(x)), y) == z3.If(y == f.t, gpos, 0), patterns=[cnt_r(rep(unit_x(x)), y)]))
            self.trusted_used.add("[f(x) for x in xs for _ in range(g(x))] denotes the list in which each f(x) is repeated max(g(x), 0) times, in order")
            cache[tag] = (rep, rty)
        rep, rty = cache[tag]
        # exceptions of f / g on some element are not modelled: only total element expressions are accepted
        r = V(rep(xs.t), rty)
        self.mention(r)
        return r

    def e_ListComp(self, n: ast.ListComp, st: State) -> V:
        return self.comprehension(n, st)

    def e_GeneratorExp(self, n: ast.GeneratorExp, st: State) -> V:
        return self.comprehension(n, st)

    # ------------------------------------------------------------------- calls
    def e_Call(self, n: ast.Call, st: State) -> V:
        f = n.func
        # quantifiers
        if isinstance(f, ast.Name) and f.id in ("all", "any") and len(n.args) == 1 and isinstance(n.args[0], (ast.GeneratorExp, ast.ListComp)):
            return V(self.quant(n.args[0], st, f.id == "all"), BOOL)
        if isinstance(f, ast.Name) and f.id == "old" and self.mode_spec:
            if st.old is None:
                raise ContractError("old() outside a postcondition")
            st2 = st.old.fork()
            # logical (bound) variables stay visible inside old()
            for k2, v2 in st.env.items():
                if k2 not in st2.env or k2.startswith("$") or getattr(v2, "bound", False):
                    st2.env[k2] = v2
            for k2, v2 in st.env.items():
                if z3.is_expr(v2.t) and z3.is_const(v2.t) and "$" in str(v2.t):
                    st2.env[k2] = v2
            return self.expr(n.args[0], st2)
        if isinstance(f, ast.Name) and f.id == "pre_loop" and self.mode_spec:
            if st.loop_entry is None:
                raise ContractError("pre_loop() outside a loop invariant")
            st2 = st.loop_entry.fork()
            for k2, v2 in st.env.items():  # bound variables of enclosing quantifiers stay visible
                if k2 not in st2.env or (z3.is_expr(v2.t) and self.has_bound(v2.t)):
                    st2.env[k2] = v2
            st2.pc = st.pc
            return self.expr(n.args[0], st2)
        if isinstance(f, ast.Name) and f.id == "implies" and self.mode_spec:
            a = self.truthy(self.expr(n.args[0], st))
            saved = list(st.pc)
            b = self.truthy(self.expr(n.args[1], st))
            st.pc[:] = saved
            return V(z3.Implies(a, b), BOOL)
        if isinstance(f, ast.Name) and f.id == "forall" and self.mode_spec:
            return self.spec_forall(n, st, True)
        if isinstance(f, ast.Name) and f.id == "exists" and self.mode_spec:
            return self.spec_forall(n, st, False)
        if isinstance(f, ast.Name):
            name = f.id
            if name in self.specs:
                return self.call_spec(self.specs[name], n, st)
            if name in self.builtins:
                return self.builtins[name](self, n, st)
            if name in self.tenv.records and name in self.ctor_handlers:
                return self.ctor_handlers[name](self, n, st)
            if name in self.tenv.records and name in getattr(self, "kw_ctor_records", ()):
                return self.construct_by_fields(self.tenv.records[name], n, st)
            if name in self.tenv.records and f"{name}.__init__" in self.contracts:
                return self.construct(self.tenv.records[name], n, st)
            if isinstance(self.tenv.aliases.get(name), StructTy):
                sty = self.tenv.aliases[name]
                if n.args or {kw.arg for kw in n.keywords} != set(sty.fields):
                    raise Unsupported(f"{name}(...) must give exactly the fields {list(sty.fields)} by keyword", n)
                kws = {kw.arg: self.coerce(self.expr(kw.value, st), sty.fields[kw.arg]) for kw in n.keywords}  # evaluation order = source order
                return V(self.pre.struct_mk(sty, [kws[f].t for f in sty.fields]), sty)
            if isinstance(self.tenv.aliases.get(name), MapTy) and not n.args:
                # a TypedDict class called with keywords is the dict literal {keyword: value, ...} (in keyword order)
                mty = self.tenv.aliases[name]
                m = self.pre.fn[f"empty_{mty.name}"] if self.sort(mty) is not None else None
                items = []
                for kw in n.keywords:
                    if kw.arg is None:
                        raise Unsupported(f"{name}(**mapping)", n)
                    v = self.expr(kw.value, st)
                    if getattr(v, "empty_lit", False):
                        raise Unsupported(f"{name}(...) with an untyped empty literal", n)
                    kv = self.strlit(kw.arg)
                    vv = self.coerce(v, mty.val)
                    items.append((kv, vv))
                    m = self.pre.mapf(mty, "store")(m, kv.t, vv.t)
                r = V(m, mty)
                r.lit_items = items
                return r
            if name in self.contracts:
                return self.call_contract(self.contracts[name], n, st, None)
            helper = self.find_inlinable(name)
            if helper is not None:
                return self.inline_helper(helper, n, st)
            raise Unsupported(f"call of {name} (no contract)", n)
        if isinstance(f, ast.Attribute):
            # module-qualified builtins e.g. datetime.fromtimestamp
            dotted = ast.unparse(f)
            if dotted in self.builtins:
                return self.builtins[dotted](self, n, st)
            if dotted in self.contracts and self.contracts[dotted].static and isinstance(f.value, ast.Name) and f.value.id in self.tenv.records:
                # Class.method(...) of a static / class method under contract
                return self.call_contract(self.contracts[dotted], n, st, None)
            if isinstance(f.value, ast.Call) and isinstance(f.value.func, ast.Name) and f.value.func.id == "super" and not f.value.args:
                # super().m(...): the contract of the base class's method (the sidecar names the base: BASES), applied to self
                cls = self.cur_func.split(".")[0]
                base = getattr(self, "class_bases", {}).get(cls)
                if base is None or f"{base}.{f.attr}" not in self.contracts or "self" not in st.env:
                    raise Unsupported(f"super().{f.attr} (no base class contract {base}.{f.attr})", n)
                return self.call_contract(self.contracts[f"{base}.{f.attr}"], n, st, st.env["self"])
            obj = self.expr(f.value, st)
            key = f"{self.ty_family(obj.ty)}.{f.attr}"
            if key in self.methods:
                return self.methods[key](self, obj, n, st)
            if isinstance(obj.ty, RecTy):
                q = f"{obj.ty.name}.{f.attr}"
                if q in self.contracts:
                    return self.call_contract(self.contracts[q], n, st, None if self.contracts[q].static else obj)
                hm = self.find_inlinable_method(obj.ty.name, f.attr)
                if hm is not None:
                    return self.inline_helper(hm[0], n, st, None if hm[1] else obj)
            raise Unsupported(f"method {key}", n)
        raise Unsupported("call form", n)

    in_comprehension = 0

    def construct_by_fields(self, rec: RecTy, n: ast.Call, st: State) -> V:
        if self.in_comprehension:
            raise Unsupported(f"construction of a {rec.name} object inside a comprehension (declare the class as a value struct or use a loop)", n)
        """`Cls(field=value, ...)` for a plain data record (ORM / pydantic model): a fresh reference whose listed fields hold the
        given values (trusted: the constructor stores its keyword arguments; validators are not modelled)."""
        if self.mode_spec or n.args:
            raise Unsupported(f"{rec.name}(...) positional / in a clause", n)
        vals = {kw.arg: self.coerce(self.expr(kw.value, st), rec.fields[kw.arg]) for kw in n.keywords if kw.arg in rec.fields}
        if len(vals) != len(n.keywords):
            raise Unsupported(f"{rec.name}(...) with an unknown field", n)
        r = self.fresh(f"new.{rec.name}", rec)
        self.assume_fresh(r, rec, st)
        for f, v in vals.items():
            if f in rec.mutable:
                self.write_field(st, r, f, v)
            else:
                self.assume(st, z3.Select(self.heap_arr(st, rec, f), r.t) == v.t)
        self.trusted_used.add(f"{rec.name}(field=value, ...) yields a new object holding exactly those field values")
        return r

    def assume_fresh(self, r: V, rec: RecTy, st: State) -> None:
        for nm, v in list(st.env.items()):
            if v.ty == rec:
                self.assume(st, v.t != r.t)
            elif isinstance(v.ty, SeqTy) and v.ty.elem == rec:
                i = z3.Int(f"fi${self.site()}")
                self.assume(st, z3.ForAll([i], self.seq_idx(v, i).t != r.t, patterns=[self.seq_idx(v, i).t]))
            elif isinstance(v.ty, MapTy) and v.ty.val == rec:
                k = z3.Const(f"fk${self.site()}", self.sort(v.ty.key))
                self.assume(st, z3.ForAll([k], z3.Implies(self.pre.mapf(v.ty, "has")(v.t, k), self.pre.mapf(v.ty, "get")(v.t, k) != r.t),
                                          patterns=[self.pre.mapf(v.ty, "get")(v.t, k)]))

    def construct(self, rec: RecTy, n: ast.Call, st: State) -> V:
        if self.in_comprehension:
            raise Unsupported(f"construction of a {rec.name} object inside a comprehension", n)
        return self._construct(rec, n, st)

    def _construct(self, rec: RecTy, n: ast.Call, st: State) -> V:
        """`Cls(args)` for a class whose __init__ is under contract: a fresh reference, distinct from every object of that
        class reachable (one level) from the variables in scope, then the contract of __init__ (its `modifies` must come with
        frame clauses for the other objects)."""
        if self.mode_spec:
            raise ContractError(f"constructor {rec.name}(...) in a clause")
        r = self.fresh(f"new.{rec.name}", rec)
        for nm, v in list(st.env.items()):
            if v.ty == rec:
                self.assume(st, v.t != r.t)
            elif isinstance(v.ty, OptTy) and v.ty.inner == rec:
                self.assume(st, z3.Or(self.pre.opt_is_none(v.ty, v.t), self.pre.opt_val(v.ty, v.t) != r.t))
            elif isinstance(v.ty, MapTy) and v.ty.val == rec:
                k = z3.Const(f"fk${self.site()}", self.sort(v.ty.key))
                has, get = self.pre.mapf(v.ty, "has"), self.pre.mapf(v.ty, "get")
                self.assume(st, z3.ForAll([k], z3.Implies(has(v.t, k), get(v.t, k) != r.t), patterns=[get(v.t, k)]))
            elif isinstance(v.ty, SeqTy) and v.ty.elem == rec:
                i = z3.Int(f"fi${self.site()}")
                self.assume(st, z3.ForAll([i], self.seq_idx(v, i).t != r.t, patterns=[self.seq_idx(v, i).t]))
            elif isinstance(v.ty, SetTy) and v.ty.elem == rec:
                self.assume(st, z3.Not(self.pre.setf(v.ty, "mem")(v.t, r.t)))
        self.trusted_used.add("object allocation: a newly constructed object is distinct from every object of its class held by the variables in scope "
                              "(directly, or as an element / value of a list, dict or set held by one)")
        c = self.contracts[f"{rec.name}.__init__"]
        self.call_contract(c, n, st, r)
        return r

    def find_inlinable(self, name: str) -> Optional[ast.FunctionDef]:
        """A module-level function of the file being verified that has no contract and whose body is a single `return <expr>`
        (after the docstring): such a helper is expanded at the call site (it has no loops, no state, no early exits)."""
        rel = getattr(self, "cur_relpath", None)
        if rel is None or rel not in getattr(self, "sources", {}):
            return None
        _, mod = self.sources[rel]
        for d in mod.body:
            if isinstance(d, ast.FunctionDef) and d.name == name:
                body = [x for x in d.body if not (isinstance(x, ast.Expr) and isinstance(x.value, ast.Constant))]
                if len(body) == 1 and isinstance(body[0], ast.Return) and body[0].value is not None and not d.decorator_list \
                        and not d.args.vararg and not d.args.kwarg and not d.args.kwonlyargs:
                    return d
        return None

    def find_inlinable_method(self, cls: str, name: str) -> Optional[tuple[ast.FunctionDef, bool]]:
        """The same for a method of class `cls` in the file being verified: (definition, is_static)."""
        rel = getattr(self, "cur_relpath", None)
        if rel is None or rel not in getattr(self, "sources", {}):
            return None
        _, mod = self.sources[rel]
        for c in mod.body:
            if isinstance(c, ast.ClassDef) and c.name == cls:
                for d in c.body:
                    if isinstance(d, ast.FunctionDef) and d.name == name:
                        decs = [ast.unparse(x) for x in d.decorator_list]
                        if any(x not in ("staticmethod",) for x in decs):
                            return None
                        body = [x for x in d.body if not (isinstance(x, ast.Expr) and isinstance(x.value, ast.Constant))]
                        if len(body) == 1 and isinstance(body[0], ast.Return) and body[0].value is not None \
                                and not d.args.vararg and not d.args.kwarg and not d.args.kwonlyargs:
                            return d, "staticmethod" in decs
        return None

    def inline_helper(self, fd: ast.FunctionDef, n: ast.Call, st: State, self_obj: Optional[V] = None) -> V:
        depth = getattr(self, "_inline_depth", 0)
        if depth > 3:
            raise Unsupported(f"helper {fd.name}: inlining too deep (recursive?)", n)
        params = [a.arg for a in fd.args.args]
        if self_obj is not None:
            params = params[1:]
        dflt = [None] * (len(params) - len(fd.args.defaults)) + list(fd.args.defaults)
        vals: dict[str, V] = {}
        for p, a in zip(params, n.args):
            vals[p] = self.expr(a, st)
        for kw in n.keywords:
            if kw.arg not in params:
                raise Unsupported(f"helper {fd.name}: unknown keyword {kw.arg}", n)
            vals[kw.arg] = self.expr(kw.value, st)
        for p, d in zip(params, dflt):
            if p not in vals:
                if d is None:
                    raise Unsupported(f"helper {fd.name}: missing argument {p}", n)
                vals[p] = self.expr(d, State())
        for a in fd.args.args:   # coerce to annotated types where possible (empty literals etc.)
            if a.annotation is not None and a.arg in vals:
                try:
                    vals[a.arg] = self.coerce(vals[a.arg], self.tenv.parse(a.annotation))
                except Unsupported:
                    pass
        if self_obj is not None:
            vals[fd.args.args[0].arg] = self_obj
        saved_env = st.env
        st.env = dict(vals)      # the helper sees only its parameters (plus module-level names resolved as usual)
        self._inline_depth = depth + 1
        try:
            ret = [x for x in fd.body if isinstance(x, ast.Return)][0]
            v = self.expr(ret.value, st)  # type: ignore[arg-type]
        finally:
            st.env = saved_env
            self._inline_depth = depth
        self.dropped.append(f"{self.cur_func}: call of the un-contracted single-return helper `{fd.name}` expanded at the call site")
        return v

    def ty_family(self, ty: Ty) -> str:
        if isinstance(ty, SeqTy):
            return "list"
        if isinstance(ty, MapTy):
            return "dict"
        if isinstance(ty, SetTy):
            return "set"
        if isinstance(ty, OptTy):
            return "opt"
        return ty.name

    def spec_forall(self, n: ast.Call, st: State, universal: bool) -> V:
        """forall(lambda x, y: body, 'T1', 'T2', [trigger exprs as strings...])"""
        lam = n.args[0]
        assert isinstance(lam, ast.Lambda)
        names = [a.arg for a in lam.args.args]
        tys = [self.tenv.parse(a.value) for a in n.args[1:1 + len(names)]]  # type: ignore[attr-defined]
        k = self.site()
        bvs = [z3.Const(f"{nm}${k}", self.sort(ty)) for nm, ty in zip(names, tys)]
        st2 = st.fork()
        st2.old = st.old
        for nm, ty, bv in zip(names, tys, bvs):
            st2.env[nm] = V(bv, ty)
        body = self.truthy(self.expr(lam.body, st2))
        pats = []
        self.trigger_mode = True
        try:
            for kw in n.keywords:
                if kw.arg == "triggers":
                    for pe in kw.value.elts:  # type: ignore[attr-defined]
                        if isinstance(pe, (ast.Tuple, ast.List)):
                            terms = [self.expr(e, st2).t for e in pe.elts]
                            pats.append(z3.MultiPattern(*terms) if len(terms) > 1 else terms[0])
                        else:
                            pats.append(self.expr(pe, st2).t)
        finally:
            self.trigger_mode = False
        q = (self.forall_pat(bvs, body, pats) if pats else z3.ForAll(bvs, body)) if universal else z3.Exists(bvs, body)
        return V(q, BOOL)

    # spec functions -----------------------------------------------------------
    def call_spec(self, sp: SpecFn, n: ast.Call, st: State) -> V:
        args = [self.coerce(self.expr(a, st), ty) for a, (_, ty) in zip(n.args, sp.params)]
        if len(args) != len(sp.params):
            raise ContractError(f"spec {sp.name}: arity")
        return V(sp.decl(*[a.t for a in args]), sp.ret)

    def add_spec_source(self, src: str) -> None:
        """Register the spec functions defined in `src` (Python text).  Each must be
        `def f(params annotated) -> T: return <expr>`.  The definitional axiom is
        emitted in 'limited function' form: f unfolds once into f_lim, so recursive
        definitions cannot cause matching loops."""
        mod = ast.parse(src)
        fns = [d for d in mod.body if isinstance(d, ast.FunctionDef)]
        for d in fns:
            params = [(a.arg, self.tenv.parse(a.annotation)) for a in d.args.args]  # type: ignore[arg-type]
            ret = self.tenv.parse(d.returns)  # type: ignore[arg-type]
            body_stmts = [s for s in d.body if not (isinstance(s, ast.Expr) and isinstance(s.value, ast.Constant))]
            body = None
            if len(body_stmts) == 1 and isinstance(body_stmts[0], ast.Return):
                body = body_stmts[0].value
            sig = [self.sort(t) for _, t in params] + [self.sort(ret)]
            sp = SpecFn(d.name, params, ret, body, z3.Function(d.name, *sig), z3.Function(d.name + "_lim", *sig), ast.unparse(d))
            sp.decl_lim0 = z3.Function(d.name + "_lim0", *sig)  # type: ignore[attr-defined]
            opaque = any(isinstance(dec, ast.Name) and dec.id == "opaque" for dec in d.decorator_list)
            if opaque:
                sp.body = None
            self.specs[d.name] = sp
        # call graph inside this source: a call f -> g is *limited* (goes to g_lim) when g is defined no later than f
        # and f is reachable from g, i.e. the call closes a recursion cycle (self-recursion included)
        names = [d.name for d in fns]
        calls = {d.name: {x.func.id for x in ast.walk(d) if isinstance(x, ast.Call) and isinstance(x.func, ast.Name) and x.func.id in names}
                 for d in fns}

        def reaches(a: str, b: str) -> bool:
            seen, stack = set(), [a]
            while stack:
                c = stack.pop()
                for nx in calls.get(c, ()):
                    if nx == b:
                        return True
                    if nx not in seen:
                        seen.add(nx)
                        stack.append(nx)
            return False
        limited = {f: [g for g in calls[f] if names.index(g) <= names.index(f) and (g == f or reaches(g, f))] for f in names}
        # other members of f's recursion cycle that f calls "forwards": inside the once-unfolded body of f_lim they are lowered too
        forward = {f: [g for g in calls[f] if g not in limited[f] and reaches(g, f)] for f in names}
        for sp in [self.specs[d.name] for d in fns]:
            if sp.body is None:
                continue
            st = State()
            bvs = []
            for nm, ty in sp.params:
                bv = z3.Const(f"{nm}$", self.sort(ty))
                bvs.append(bv)
                st.env[nm] = V(bv, ty)
            saved = self.mode_spec
            self.mode_spec = True
            self.limit_spec = sp.name
            saved_fr = getattr(self, "fields_read", None)
            self.fields_read = set()
            try:
                b = self.coerce(self.expr(sp.body, st), sp.ret)
                mut = sorted(f"{rec.name}.{f}" for (rec, f) in self.fields_read if f in rec.mutable)
            finally:
                self.mode_spec = saved
                self.limit_spec = None
                self.fields_read = saved_fr
            if mut and not getattr(self, "allow_heap_specs", False):
                # a spec function is a function of its arguments only: a mutable field read inside it would silently denote
                # the *initial* heap in every state
                raise ContractError(f"spec function {sp.name} reads mutable field(s) {mut}; write it as a clause macro instead")
            # replace recursive occurrences f(...) by f_lim(...)
            bt = b.t
            for g in limited[sp.name]:
                bt = self.subst_decl(bt, self.specs[g].decl, self.specs[g].decl_lim)
            lhs = sp.decl(*bvs)
            eqn = self.eq(V(lhs, sp.ret), V(bt, sp.ret)) if not isinstance(sp.ret, (SeqTy, SetTy, MapTy)) else (lhs == bt)
            self.spec_axioms.append((f"spec.{sp.name}.def", z3.ForAll(bvs, eqn, patterns=[lhs], qid=f"spec.{sp.name}.def")))
            self.spec_axioms.append((f"spec.{sp.name}.lim", z3.ForAll(bvs, sp.decl_lim(*bvs) == lhs, patterns=[lhs], qid=f"spec.{sp.name}.lim")))
            if not self.same_term(bt, b.t):
                # recursive definition: two levels of unfolding ("fuel 2"): f -> f_lim -> f_lim0
                bt0 = b.t
                for g in limited[sp.name]:
                    bt0 = self.subst_decl(bt0, self.specs[g].decl, self.specs[g].decl_lim0)  # type: ignore[attr-defined]
                for g in forward[sp.name]:
                    bt0 = self.subst_decl(bt0, self.specs[g].decl, self.specs[g].decl_lim)
                lhs1 = sp.decl_lim(*bvs)
                eqn1 = self.eq(V(lhs1, sp.ret), V(bt0, sp.ret)) if not isinstance(sp.ret, (SeqTy, SetTy, MapTy)) else (lhs1 == bt0)
                self.spec_axioms.append((f"spec.{sp.name}.def1", z3.ForAll(bvs, eqn1, patterns=[lhs1], qid=f"spec.{sp.name}.def1")))
                self.spec_axioms.append((f"spec.{sp.name}.lim0", z3.ForAll(bvs, sp.decl_lim0(*bvs) == lhs, patterns=[lhs], qid=f"spec.{sp.name}.lim0")))  # type: ignore[attr-defined]

    def same_term(self, a: Any, b: Any) -> bool:
        return a.eq(b)

    def subst_decl(self, t: Any, old: Any, new: Any) -> Any:
        cache: dict[int, Any] = {}

        def go(e: Any) -> Any:
            if e.get_id() in cache:
                return cache[e.get_id()]
            if z3.is_quantifier(e):
                # rebuild quantifier body
                nvars = e.num_vars()
                vs = [z3.Const(f"{e.var_name(i)}", e.var_sort(i)) for i in range(nvars)]
                body = z3.substitute_vars(e.body(), *reversed(vs))
                nb = go(body)
                r = z3.ForAll(vs, nb) if e.is_forall() else z3.Exists(vs, nb)
            elif z3.is_app(e):
                ch = [go(c) for c in e.children()]
                d = e.decl()
                if d.eq(old):
                    r = new(*ch)
                elif ch:
                    r = d(*ch)
                else:
                    r = e
            else:
                r = e
            cache[e.get_id()] = r
            return r
        return go(t)

    # calls to functions under contract -----------------------------------------
    def bind_args(self, c: Contract, n: ast.Call, st: State, self_obj: Optional[V]) -> dict[str, V]:
        params, _ = self.func_sigs[c.name]
        defaults = self.func_defaults.get(c.name, {})
        out: dict[str, V] = {}
        plist = list(params)
        if self_obj is not None:
            out[plist[0][0]] = self_obj
            plist = plist[1:]
        for (pn, pty), a in zip(plist, n.args):
            out[pn] = self.coerce(self.expr(a, st), pty)
        for kw in n.keywords:
            pty = dict(params)[kw.arg]  # type: ignore[index]
            out[kw.arg] = self.coerce(self.expr(kw.value, st), pty)  # type: ignore[index]
        for pn, pty in plist:
            if pn not in out:
                if pn not in defaults:
                    raise ContractError(f"call of {c.name}: missing argument {pn}")
                out[pn] = self.coerce(self.expr(defaults[pn], State()), pty)
        return out

    def call_contract(self, c: Contract, n: ast.Call, st: State, self_obj: Optional[V]) -> V:
        if c.name not in self.func_sigs:
            raise ContractError(f"{c.name}: no signature bound (function missing in source?)")
        params, rty = self.func_sigs[c.name]
        args = self.bind_args(c, n, st, self_obj)
        # a collection parameter the callee mutates in place (`mutable_params`): the caller sees the final value.  Value semantics of
        # collections make that a write-back to the caller's *variable*; any other argument expression cannot be written back
        outs: dict[str, str] = {}
        mp = [p for p in (getattr(c, "mutable_params", []) or []) if not (p == "self" and self_obj is not None and isinstance(self_obj.ty, RecTy))]
        if mp and not self.mode_spec:
            plist = [pn for pn, _ in params]
            if self_obj is not None:
                plist = plist[1:]
            where: dict[str, ast.expr] = dict(zip(plist, n.args))
            for kw in n.keywords:
                where[kw.arg] = kw.value  # type: ignore[index]
            for p in mp:
                a = where.get(p)
                if a is None:
                    continue  # defaulted: the callee's own fresh object, invisible to the caller
                if not isinstance(a, ast.Name):
                    raise Unsupported(f"argument for the in-place mutated parameter `{p}` of {c.name} is not a variable", n)
                outs[p] = a.id
        return self.apply_contract(c, args, rty, st, n, outs)

    def apply_contract(self, c: Contract, args: dict[str, V], rty: Ty, st: State, n: Optional[ast.AST] = None,
                       outs: Optional[dict[str, str]] = None) -> V:
        if c.trusted:
            self.trusted_used.add(f"contract of {c.name} (assumed)")
        cst = State()
        cst.env = dict(args)
        cst.heap = dict(st.heap)
        cst.pc = st.pc
        if self.mode_spec:
            # inside a clause only pure functions may be mentioned; they denote their spec symbol
            if not c.pure:
                raise ContractError(f"{c.name} used in a clause but not declared pure")
            return self.pure_app(c, args, rty)
        # 1. preconditions are obligations of the caller
        for lab, txt in c.requires.items():
            self.emit(st, self.clause(txt, cst), f"call:{c.name}.requires.{lab}", text=txt)
        # 2. exceptional outcomes declared by the callee
        for exc, txt in c.raises.items():
            cond = self.clause(txt, cst)
            w = What(f"{c.name} raises {exc}")
            if c.trusted or c.atomic_raises or not c.modifies:
                w.heap = dict(st.heap)  # the declared exception is an atomic failure: the state is as it was at the call
            else:
                hv = dict(st.heap)      # otherwise everything the callee may write is unknown on the exceptional path
                for hk in c.modifies:
                    rname, fname = hk.split(".")
                    _, srt = self.pre.field(self.tenv.records[rname], fname)
                    hv[hk] = self.pre.fresh(f"Hx.{hk}", srt)
                w.heap = hv
            self.pending_raises.append((list(st.pc), cond, exc, w))
            st.pc.append(z3.Not(cond))
        # 3. frame: havoc what the callee may modify
        pre = cst.snapshot()
        pre.pc = []
        for hk in c.modifies:
            if self.cur_contract is not None and hk not in self.cur_contract.modifies:
                # the caller's own frame does not allow this write: the call must be unreachable
                self.emit(st, z3.BoolVal(False), f"frame.{hk}", text=f"{self.cur_contract.name} does not list {hk} in `modifies`: the call of {c.name} (which may write it) must be unreachable")
            rname, fname = hk.split(".")
            rec = self.tenv.records[rname]
            _, srt = self.pre.field(rec, fname)
            st.heap[hk] = self.pre.fresh(f"H.{hk}", srt)
        # 4. result
        if c.pure:
            res = self.pure_app(c, args, rty)
        else:
            res = self.fresh(f"ret.{c.name}", rty)
        post = State()
        post.env = dict(args)
        post.env["result"] = res
        for p, var in (outs or {}).items():
            # the final value of an in-place mutated parameter: unknown, constrained by the callee's postcondition, written back
            post.env[p] = self.fresh(f"out.{c.name}.{p}", args[p].ty)
        post.heap = dict(st.heap)
        post.old = pre
        post.pc = st.pc
        for lab, txt in c.ensures.items():
            self.assume(st, self.clause(txt, post))
        for p, var in (outs or {}).items():
            st.env[var] = self.coerce(post.env[p], st.env[var].ty) if var in st.env else post.env[p]
        return res

    def pure_app(self, c: Contract, args: dict[str, V], rty: Ty) -> V:
        params, _ = self.func_sigs[c.name]
        hr = getattr(c, "heap_reads", None)
        if hr and self.cur_contract is not None and hr & set(self.cur_contract.modifies):
            raise ContractError(f"{c.name} depends on {sorted(hr)} which {self.cur_contract.name} may modify: its pure symbol cannot be used here")
        if c.name not in self.pure_decls:
            sig = [self.sort(t) for _, t in params] + [self.sort(rty)]
            self.pure_decls[c.name] = z3.Function("fn_" + c.name.replace(".", "_"), *sig)
        return V(self.pure_decls[c.name](*[args[p].t for p, _ in params]), rty)

    # the following tables are filled by builtins.install
    attr_handlers: dict[str, Callable[..., V]] = {}
    ctor_handlers: dict[str, Callable[..., V]] = {}
    contains_handlers: dict[str, Callable[..., Any]] = {}
    func_defaults: dict[str, dict[str, ast.expr]] = {}
    pending_raises: list[tuple[list[Any], Any, str, str]] = []
    limit_spec: Optional[str] = None
    last_cands: list[Any] = []


BOOL_S = z3.BoolSort()


def _has_quant(t: Any) -> bool:
    seen = set()
    stack = [t]
    while stack:
        e = stack.pop()
        if e.get_id() in seen:
            continue
        seen.add(e.get_id())
        if z3.is_quantifier(e):
            return True
        stack.extend(e.children())
    return False
