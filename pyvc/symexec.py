"""Statement-level symbolic execution and per-function VC generation."""
from __future__ import annotations

import ast
import hashlib
from typing import Any, Optional

import z3

from .engine import Engine, State, Outcome, V, VC, Contract, LoopSpec, Lemma, Unsupported, ContractError
from .tys import Ty, SeqTy, MapTy, SetTy, OptTy, RecTy, TupleTy, INT, BOOL, FLOAT, STR, NONE, ANY
from . import tys as T

_SPLIT_JOB: Any = None


def _run_split(label: str) -> Any:
    ver, relpath, c = _SPLIT_JOB
    ver.vcs = []
    ver.parallel_splits = False
    ver.verify_function(relpath, c, only_split=label)
    return ver.vcs, ver.trusted_used, ver.dropped


LOG_CALLS = ("tqdm.write", "LOGGER.warning", "LOGGER.info", "LOGGER.debug", "LOGGER.error", "logging.info",
             "logging.warning", "logging.debug", "logging.error", "print")


class Verifier(Engine):
    # ================================================================ statements
    def block(self, stmts: list[ast.stmt], st: State) -> list[Outcome]:
        outs: list[Outcome] = []
        live = [st]
        for s in stmts:
            nxt: list[State] = []
            for cur in live:
                for o in self.stmt(s, cur):
                    if o.kind == "normal":
                        nxt.append(o.st)
                    else:
                        outs.append(o)
            live = nxt
            if not live:
                break
        outs += [Outcome("normal", s2) for s2 in live]
        return outs

    def stmt(self, s: ast.stmt, st: State) -> list[Outcome]:
        m = getattr(self, "s_" + type(s).__name__, None)
        if m is None:
            raise Unsupported(f"statement {type(s).__name__}", s)
        self.pending_raises = []
        outs = m(s, st)
        if self.cur_contract is not None and self.cur_contract.at and not isinstance(s, (ast.If, ast.For, ast.While, ast.With, ast.Try)):
            hs = self.cur_contract.at.get(ast.unparse(s))
            if hs:
                for o in outs:
                    if o.kind == "normal":
                        for n_h, h in enumerate(hs):
                            self.hint(o.st, h, f"at{list(self.cur_contract.at).index(ast.unparse(s))}.{n_h}")
        if self.cur_contract is not None and self.cur_contract.ghost_effects and not isinstance(s, (ast.If, ast.For, ast.While, ast.With, ast.Try)):
            for o in outs:
                if o.kind == "normal":
                    self.apply_ghost_effects(s, o.st)
        return outs

    def flush_raises(self, st: State) -> list[Outcome]:
        """Turn the safety checks / callee exceptions collected while evaluating
        the expressions of one statement into exceptional outcomes."""
        outs = []
        for i, (pc_at, cond, exc, what) in enumerate(self.pending_raises):
            rs = st.fork()
            rs.pc = list(pc_at) + [cond]
            if getattr(what, "heap", None) is not None:
                rs.heap = dict(what.heap)
            rs.path = st.path + [f"raise:{exc}"]
            o = Outcome("raise", rs, exc=exc)
            o.what = what  # type: ignore[attr-defined]
            outs.append(o)
        self.pending_raises = []
        return outs

    def s_Expr(self, s: ast.Expr, st: State) -> list[Outcome]:
        if isinstance(s.value, ast.Constant):
            return [Outcome("normal", st)]  # docstring
        if isinstance(s.value, ast.Call):
            dotted = ast.unparse(s.value.func)
            if dotted in LOG_CALLS:
                self.dropped.append(f"{self.cur_func}: `{dotted}(...)` at line {s.lineno} treated as skip")
                return [Outcome("normal", st)]
            if dotted == "super().__init__" and not s.value.args:
                return [Outcome("normal", st)]
            # mutating method call on an lvalue path
            if isinstance(s.value.func, ast.Attribute):
                self._mut_outs = []
                r = self.mutating_call(s.value, st)
                if r is not None:
                    return self._mut_outs + self.flush_raises(st) + [Outcome("normal", st)]
        if isinstance(s.value, (ast.Yield,)):
            return self.s_yield(s.value, st)
        if isinstance(s.value, ast.YieldFrom):
            # list reading of generators: `yield from g(...)` appends everything g(...) yields (g under contract: its `result` list). The
            # callee's effects are taken at the call, not interleaved with the consumer - laziness is not modelled.
            v = self.as_seq(self.expr(s.value.value, st), st)
            outs = self.flush_raises(st)
            acc = st.env["$yielded"]
            st.env["$yielded"] = self.seq_app(acc, self.coerce(v, acc.ty))
            return outs + [Outcome("normal", st)]
        self.expr(s.value, st)
        return self.flush_raises(st) + [Outcome("normal", st)]

    def s_yield(self, y: ast.Yield, st: State) -> list[Outcome]:
        v = self.expr(y.value, st)  # type: ignore[arg-type]
        outs = self.flush_raises(st)    # an exception while computing the value leaves nothing yielded
        acc = st.env["$yielded"]
        st.env["$yielded"] = self.seq_app(acc, self.seq_unit(acc.ty, v))  # type: ignore[arg-type]
        return outs + [Outcome("normal", st)]

    def s_Pass(self, s: ast.Pass, st: State) -> list[Outcome]:
        return [Outcome("normal", st)]

    def s_Return(self, s: ast.Return, st: State) -> list[Outcome]:
        v = self.expr(s.value, st) if s.value is not None else V(self.pre.none_val, NONE)
        return self.flush_raises(st) + [Outcome("return", st, value=v)]

    def s_Raise(self, s: ast.Raise, st: State) -> list[Outcome]:
        if s.exc is None:
            raise Unsupported("bare raise", s)
        exc = s.exc.func if isinstance(s.exc, ast.Call) else s.exc
        name = ast.unparse(exc)
        if isinstance(exc, ast.Name) and exc.id in st.exc_names:
            name = st.exc_names[exc.id]  # `raise e` re-raises what this path caught
        if name in ("IOError", "EnvironmentError"):
            name = "OSError"  # aliases of OSError in Python 3
        st.path = st.path + [f"raise:{name}"]
        return [Outcome("raise", st, exc=name)]

    def s_Break(self, s: ast.Break, st: State) -> list[Outcome]:
        return [Outcome("break", st)]

    def s_Continue(self, s: ast.Continue, st: State) -> list[Outcome]:
        return [Outcome("continue", st)]

    def s_Assert(self, s: ast.Assert, st: State) -> list[Outcome]:
        c = self.truthy(self.expr(s.test, st))
        outs = self.flush_raises(st)
        self.emit(st, c, f"assert@{ast.unparse(s.test)[:40]}")
        st.pc.append(c)
        return outs + [Outcome("normal", st)]

    # assignment -----------------------------------------------------------------
    def s_AnnAssign(self, s: ast.AnnAssign, st: State) -> list[Outcome]:
        ty = self.tenv.parse(s.annotation)
        if s.value is None:
            return [Outcome("normal", st)]
        self.expected_type = ty
        try:
            v = self.coerce(self.expr(s.value, st), ty)
        finally:
            self.expected_type = None
        outs = self.flush_raises(st)
        self.assign(s.target, v, st)
        return outs + self.flush_raises(st) + [Outcome("normal", st)]

    def s_Assign(self, s: ast.Assign, st: State) -> list[Outcome]:
        v = self.expr(s.value, st)
        outs = self.flush_raises(st)
        for tgt in s.targets:
            self.assign(tgt, v, st)
        return outs + self.flush_raises(st) + [Outcome("normal", st)]

    def s_AugAssign(self, s: ast.AugAssign, st: State) -> list[Outcome]:
        cur = self.expr(s.target, st)  # type: ignore[arg-type]
        rhs = self.expr(s.value, st)
        node = ast.BinOp(left=ast.Name(id="$aug_l"), op=s.op, right=ast.Name(id="$aug_r"))
        ast.copy_location(node, s)
        st.env["$aug_l"], st.env["$aug_r"] = cur, rhs
        v = self.expr(node, st)
        del st.env["$aug_l"], st.env["$aug_r"]
        outs = self.flush_raises(st)
        self.assign(s.target, v, st)  # type: ignore[arg-type]
        return outs + [Outcome("normal", st)]

    def assign(self, tgt: ast.expr, v: V, st: State) -> None:
        if isinstance(tgt, ast.Name):
            declared = self.local_types.get(tgt.id)
            if declared is not None:
                v = self.coerce(v, declared)
            elif tgt.id in st.env and st.env[tgt.id].ty != v.ty:
                v = self.coerce(v, st.env[tgt.id].ty)
            elif getattr(v, "empty_lit", False):
                raise Unsupported(f"empty literal assigned to {tgt.id} without a type (add a `locals` hint)", tgt)
            st.env[tgt.id] = v
            return
        if isinstance(tgt, ast.Tuple):
            if not isinstance(v.ty, TupleTy):
                raise Unsupported("tuple unpacking of non-tuple", tgt)
            for i, t in enumerate(tgt.elts):
                self.assign(t, V(self.pre.tup_get(v.ty, v.t, i), v.ty.elems[i]), st)
            return
        if isinstance(tgt, ast.Attribute):
            obj = self.expr(tgt.value, st)
            if isinstance(obj.ty, RecTy):
                hk = self.heap_key(obj.ty, tgt.attr)
                self.note_write(hk, tgt)
                self.write_field(st, obj, tgt.attr, v)
                return
            raise Unsupported("attribute assignment on non-record", tgt)
        if isinstance(tgt, ast.Subscript):
            cur = self.expr(tgt.value, st)
            key = self.expr(tgt.slice, st)
            new = self.updated(cur, key, v, st, tgt)
            self.assign_path(tgt.value, new, st)
            return
        raise Unsupported("assignment target", tgt)

    def updated(self, coll: V, key: V, v: V, st: State, n: ast.AST) -> V:
        if isinstance(coll.ty, MapTy):
            return V(self.pre.mapf(coll.ty, "store")(coll.t, self.coerce(key, coll.ty.key).t, self.coerce(v, coll.ty.val).t), coll.ty)
        if isinstance(coll.ty, SeqTy):
            i = self.norm_index(coll, self.coerce(key, INT).t, st)
            self.check(st, z3.And(0 <= i, i < self.seq_len(coll)), "IndexError", "list assignment index")
            return V(self.pre.seqf(coll.ty, "upd")(coll.t, i, self.coerce(v, coll.ty.elem).t), coll.ty)
        raise Unsupported(f"item assignment on {coll.ty}", n)

    def assign_path(self, path: ast.expr, new: V, st: State) -> None:
        """Write `new` back along an lvalue path (value semantics for containers;
        reference semantics for record fields through the heap)."""
        if isinstance(path, ast.Name):
            if path.id not in st.env:
                raise Unsupported(f"mutation of unknown {path.id}", path)
            if path.id in self.param_names and path.id not in self.mutated_params_ok:
                raise Unsupported(f"in-place mutation of parameter {path.id} (value semantics would hide aliasing)", path)
            st.env[path.id] = self.coerce(new, st.env[path.id].ty)
            return
        if isinstance(path, ast.Attribute):
            obj = self.expr(path.value, st)
            if isinstance(obj.ty, RecTy):
                self.note_write(self.heap_key(obj.ty, path.attr), path)
                self.write_field(st, obj, path.attr, new)
                return
        if isinstance(path, ast.Subscript):
            cur = self.expr(path.value, st)
            key = self.expr(path.slice, st)
            self.alias_sites.append(f"{self.cur_func}: nested in-place update through `{ast.unparse(path)}` (line {path.lineno}) modelled by value")
            self.assign_path(path.value, self.updated(cur, key, new, st, path), st)
            return
        raise Unsupported("mutation path", path)

    def note_write(self, hk: str, n: ast.AST) -> None:
        c = self.cur_contract
        if c is not None and hk not in c.modifies:
            raise ContractError(f"{self.cur_func} writes {hk} (line {getattr(n, 'lineno', '?')}) which its contract's `modifies` does not list")

    def mutating_call(self, call: ast.Call, st: State) -> Optional[bool]:
        """xs.append(v) / xs.extend(ys) / s.add(v) / d.update(m) on an lvalue path."""
        f = call.func
        assert isinstance(f, ast.Attribute)
        if f.attr not in ("append", "extend", "add", "update", "remove", "discard", "clear", "pop"):
            return None
        sd = f.value
        if isinstance(sd, ast.Call) and isinstance(sd.func, ast.Attribute) and sd.func.attr == "setdefault" and len(sd.args) == 2 and f.attr in ("append", "add"):
            # d.setdefault(k, default).add(x)  ==  if k not in d: d[k] = default;  d[k].add(x)
            m = self.expr(sd.func.value, st)
            if isinstance(m.ty, MapTy):
                k = self.coerce(self.expr(sd.args[0], st), m.ty.key)
                self.expected_type = m.ty.val
                try:
                    dflt = self.coerce(self.expr(sd.args[1], st), m.ty.val)
                finally:
                    self.expected_type = None
                x = self.expr(call.args[0], st)
                has, get = self.pre.mapf(m.ty, "has"), self.pre.mapf(m.ty, "get")
                cur = V(z3.If(has(m.t, k.t), get(m.t, k.t), dflt.t), m.ty.val)
                if isinstance(m.ty.val, SeqTy) and f.attr == "append":
                    inner = self.seq_app(cur, self.seq_unit(m.ty.val, x))
                elif isinstance(m.ty.val, SetTy) and f.attr == "add":
                    inner = V(self.pre.setf(m.ty.val, "add")(cur.t, self.coerce(x, m.ty.val.elem).t), m.ty.val)
                else:
                    return None
                self._mut_outs = self.flush_raises(st)
                self.assign_path(sd.func.value, V(self.pre.mapf(m.ty, "store")(m.t, k.t, inner.t), m.ty), st)
                return True
        obj = self.expr(f.value, st)
        ty = obj.ty
        args = [self.expr(a, st) for a in call.args]
        if isinstance(ty, SeqTy) and f.attr == "append":
            new = self.seq_app(obj, self.seq_unit(ty, args[0]))
        elif isinstance(ty, SeqTy) and f.attr == "extend":
            new = self.seq_app(obj, self.coerce(self.as_seq(args[0], st), ty))
        elif isinstance(ty, SetTy) and f.attr == "add":
            new = V(self.pre.setf(ty, "add")(obj.t, self.coerce(args[0], ty.elem).t), ty)
        elif isinstance(ty, SetTy) and f.attr in ("remove", "discard"):
            x = self.coerce(args[0], ty.elem)
            if f.attr == "remove":
                self.check(st, self.pre.setf(ty, "mem")(obj.t, x.t), "KeyError", "set.remove of absent element")
            new = V(self.pre.setf(ty, "rem")(obj.t, x.t), ty)
        elif isinstance(ty, MapTy) and f.attr == "update":
            new = self.map_update(obj, self.coerce(args[0], ty), st)
        else:
            return None
        self._mut_outs = self.flush_raises(st)   # an exception while evaluating the receiver / arguments happens before the mutation
        self.assign_path(f.value, new, st)
        return True

    def map_update(self, m: V, other: V, st: State) -> V:
        """d.update(o): fresh map r with the union semantics (o wins), key order:
        keys(d) followed by the keys of o not in d, in o's order."""
        ty = m.ty
        assert isinstance(ty, MapTy)
        upd = self.pre.func(f"mupdate_{ty.name}", self.sort(ty), self.sort(ty), self.sort(ty))
        key = f"mupdate.{ty.name}"
        if key not in self.pre._done:
            self.pre._done.add(key)
            M, K = self.sort(ty), self.sort(ty.key)
            a, b = z3.Consts("a b", M)
            k = z3.Const("k", K)
            has, get = self.pre.mapf(ty, "has"), self.pre.mapf(ty, "get")
            keys = self.pre.mapf(ty, "keys")
            kseq = SeqTy(ty.key)
            kapp = self.pre.seqf(kseq, "app")
            self.pre.ax(f"{key}.has", z3.ForAll([a, b, k], has(upd(a, b), k) == z3.Or(has(a, k), has(b, k)), patterns=[has(upd(a, b), k)]))
            self.pre.ax(f"{key}.get", z3.ForAll([a, b, k], get(upd(a, b), k) == z3.If(has(b, k), get(b, k), get(a, k)), patterns=[get(upd(a, b), k)]))
            # disjoint case: key order is concatenation
            disj = z3.ForAll([k], z3.Not(z3.And(has(a, k), has(b, k))), patterns=[has(a, k), has(b, k)])
            self.pre.ax(f"{key}.keys_disjoint", z3.ForAll([a, b], z3.Implies(disj, keys(upd(a, b)) == kapp(keys(a), keys(b))), patterns=[upd(a, b)]))
            self.trusted_used.add("dict.update: union with right bias; key order = keys(d) ++ keys(o) when disjoint")
        return V(upd(m.t, other.t), ty)

    # control flow -------------------------------------------------------------------
    def s_If(self, s: ast.If, st: State) -> list[Outcome]:
        # isinstance(x, list) narrowing on Optional[list]
        c = self.truthy(self.expr(s.test, st))
        outs = self.flush_raises(st)
        a, b = st.fork(), st.fork()
        tag = f"if{s.lineno - self.func_line}"
        a.pc.append(c)
        a.path = st.path + [tag + "T"]
        b.pc.append(z3.Not(c))
        b.path = st.path + [tag + "F"]
        outs += self.block(s.body, a)
        outs += self.block(s.orelse, b) if s.orelse else [Outcome("normal", b)]
        return outs

    def s_Try(self, s: ast.Try, st: State) -> list[Outcome]:
        if s.finalbody or s.orelse:
            raise Unsupported("try/finally or try/else", s)
        outs: list[Outcome] = []
        for o in self.block(s.body, st):
            if o.kind != "raise":
                outs.append(o)
                continue
            handled = False
            for h in s.handlers:
                names = []
                if h.type is None:
                    names = ["*"]
                elif isinstance(h.type, ast.Tuple):
                    names = [ast.unparse(e) for e in h.type.elts]
                else:
                    names = [ast.unparse(h.type)]
                if "*" in names or o.exc in names or "Exception" in names or any(self.exc_subclass(o.exc, nm) for nm in names):
                    hs = o.st
                    hs.path = [p for p in hs.path] + [f"except:{o.exc}"]
                    if h.name:
                        hs.exc_names[h.name] = o.exc
                    outs += self.block(h.body, hs)
                    handled = True
                    break
            if not handled:
                outs.append(o)
        return outs

    def exc_subclass(self, exc: str, base: str) -> bool:
        table = {"KeyError": "LookupError", "IndexError": "LookupError", "FileNotFoundError": "OSError", "IOError": "OSError",
                 "IntegrityError": "DBAPIError", "OperationalError": "DBAPIError"}
        return table.get(exc) == base or (exc == "IOError" and base == "OSError") or (exc == "OSError" and base == "IOError")

    def loop_spec(self, s: ast.stmt) -> LoopSpec:
        c = self.cur_contract
        ordinal = self.loop_ordinals[id(s)]
        if c is None or ordinal not in c.loops:
            raise ContractError(f"{self.cur_func}: loop #{ordinal} (line {s.lineno}) has no invariant in the sidecar")
        return c.loops[ordinal]

    def assigned_names(self, stmts: list[ast.stmt]) -> set[str]:
        out: set[str] = set()

        def root(e: ast.expr) -> Optional[str]:
            while isinstance(e, (ast.Subscript, ast.Attribute)):
                e = e.value
            return e.id if isinstance(e, ast.Name) else None
        for node in ast.walk(ast.Module(body=stmts, type_ignores=[])):
            if isinstance(node, (ast.Assign, ast.AugAssign, ast.AnnAssign)):
                tgts = node.targets if isinstance(node, ast.Assign) else [node.target]
                for t in tgts:
                    for e in (t.elts if isinstance(t, ast.Tuple) else [t]):
                        if isinstance(e, ast.Name):
                            out.add(e.id)
                        elif isinstance(e, ast.Subscript):
                            r = root(e)
                            if r:
                                out.add(r)
            elif isinstance(node, ast.NamedExpr):
                out.add(node.target.id)
            elif isinstance(node, ast.For):
                for e in (node.target.elts if isinstance(node.target, ast.Tuple) else [node.target]):
                    if isinstance(e, ast.Name):
                        out.add(e.id)
            elif isinstance(node, ast.Call) and isinstance(node.func, ast.Attribute) and node.func.attr in (
                    "append", "extend", "add", "update", "remove", "discard", "clear", "pop"):
                r = root(node.func.value)
                if r:
                    out.add(r)
            elif isinstance(node, (ast.Yield, ast.YieldFrom)):
                out.add("$yielded")
        return out

    def written_heap(self, stmts: list[ast.stmt], _depth: int = 0) -> set[str]:
        """Heap arrays a block may write: every declared `modifies` entry of the
        current contract (coarse but sound: writes outside it are rejected)."""
        c = self.cur_contract
        has_write = False

        def to_field(t: ast.expr) -> bool:
            while isinstance(t, ast.Subscript):
                t = t.value
            return isinstance(t, ast.Attribute)
        for node in ast.walk(ast.Module(body=stmts, type_ignores=[])):
            if isinstance(node, (ast.Assign, ast.AugAssign, ast.AnnAssign)):
                tgts = node.targets if isinstance(node, ast.Assign) else [node.target]
                if any(to_field(e) for t in tgts for e in (t.elts if isinstance(t, ast.Tuple) else [t])):
                    has_write = True
            elif isinstance(node, ast.Call):
                dotted = ast.unparse(node.func)
                if dotted in LOG_CALLS or (isinstance(node.func, ast.Name) and (node.func.id in self.builtins or node.func.id in self.specs
                                                                               or node.func.id in ("all", "any"))):
                    continue
                if isinstance(node.func, ast.Name) and node.func.id in self.contracts and not self.contracts[node.func.id].modifies:
                    continue
                if isinstance(node.func, ast.Name) and node.func.id not in self.contracts and _depth < 3:
                    # a helper that is expanded at the call site (single `return <expr>`): it writes what its expression writes
                    fd = self.find_inlinable(node.func.id)
                    if fd is not None:
                        ret = [x for x in fd.body if isinstance(x, ast.Return)][0]
                        if not self.written_heap([ast.Expr(value=ret.value)], _depth + 1):
                            continue
                if isinstance(node.func, ast.Attribute):
                    if node.func.attr in ("append", "extend", "add", "update", "remove", "discard", "clear", "pop"):
                        if to_field(node.func.value):
                            has_write = True
                        continue
                    cands = [k for k in self.contracts if k.endswith("." + node.func.attr)]
                    if cands and all(not self.contracts[k].modifies for k in cands):
                        continue
                    if not cands and f"dict.{node.func.attr}" in self.methods or f"list.{node.func.attr}" in self.methods or f"set.{node.func.attr}" in self.methods \
                            or f"str.{node.func.attr}" in self.methods:
                        continue
                has_write = True
        return set(c.modifies) if (c and has_write) else set()

    def havoc(self, st: State, names: set[str], heap: set[str]) -> None:
        for nm in sorted(names):
            if nm in st.env:
                st.env[nm] = self.fresh(nm, st.env[nm].ty)
        for hk in sorted(heap):
            rname, fname = hk.split(".")
            rec = self.tenv.records[rname]
            _, srt = self.pre.field(rec, fname)
            st.heap[hk] = self.pre.fresh(f"H.{hk}", srt)

    def s_For(self, s: ast.For, st: State) -> list[Outcome]:
        if s.orelse:
            raise Unsupported("for/else", s)
        spec = self.loop_spec(s)
        ordinal = self.loop_ordinals[id(s)]
        tag = f"loop{ordinal}"
        # the iterated sequence is evaluated once
        itv, idx_mode = self.iter_value(s.iter, st)
        outs = self.flush_raises(st)
        seqname = spec.seq or f"$seq{ordinal}"
        idxname = spec.index or f"$i{ordinal}"
        st.env[seqname] = itv
        n = self.seq_len(itv)
        st.env[idxname] = V(z3.IntVal(0), INT)
        outer_entry = st.loop_entry
        st.loop_entry = st.snapshot()
        # 1. invariants hold on entry
        for h in spec.hints_entry:
            self.hint(st, h, f"{tag}.hint_entry")
        for lab, txt in spec.invariants.items():
            self.emit(st, self.clause(txt, st), f"{tag}.inv.{lab}.entry", text=txt)
        # 2. arbitrary iteration
        mod = self.assigned_names(s.body) | {idxname}
        for e in (s.target.elts if isinstance(s.target, ast.Tuple) else [s.target]):
            if isinstance(e, ast.Name):
                mod.add(e.id)
        heapmod = self.written_heap(s.body)
        it = st.fork()
        self.havoc(it, mod - {seqname}, heapmod)
        i = it.env[idxname].t
        it.pc.append(z3.And(0 <= i, i <= n))
        for lab, txt in spec.invariants.items():
            it.pc.append(self.clause(txt, it))
        # 2a. exit: i == n
        ex = it.fork()
        ex.pc.append(i == n)
        ex.path = st.path + [tag + "X"]
        for h in spec.hints_after:
            self.hint(ex, h, f"{tag}.hint_after")
        # 2b. body
        bd = it.fork()
        bd.pc.append(i < n)
        bd.path = st.path + [tag + "B"]
        elem = self.seq_idx(itv, i)
        for k2, v2 in self.bind_loop_target(s.target, elem, idx_mode, i).items():
            bd.env[k2] = v2
        for h in spec.hints_begin:
            self.hint(bd, h, f"{tag}.hint_begin")
        pre_iter = bd.snapshot()
        after: list[Outcome] = [Outcome("normal", ex)]
        for o in self.block(s.body, bd):
            if o.kind in ("normal", "continue"):
                e2 = o.st
                e2.env["$prev_" + idxname] = V(i, INT)
                for nm in mod:
                    if nm in pre_iter.env:
                        e2.env["$pre_" + nm] = pre_iter.env[nm]
                e2.env[idxname] = V(i + 1, INT)
                for h in spec.hints_end:
                    self.hint(e2, h, f"{tag}.hint")
                for lab, txt in spec.invariants.items():
                    self.emit(e2, self.clause(txt, e2), f"{tag}.inv.{lab}.step", text=txt)
            elif o.kind == "break":
                o.st.path = o.st.path + [tag + "brk"]
                after.append(Outcome("normal", o.st))
            else:
                after.append(o)
        for o in after:
            o.st.loop_entry = outer_entry
        st.loop_entry = outer_entry
        return outs + after

    enum_start: Any = 0

    def bind_loop_target(self, target: ast.expr, elem: V, idx_mode: str, i: Any) -> dict[str, V]:
        if idx_mode == "enumerate":
            assert isinstance(target, ast.Tuple)
            out = self.bind_target(target.elts[0], V(i + self.enum_start, INT))
            out.update(self.bind_target(target.elts[1], elem))
            return out
        return self.bind_target(target, elem)

    def iter_value(self, it: ast.expr, st: State) -> tuple[V, str]:
        if isinstance(it, ast.Call) and isinstance(it.func, ast.Name) and it.func.id == "enumerate":
            start: Any = z3.IntVal(0)
            if len(it.args) > 1:
                start = self.coerce(self.expr(it.args[1], st), INT).t
            for kw in it.keywords:
                if kw.arg != "start":
                    raise Unsupported("enumerate keyword", it)
                start = self.coerce(self.expr(kw.value, st), INT).t
            self.enum_start = start
            return self.as_seq(self.expr(it.args[0], st), st), "enumerate"
        if isinstance(it, ast.Call) and isinstance(it.func, ast.Name) and it.func.id == "range":
            raise Unsupported("for over range (use while)", it)
        v = self.expr(it, st)
        if isinstance(v.ty, SetTy):
            return self.enumerate_set(v, st), "plain"
        return self.as_seq(v, st), "plain"

    def s_While(self, s: ast.While, st: State) -> list[Outcome]:
        """while cond: body   cut at the sidecar's invariants (entry / step / exit).  Partial correctness only: termination
        is not proved (a `decreases` clause is not checked) - stated in the evidence."""
        if s.orelse:
            raise Unsupported("while/else", s)
        spec = self.loop_spec(s)
        ordinal = self.loop_ordinals[id(s)]
        tag = f"loop{ordinal}"
        self.trusted_used.add(f"termination of the while loop #{ordinal} of {self.cur_func} is not proved")
        outer_entry = st.loop_entry
        st.loop_entry = st.snapshot()
        for h in spec.hints_entry:
            self.hint(st, h, f"{tag}.hint_entry")
        for lab, txt in spec.invariants.items():
            self.emit(st, self.clause(txt, st), f"{tag}.inv.{lab}.entry", text=txt)
        mod = self.assigned_names(s.body)
        heapmod = self.written_heap(s.body)
        it = st.fork()
        mod = mod | {x.target.id for x in ast.walk(s.test) if isinstance(x, ast.NamedExpr)}
        self.havoc(it, mod, heapmod)
        for lab, txt in spec.invariants.items():
            it.pc.append(self.clause(txt, it))
        self.pending_raises = []
        c = self.truthy(self.expr(s.test, it))
        outs = self.flush_raises(it)
        ex = it.fork()
        ex.pc.append(z3.Not(c))
        ex.path = st.path + [tag + "X"]
        for h in spec.hints_after:
            self.hint(ex, h, f"{tag}.hint_after")
        bd = it.fork()
        bd.pc.append(c)
        bd.path = st.path + [tag + "B"]
        for h in spec.hints_begin:
            self.hint(bd, h, f"{tag}.hint_begin")
        after: list[Outcome] = [Outcome("normal", ex)]
        for o in self.block(s.body, bd):
            if o.kind in ("normal", "continue"):
                e2 = o.st
                for h in spec.hints_end:
                    self.hint(e2, h, f"{tag}.hint")
                for lab, txt in spec.invariants.items():
                    self.emit(e2, self.clause(txt, e2), f"{tag}.inv.{lab}.step", text=txt)
            elif o.kind == "break":
                o.st.path = o.st.path + [tag + "brk"]
                for h in spec.hints_after:
                    self.hint(o.st, h, f"{tag}.hint_after")
                after.append(Outcome("normal", o.st))
            else:
                after.append(o)
        for o in after:
            o.st.loop_entry = outer_entry
        st.loop_entry = outer_entry
        return outs + after

    def s_With(self, s: ast.With, st: State) -> list[Outcome]:
        """`with <external object> as name:`  - the context manager of an external library handle (a DB session, ...): entering and
        leaving it is trusted to have no effect on the verified state; the body is executed normally."""
        for item in s.items:
            ce = item.context_expr
            if isinstance(ce, ast.Call) and isinstance(ce.func, ast.Name) and ce.func.id == "open" and "open" in self.builtins:
                # a file of the modelled file system (pyvc/fsmodel.py): the handle stands for the path
                if item.optional_vars is None or not isinstance(item.optional_vars, ast.Name):
                    raise Unsupported("with open(...) without `as name`", s)
                h = self.expr(ce, st)
                outs = self.flush_raises(st)
                st.env[item.optional_vars.id] = h
                if len(s.items) != 1:
                    raise Unsupported("with open(...) together with other context managers", s)
                return outs + self.block(s.body, st)
            cm = None
            try:
                if not (isinstance(ce, ast.Call)) and self.external_root(ce) is None:
                    cm = self.expr(ce, st)
            except Unsupported:
                cm = None
            if cm is not None and isinstance(cm.ty, RecTy) and f"{cm.ty.name}.__exit__" in self.contracts:
                # a context manager under contract: __enter__ returns the object (trusted: DataHolder.__enter__ is `return self`);
                # on normal completion of the body __exit__(None, None, None) runs; an exception leaves through __exit__ re-raising it
                if len(s.items) != 1:
                    raise Unsupported("several context managers", s)
                if item.optional_vars is not None:
                    if not isinstance(item.optional_vars, ast.Name):
                        raise Unsupported("with ... as <pattern>", s)
                    st.env[item.optional_vars.id] = cm
                self.trusted_used.add(f"{self.cur_func}: `with {ast.unparse(ce)}`: __enter__ returns the object; __exit__(None, None, None) runs on normal exit")
                exit_c = self.contracts[f"{cm.ty.name}.__exit__"]
                outs2: list[Outcome] = []
                for o in self.block(s.body, st):
                    if o.kind != "normal":
                        outs2.append(o)
                        continue
                    params, rty = self.func_sigs[exit_c.name]
                    args = {params[0][0]: cm}
                    for pn, pty in params[1:]:
                        args[pn] = self.coerce(V(self.pre.none_val, NONE), pty)
                    self.pending_raises = []
                    self.apply_contract(exit_c, args, rty, o.st, s)
                    outs2 += self.flush_raises(o.st)
                    outs2.append(o)
                return outs2
            if self.external_root(item.context_expr) is None and not (isinstance(item.context_expr, ast.Attribute) and
                                                                      item.context_expr.attr in (self.cur_contract.externals if self.cur_contract else [])):
                raise Unsupported("with statement over a non-external object", s)
            if item.optional_vars is not None:
                if not isinstance(item.optional_vars, ast.Name):
                    raise Unsupported("with ... as <pattern>", s)
                st.env[item.optional_vars.id] = self.fresh("ext", ANY)
        self.trusted_used.add(f"{self.cur_func}: entering / leaving the context manager at line {s.lineno - self.func_line} (relative) has no effect on the verified state")
        return self.block(s.body, st)

    def apply_ghost_effects(self, s: ast.stmt, st: State) -> None:
        c = self.cur_contract
        if c is None or not c.ghost_effects:
            return
        text = ast.unparse(s)
        for ge in c.ghost_effects:
            if text.startswith(ge["after"]):
                ge["_used"] = True
                pre = st.snapshot()
                for hk in ge.get("modifies", []):
                    self.note_write(hk, s)
                    rname, fname = hk.split(".")
                    rec = self.tenv.records[rname]
                    _, srt = self.pre.field(rec, fname)
                    st.heap[hk] = self.pre.fresh(f"H.{hk}", srt)
                post = st.fork()
                post.old = pre
                post.pc = st.pc
                for lab, txt in ge.get("ensures", {}).items():
                    self.assume(st, self.clause(txt, post))
                self.trusted_used.add(f"{self.cur_func}: ghost effect assumed after `{ge['after']}`: {list(ge.get('ensures', {}).values())}")

    # ================================================================= functions
    def load_source(self, path: str, relpath: str) -> None:
        src = open(path, encoding="utf-8").read()
        self.sources[relpath] = (src, ast.parse(src))

    def find_function(self, relpath: str, qualname: str, decorator: str = "") -> ast.FunctionDef:
        _, mod = self.sources[relpath]
        parts = qualname.split(".")
        body: list[ast.stmt] = mod.body
        node: Any = None
        for i, p in enumerate(parts):
            cands = [d for d in body if isinstance(d, (ast.FunctionDef, ast.ClassDef)) and d.name == p]
            if i == len(parts) - 1:
                want = decorator or None
                cands2 = []
                for d in cands:
                    decs = [ast.unparse(x) for x in getattr(d, "decorator_list", [])]
                    if want is None and not any(x.endswith(".setter") for x in decs):
                        cands2.append(d)
                    elif want is not None and want in decs:
                        cands2.append(d)
                cands = cands2
            if not cands:
                raise ContractError(f"{relpath}: {qualname} not found")
            node = cands[0]
            body = node.body
        if not isinstance(node, ast.FunctionDef):
            raise ContractError(f"{qualname} is not a function")
        return node

    def bind_signature(self, relpath: str, c: Contract, cls: Optional[str] = None) -> Any:
        if c.external:
            if not c.trusted:
                raise ContractError(f"{c.name}: an external function can only have a trusted contract")
            self.func_sigs[c.name] = ([(p, self.tenv.parse(t)) for p, t in c.params.items()], self.tenv.parse(c.returns) if c.returns else NONE)
            self.func_defaults[c.name] = {}
            return None
        fd = self.find_function(relpath, c.source_name or c.name, c.decorator)
        # a decorator replaces the function: only the ones that leave its behaviour as written are accepted (a cache, a retry wrapper,
        # a validator ... would make the verified body something other than what runs)
        for dec in fd.decorator_list:
            dtxt = ast.unparse(dec)
            if not (dtxt in ("staticmethod", "classmethod", "property", "abstractmethod", "abc.abstractmethod", "override", "typing.override")
                    or dtxt.endswith(".setter") or dtxt.endswith(".getter")):
                raise ContractError(f"{c.name}: decorator @{dtxt} is not modelled (the body under contract is not what runs)")
        params: list[tuple[str, Ty]] = []
        defaults: dict[str, ast.expr] = {}
        args = fd.args.args
        dflt = [None] * (len(args) - len(fd.args.defaults)) + list(fd.args.defaults)
        for a, d in zip(args, dflt):
            if a.arg in c.params:
                ty = self.tenv.parse(c.params[a.arg])
            elif a.arg == "self" and "." in (c.source_name or c.name):
                ty = self.tenv.records[(c.source_name or c.name).split(".")[0]]
            elif a.annotation is not None:
                ty = self.tenv.parse(a.annotation)
            else:
                raise ContractError(f"{c.name}: parameter {a.arg} has no annotation")
            params.append((a.arg, ty))
            if d is not None:
                defaults[a.arg] = d
        if c.returns:
            rty = self.tenv.parse(c.returns)
        elif fd.returns is not None:
            rty = self.tenv.parse(fd.returns)
        else:
            rty = NONE
        self.func_sigs[c.name] = (params, rty)
        self.func_defaults[c.name] = defaults
        return fd

    def verify_function(self, relpath: str, c: Contract, only_split: Optional[str] = None) -> dict[str, Any]:
        """Generate all VCs of one function.  Returns a record for the evidence."""
        fd = self.bind_signature(relpath, c)
        if fd is None:
            self.trusted_used.add(f"contract of external function {c.name} (assumed)")
            return {"function": c.name, "file": "(external)", "trusted": True}
        src, _ = self.sources[relpath]
        seg = ast.get_source_segment(src, fd) or ""
        info: dict[str, Any] = {"function": c.name, "file": relpath, "sha256": hashlib.sha256(seg.encode()).hexdigest(),
                                "lines": [fd.lineno, fd.end_lineno], "statements": sum(isinstance(x, ast.stmt) for x in ast.walk(fd)) - 1}
        if c.trusted:
            info["trusted"] = True
            if c.pure:
                self.add_pure_axiom(c)
            return info
        self.cur_func = c.name
        self.cur_contract = c
        self.cur_relpath = relpath
        self.aux_facts = []
        self.func_line = fd.lineno
        self.loop_ordinals = {}
        k = 0
        for node in ast.walk(fd):
            if isinstance(node, (ast.For, ast.While)):
                self.loop_ordinals[id(node)] = k
                k += 1
        for ordinal in c.loops:
            if ordinal >= k:
                raise ContractError(f"{c.name}: sidecar has invariants for loop #{ordinal} but the code has {k} loop(s)")
        params, rty = self.func_sigs[c.name]
        self.param_names = {p for p, _ in params}
        self.mutated_params_ok = set(getattr(c, "mutable_params", []) or [])
        self.local_types = {k2: self.tenv.parse(v2) for k2, v2 in c.locals.items()}
        n_before = len(self.vcs)
        splits = c.splits or {"": "True"}
        if only_split is not None:
            splits = {only_split: splits[only_split]}
        elif len(splits) > 1 and getattr(self, "parallel_splits", True):
            self.verify_splits_parallel(relpath, c, list(splits))
            splits = {}
        for slabel, stext in splits.items():
            st = State()
            self.cur_inputs = {}
            for p, ty in params:
                v = V(z3.Const(f"in.{p}", self.sort(ty)), ty)
                st.env[p] = v
                self.cur_inputs[p] = f"in.{p}"
            for lab, txt in c.requires.items():
                st.pc.append(self.clause(txt, st))
            for wn, wtxt in c.witness.items():
                wv = self.term(wtxt, st)
                wc = z3.Const(f"wit.{wn}", wv.t.sort())
                st.pc.append(wc == wv.t)
                self.cur_inputs[f"wit.{wn}"] = f"wit.{wn}"
            if slabel:
                st.pc.append(self.clause(stext, st))
                st.path = [f"split:{slabel}"]
            if c.generator:
                st.env["$yielded"] = self.seq_empty(rty)  # type: ignore[arg-type]
            if c.pure and c.decreases:
                # induction hypothesis of a recursive pure function: its contract holds for all arguments of smaller measure
                # (needed where the recursive calls sit inside a comprehension, i.e. are not individual call sites)
                ist = State()
                bvs = []
                for p, ty in params:
                    bv = z3.Const(f"ih.{p}", self.sort(ty))
                    bvs.append(bv)
                    ist.env[p] = V(bv, ty)
                ireqs = [self.clause(t, ist) for t in c.requires.values()]
                ires = self.pure_app(c, {p: ist.env[p] for p, _ in params}, rty)
                ipost = ist.fork()
                ipost.env["result"] = ires
                ipost.old = ist.snapshot()
                iens = [self.clause(t, ipost) for t in c.ensures.values()]
                m_i = self.coerce(self.term(c.decreases, ist), INT).t
                m_c = self.coerce(self.term(c.decreases, st), INT).t
                if iens:
                    st.pc.append(z3.ForAll(bvs, z3.Implies(z3.And(*ireqs, 0 <= m_i, m_i < m_c), z3.And(*iens)), patterns=[ires.t]))
            st.old = st.snapshot()
            outcomes = self.block(fd.body, st)
            for o in outcomes:
                self.finish_path(c, o, rty)
        info["vcs"] = len(self.vcs) - n_before
        for ge in c.ghost_effects:
            if not ge.get("_used"):
                raise ContractError(f"{c.name}: no statement starts with `{ge['after']}` (ghost effect cannot be bound)")
        self.cur_contract = None
        if c.pure:
            self.add_pure_axiom(c)
        return info

    def verify_splits_parallel(self, relpath: str, c: Contract, labels: list[str]) -> None:
        """Each case of a precondition split is an independent symbolic execution:
        run them in forked children and collect their VC texts."""
        import multiprocessing as mp
        global _SPLIT_JOB
        _SPLIT_JOB = (self, relpath, c)
        ctx = mp.get_context("fork")
        with ctx.Pool(min(len(labels), 16)) as pool:
            for vcs, trusted, dropped in pool.map(_run_split, labels, chunksize=1):
                self.vcs.extend(vcs)
                self.trusted_used |= trusted
                for d in dropped:
                    if d not in self.dropped:
                        self.dropped.append(d)

    def add_pure_axiom(self, c: Contract) -> None:
        """A pure function under contract doubles as a spec symbol fn(args):
        forall args. requires ==> ensures[result := fn(args)]."""
        params, rty = self.func_sigs[c.name]
        st = State()
        bvs = []
        for p, ty in params:
            bv = z3.Const(f"ax.{p}", self.sort(ty))
            bvs.append(bv)
            st.env[p] = V(bv, ty)
        saved_fr = getattr(self, "fields_read", None)
        self.fields_read = set()
        try:
            reqs = [self.clause(t, st) for t in c.requires.values()]
            res = self.pure_app(c, {p: st.env[p] for p, _ in params}, rty)
            post = st.fork()
            post.env["result"] = res
            post.old = st.snapshot()
            ens = [self.clause(t, post) for t in c.ensures.values()]
            # a "pure" function whose contract reads mutable fields is a function of its arguments *and of those fields*: its
            # symbol may only be used where they cannot change (checked in pure_app)
            c.heap_reads = {f"{rec.name}.{f}" for (rec, f) in self.fields_read if f in rec.mutable}  # type: ignore[attr-defined]
        finally:
            self.fields_read = saved_fr
        if not ens:
            return
        body = z3.Implies(z3.And(*reqs), z3.And(*ens)) if reqs else z3.And(*ens)
        self.lemma_axioms.append((f"pure.{c.name}", z3.ForAll(bvs, body, patterns=[res.t])))

    def finish_path(self, c: Contract, o: Outcome, rty: Ty) -> None:
        st = o.st
        if o.kind in ("break", "continue"):
            raise Unsupported("break/continue outside loop")
        pre = st.old
        assert pre is not None
        if o.kind == "raise":
            if o.exc in c.raises:
                pst = st.fork()
                pst.env = dict(pre.env)
                pst.heap = dict(pre.heap)
                cond = self.clause(c.raises[o.exc], pst)
                self.emit(st, cond, f"raises.{o.exc}.only_when", text=c.raises[o.exc])
                # callers assume that a declared exception leaves the state as it was: prove it for every field this function may write
                for hk in (c.modifies if c.atomic_raises else []):
                    rname, fname = hk.split(".")
                    rec = self.tenv.records[rname]
                    now, before = self.heap_arr(st, rec, fname), self.heap_arr(pre, rec, fname)
                    if not now.eq(before):
                        r = z3.Const(f"fr${self.site()}", self.sort(rec))
                        self.emit(st, z3.ForAll([r], z3.Select(now, r) == z3.Select(before, r)), f"raises.{o.exc}.state_unchanged.{fname}",
                                  text=f"{hk} is unchanged when {o.exc} is raised")
            else:
                what = getattr(o, "what", "")
                self.emit(st, z3.BoolVal(False), f"no_raise.{o.exc}", text=f"path raising {o.exc} {what} must be infeasible")
                return
            self.emit(st, z3.BoolVal(False), "cover", kind="cover")
            return
        # normal termination
        if c.generator:
            res = st.env["$yielded"]
        elif o.kind == "return" and o.value is not None:
            res = self.coerce(o.value, rty)
        else:
            res = self.coerce(V(self.pre.none_val, NONE), rty) if rty != NONE else V(self.pre.none_val, NONE)
        post = st.fork()
        # parameters keep their entry values in postconditions unless reassigned containers (value semantics):
        post.env = dict(st.env)
        for p in self.param_names:
            if p not in self.mutated_params_ok:
                post.env[p] = pre.env[p]
        post.env["result"] = res
        post.old = pre
        if c.pure:
            params, _ = self.func_sigs[c.name]
            sym = self.pure_app(c, {p: pre.env[p] for p, _ in params}, rty)
            post.pc.append(sym.t == res.t)
        for h in c.hints:
            self.hint(post, h, "hint")
        for exc, txt in c.raises.items():
            pst = post.fork()
            pst.env = dict(pre.env)
            pst.heap = dict(pre.heap)
            self.emit(post, z3.Not(self.clause(txt, pst)), f"raises.{exc}.whenever", text=f"not ({txt})")
        for lab, txt in c.ensures.items():
            self.emit(post, self.clause(txt, post), f"ensures.{lab}", text=txt)
        self.emit(post, z3.BoolVal(False), "cover", kind="cover")

    def hint(self, st: State, text: str, label: str) -> None:
        """A hint is either a fact (proved here, then assumed) or `use lemma(args)`:
        an explicit instance of a lemma proved elsewhere - its `requires` are
        obligations at this point, its `ensures` instance is assumed."""
        t = text.strip()
        if not t.startswith("use "):
            self.prove_then_assume(st, self.clause(t, st), label, text=t)
            return
        call = ast.parse(t[4:].strip(), mode="eval").body
        guard = None
        if isinstance(call, ast.IfExp):  # use lemma(args) if cond else True
            guard = self.clause(ast.unparse(call.test), st)
            call = call.body
        if not (isinstance(call, ast.Call) and isinstance(call.func, ast.Name) and call.func.id in self.lemma_defs):
            raise ContractError(f"`{t}`: not a call of a known lemma")
        lem = self.lemma_defs[call.func.id]
        names = list(lem.forall)
        if len(call.args) != len(names):
            raise ContractError(f"`{t}`: lemma {lem.name} takes {len(names)} arguments")
        saved = self.mode_spec
        self.mode_spec = True
        try:
            st2 = st.fork()
            st2.old = st.old
            vals = [self.coerce(self.expr(a, st2), self.tenv.parse(lem.forall[nm])) for a, nm in zip(call.args, names)]
        finally:
            self.mode_spec = saved
        inst = State()
        inst.env = dict(zip(names, vals))
        inst.heap = dict(st.heap)
        inst.pc = st.pc
        if guard is not None:
            gst = st.fork()
            gst.pc.append(guard)
            inst.pc = gst.pc
            self._use_body(gst, inst, lem, label, t)
            self.assume(st, z3.Implies(guard, self.clause(lem.ensures, inst)))
            return
        self._use_body(st, inst, lem, label, t)
        self.assume(st, self.clause(lem.ensures, inst))

    def _use_body(self, st: State, inst: State, lem: Lemma, label: str, t: str) -> None:
        if getattr(self, "cur_lemma", None) is lem:
            # recursive use inside the lemma's own proof: the measure must decrease (well-founded induction)
            mtxt = lem.measure or (f"len({lem.induction})" if lem.induction else "")
            if not mtxt:
                raise ContractError(f"`{t}`: recursive use of lemma {lem.name} needs `induction` or `measure`")
            m_inst = self.term(mtxt, inst).t
            m_cur = self.term(mtxt, self.cur_lemma_state).t
            self.emit(st, z3.And(0 <= m_inst, m_inst < m_cur), f"{label}.use:{lem.name}.decreases", text=f"{mtxt} decreases")
        for r in lem.requires:
            self.emit(st, self.clause(r, inst), f"{label}.use:{lem.name}.requires", text=r)

    # ==================================================================== lemmas
    def prove_lemma(self, lem: Lemma) -> None:
        self.lemma_defs[lem.name] = lem
        """Emit the VCs of a lemma (optionally by induction) and register it as an axiom."""
        self.cur_func = f"lemma:{lem.name}"
        self.cur_contract = None
        self.aux_facts = []
        self.cur_hide = list(lem.hide)
        self.cur_prelude = list(lem.prelude)
        self.cur_inputs = {}
        st = State()
        bvs = []
        tys = {}
        for nm, ann in lem.forall.items():
            ty = self.tenv.parse(ann)
            c = z3.Const(f"lem.{nm}", self.sort(ty))
            st.env[nm] = V(c, ty)
            bvs.append(c)
            tys[nm] = ty
        self.cur_lemma = lem
        self.cur_lemma_state = st.fork()
        reqs = [self.clause(r, st) for r in lem.requires]
        goal = self.clause(lem.ensures, st)
        stmt = z3.Implies(z3.And(*reqs), goal) if reqs else goal
        # the quantified statement
        qvs = [z3.Const(f"q.{nm}", self.sort(tys[nm])) for nm in lem.forall]
        qst = State()
        for nm, qv in zip(lem.forall, qvs):
            qst.env[nm] = V(qv, tys[nm])
        qreqs = [self.clause(r, qst) for r in lem.requires]
        qgoal = self.clause(lem.ensures, qst)
        qbody = z3.Implies(z3.And(*qreqs), qgoal) if qreqs else qgoal
        pats = []
        self.trigger_mode = True
        try:
            for tr in lem.triggers:
                node = ast.parse(tr, mode="eval").body
                if isinstance(node, ast.Tuple):
                    terms = [self.term(ast.unparse(e), qst).t for e in node.elts]
                    pats.append(z3.MultiPattern(*terms))
                else:
                    pats.append(self.term(tr, qst).t)
        finally:
            self.trigger_mode = False
        axiom = z3.ForAll(qvs, qbody, patterns=pats) if pats else z3.ForAll(qvs, qbody)
        if not lem.trusted:
            st.pc += reqs
            if lem.induction or lem.measure:
                # induction hypothesis: the statement for all smaller instances
                mtxt = lem.measure or f"len({lem.induction})"
                m_cur = self.term(mtxt, st).t
                m_q = self.term(mtxt, qst).t
                ih = z3.ForAll(qvs, z3.Implies(z3.And(0 <= m_q, m_q < m_cur), qbody), patterns=pats) if pats else \
                    z3.ForAll(qvs, z3.Implies(z3.And(0 <= m_q, m_q < m_cur), qbody))
                st.pc.append(ih)
            if lem.cases:
                cs = [self.clause(ctext, st) for ctext in lem.cases]
                self.emit(st, z3.Or(*cs), "cases_exhaustive")
                for ci, (ctext, cf) in enumerate(zip(lem.cases, cs)):
                    s2 = st.fork()
                    s2.pc.append(cf)
                    s2.path = [f"case{ci}"]
                    for h in lem.hints:
                        self.hint(s2, h, "hint")
                    self.emit(s2, goal, "ensures", text=lem.ensures)
            else:
                for h in lem.hints:
                    self.hint(st, h, "hint")
                self.emit(st, goal, "ensures", text=lem.ensures)
            self.emit(st, z3.BoolVal(False), "cover", kind="cover")
        else:
            self.trusted_used.add(f"lemma {lem.name} (assumed)")
        self.cur_hide = None
        self.cur_prelude = None
        self.cur_lemma = None
        if lem.explicit:
            return  # instantiated only through `use lemma(args)` hints
        self.lemma_axioms.append((f"lemma.{lem.name}", T.name_quantifier(axiom, f"lemma.{lem.name}")))

    sources: dict[str, tuple[str, ast.Module]] = {}
    lemma_defs: dict[str, Lemma] = {}
    local_types: dict[str, Ty] = {}
    param_names: set[str] = set()
    mutated_params_ok: set[str] = set()
    loop_ordinals: dict[int, int] = {}
    func_line = 0
