"""C10 (proved part) - the de-duplication logic of a flush, under a ghost store.

Functions under contract (real source re-read on every run),
tel2puml/otel_to_pv/data_holders/sql_data_holder/sql_dataholder.py:
  SQLDataHolder._update_node_relations_from_node, .check_and_filter_non_unique_nodes_and_associations,
  .commit_batched_data_to_database, .commit_batched_unique_data_to_database

The database is a *ghost store* on the holder: g_nodes (span id -> stored row) and g_assoc (set of (parent, child)).
Three DB primitives get **trusted** contracts over it (each is validated on real sqlite by the bounded store harness):
  batch_insert_node_models        all-or-nothing; IntegrityError iff an id repeats in the batch or is already stored
  batch_insert_node_associations  all-or-nothing; IntegrityError iff a pair repeats or is already stored
  get_event_ids_existing_in_db    = ids /\\ dom(g_nodes)
What is proved: a flush of a batch B on a well-formed store never fails, stores exactly the first occurrence of every id
of B that is not yet stored (the stored rows of other ids untouched), adds exactly the parent links of the rows it
stored, empties the batch and keeps the store well-formed - for every batch, with no bound on its length.
"""
MODULE = "tel2puml/otel_to_pv/data_holders/sql_data_holder/sql_dataholder.py"
FILES = {"": MODULE, "DataHolder.__exit__": "tel2puml/otel_to_pv/data_holders/base.py", "SQLDataHolder.save_data": "tel2puml/otel_to_pv/data_holders/base.py",
         "IngestData.load_to_data_holder": "tel2puml/otel_to_pv/ingest_otel_data.py"}
BASES = {"SQLDataHolder": "DataHolder"}

KW_CTOR = ["NodeModel"]
RECORDS = {
    "OTelEvent": {"fields": {"job_name": "str", "job_id": "str", "event_type": "str", "event_id": "str", "start_timestamp": "int",
                             "end_timestamp": "int", "application_name": "str", "parent_event_id": "Optional[str]",
                             "child_event_ids": "Optional[list[str]]"}},
    "NodeModel": {"fields": {"job_name": "str", "job_id": "str", "event_type": "str", "event_id": "str", "start_timestamp": "int",
                             "end_timestamp": "int", "application_name": "str", "parent_event_id": "Optional[str]"}},
    "Session": {"fields": {}},
    "SQLDataHolder": {
        "fields": {"node_models_to_save": "list[NodeModel]", "node_relationships_to_save": "list[dict[str, str]]", "batch_size": "int",
                   "session": "Session", "g_nodes": "dict[str, NodeModel]", "g_assoc": "set[tuple[str, str]]",
                   "_min_timestamp": "int", "_max_timestamp": "int"},
        "mutable": ["node_models_to_save", "node_relationships_to_save", "g_nodes", "g_assoc", "_min_timestamp", "_max_timestamp"],
    },
    # the data source is modelled by the list of spans it yields
    "IngestData": {"fields": {"data_holder": "SQLDataHolder", "data_source": "list[OTelEvent]"}},
}

SPECS = '''
def rels(xs: list[NodeModel]) -> list[dict[str, str]]:
    return [{"parent_id": n.parent_event_id, "child_id": n.event_id} for n in xs if n.parent_event_id is not None]

def distinct_ids(xs: list[NodeModel]) -> bool:
    return all(xs[a].event_id != xs[b].event_id for a in range(len(xs)) for b in range(a + 1, len(xs)))

def first_new(evs: list[OTelEvent], q: int, N0: dict[str, NodeModel]) -> bool:
    return evs[q].event_id not in N0 and all(evs[r].event_id != evs[q].event_id for r in range(q))

def link_of(e: OTelEvent, a: str, c: str) -> bool:
    return c == e.event_id and e.parent_event_id is not None and e.parent_event_id != '' and a == e.parent_event_id

def is_first(xs: list[NodeModel], p: int) -> bool:
    return all(xs[q].event_id != xs[p].event_id for q in range(p))

def row_of(n: NodeModel, e: OTelEvent) -> bool:
    return (n.job_name == e.job_name and n.job_id == e.job_id and n.event_type == e.event_type and n.event_id == e.event_id
            and n.start_timestamp == e.start_timestamp and n.end_timestamp == e.end_timestamp and n.application_name == e.application_name
            and n.parent_event_id == (e.parent_event_id if e.parent_event_id is not None and e.parent_event_id != '' else None))
'''


def WF(h):
    """W1: every association row's child is a stored span with that parent; stored rows are keyed by their id"""
    return (f"forall(lambda p, c: implies((p, c) in {h}.g_assoc, c in {h}.g_nodes and {h}.g_nodes[c].parent_event_id is not None "
            f"and {h}.g_nodes[c].parent_event_id == p), 'str', 'str') "
            f"and forall(lambda k: implies(k in {h}.g_nodes, {h}.g_nodes[k].event_id == k), 'str')")


def BI(h):
    """the pending relationships are exactly the parent links of the pending rows"""
    return f"{h}.node_relationships_to_save == rels({h}.node_models_to_save)"


def STORED(h, batch, old_nodes, old_assoc):
    """effect of a flush of `batch` (the pending rows at entry)"""
    return {
        "keys": f"forall(lambda k: (k in {h}.g_nodes) == (k in {old_nodes} or any({batch}[p].event_id == k for p in range(len({batch})))), 'str')",
        "old_rows_untouched": f"forall(lambda k: implies(k in {old_nodes}, {h}.g_nodes[k] is {old_nodes}[k]), 'str')",
        # "exactly one record per distinct span id - the first occurrence seen"
        "first_occurrence": f"all(implies(is_first({batch}, p) and {batch}[p].event_id not in {old_nodes}, "
                            f"{h}.g_nodes[{batch}[p].event_id] is {batch}[p]) for p in range(len({batch})))",
        # "... together with its parent link", and no other link
        "links": f"forall(lambda a, c: ((a, c) in {h}.g_assoc) == ((a, c) in {old_assoc} or any(is_first({batch}, p) and {batch}[p].event_id not in {old_nodes} "
                 f"and {batch}[p].event_id == c and {batch}[p].parent_event_id is not None and {batch}[p].parent_event_id == a "
                 f"for p in range(len({batch})))), 'str', 'str')",
        "batch_emptied": f"len({h}.node_models_to_save) == 0 and len({h}.node_relationships_to_save) == 0",
        "wf": WF(h),
    }


# ---- the *virtual store*: what the store will hold once the pending batch is flushed (stored rows, then the first occurrence of
# every pending id that is not stored).  Ingestion is specified on it: saving a span extends it by that span iff its id is new.
def VKEY(h, k, old=False):
    w = (lambda t: f"old({t})") if old else (lambda t: t)
    return f"({k} in {w(h + '.g_nodes')} or any({w(h + '.node_models_to_save')}[vp].event_id == {k} for vp in range(len({w(h + '.node_models_to_save')}))))"


def VROW(h, k, n, old=False):
    w = (lambda t: f"old({t})") if old else (lambda t: t)
    N, P = w(h + ".g_nodes"), w(h + ".node_models_to_save")
    return (f"(({k} in {N} and {n} is {N}[{k}]) or ({k} not in {N} and any(is_first({P}, vq) and {P}[vq].event_id == {k} and {n} is {P}[vq] "
            f"for vq in range(len({P})))))")


def VASSOC(h, a, c, old=False):
    w = (lambda t: f"old({t})") if old else (lambda t: t)
    N, P, A = w(h + ".g_nodes"), w(h + ".node_models_to_save"), w(h + ".g_assoc")
    return (f"(({a}, {c}) in {A} or any(is_first({P}, vr) and {P}[vr].event_id not in {N} and {P}[vr].event_id == {c} "
            f"and {P}[vr].parent_event_id is not None and {P}[vr].parent_event_id == {a} for vr in range(len({P}))))")


ALLM = ["SQLDataHolder.node_models_to_save", "SQLDataHolder.node_relationships_to_save", "SQLDataHolder.g_nodes", "SQLDataHolder.g_assoc"]
B0 = "old(self.node_models_to_save)"
N0 = "old(self.g_nodes)"
A0 = "old(self.g_assoc)"

CONTRACTS = {
    # ------------------------------------------------------------------ trusted DB primitives over the ghost store
    "Session.rollback": {"trusted": True, "external": True, "params": {"self": "Session"}, "ensures": {}},
    "SQLDataHolder.batch_insert_node_models": {
        "trusted": True, "modifies": ["SQLDataHolder.g_nodes"],
        "raises": {"IntegrityError": "not distinct_ids(self.node_models_to_save) or any(n.event_id in self.g_nodes for n in self.node_models_to_save)"},
        "ensures": {
            "keys": "forall(lambda k: (k in self.g_nodes) == (k in old(self.g_nodes) or any(n.event_id == k for n in self.node_models_to_save)), 'str')",
            "old": "forall(lambda k: implies(k in old(self.g_nodes), self.g_nodes[k] is old(self.g_nodes)[k]), 'str')",
            "new": "all(self.g_nodes[self.node_models_to_save[p].event_id] is self.node_models_to_save[p] for p in range(len(self.node_models_to_save)))",
        },
    },
    "SQLDataHolder.batch_insert_node_associations": {
        "trusted": True, "modifies": ["SQLDataHolder.g_assoc"],
        "raises": {"IntegrityError": "any((r['parent_id'], r['child_id']) in self.g_assoc for r in self.node_relationships_to_save) or "
                                     "any(self.node_relationships_to_save[a]['parent_id'] == self.node_relationships_to_save[b]['parent_id'] and "
                                     "self.node_relationships_to_save[a]['child_id'] == self.node_relationships_to_save[b]['child_id'] "
                                     "for a in range(len(self.node_relationships_to_save)) for b in range(a + 1, len(self.node_relationships_to_save)))"},
        "ensures": {
            "pairs": "forall(lambda a, c: ((a, c) in self.g_assoc) == ((a, c) in old(self.g_assoc) or any(r['parent_id'] == a and r['child_id'] == c "
                     "for r in self.node_relationships_to_save)), 'str', 'str')",
        },
    },
    "SQLDataHolder.get_event_ids_existing_in_db": {
        "trusted": True, "params": {"event_ids_to_check": "list[str]"},
        "ensures": {"exactly": "forall(lambda x: (x in result) == (x in event_ids_to_check and x in self.g_nodes), 'str')"},
    },
    # ------------------------------------------------------------------ verified
    "SQLDataHolder._update_node_relations_from_node": {
        "modifies": ["SQLDataHolder.node_relationships_to_save"],
        "ensures": {
            "appended": "self.node_relationships_to_save == old(self.node_relationships_to_save) + rels([node])",
            "frame": "forall(lambda h: h is self or h.node_relationships_to_save == old(h.node_relationships_to_save), 'SQLDataHolder')",
        },
    },
    "SQLDataHolder.commit_batched_data_to_database": {
        "modifies": ALLM, "atomic_raises": True,
        "requires": {"wf": WF("self"), "pending": BI("self")},
        # fails exactly when the batch contains a duplicate or an already stored id; nothing is stored then
        "raises": {"IntegrityError": "not distinct_ids(self.node_models_to_save) or any(n.event_id in self.g_nodes for n in self.node_models_to_save)"},
        "ensures": {
            "keys": "forall(lambda k: (k in self.g_nodes) == (k in old(self.g_nodes) or any(n.event_id == k for n in old(self.node_models_to_save))), 'str')",
            "old": "forall(lambda k: implies(k in old(self.g_nodes), self.g_nodes[k] is old(self.g_nodes)[k]), 'str')",
            "new": "all(self.g_nodes[old(self.node_models_to_save)[p].event_id] is old(self.node_models_to_save)[p] for p in range(len(old(self.node_models_to_save))))",
            "pairs": "forall(lambda a, c: ((a, c) in self.g_assoc) == ((a, c) in old(self.g_assoc) or any(r['parent_id'] == a and r['child_id'] == c "
                     "for r in old(self.node_relationships_to_save))), 'str', 'str')",
            "batch_emptied": "len(self.node_models_to_save) == 0 and len(self.node_relationships_to_save) == 0",
            "wf": WF("self"),
        },
    },
    "SQLDataHolder.check_and_filter_non_unique_nodes_and_associations": {
        "modifies": ALLM,
        "requires": {"wf": WF("self")},
        "ensures": STORED("self", B0, N0, A0),
        "prelude": ["idx_app_rev"],
        "loops": {
            0: {"index": "i", "invariant": {
                "seen_ids": "forall(lambda k: (k in event_id_duplicates) == any(self.node_models_to_save[p].event_id == k for p in range(i)), 'str')",
                "counts_pos": "forall(lambda k: implies(k in event_id_duplicates, event_id_duplicates[k] >= 1), 'str')",
                # filtered_nodes = the first occurrences among the rows seen so far
                "from_firsts": "all(any(is_first(self.node_models_to_save, p) and filtered_nodes[q] is self.node_models_to_save[p] for p in range(i)) "
                               "for q in range(len(filtered_nodes)))",
                "all_firsts": "all(implies(is_first(self.node_models_to_save, p), any(filtered_nodes[q] is self.node_models_to_save[p] "
                              "for q in range(len(filtered_nodes)))) for p in range(i))",
                "represented": "all(any(filtered_nodes[q].event_id == self.node_models_to_save[p].event_id for q in range(len(filtered_nodes))) for p in range(i))",
                "distinct": "distinct_ids(filtered_nodes)",
                "unchanged": "self.node_models_to_save == old(self.node_models_to_save) and self.g_nodes == old(self.g_nodes) and self.g_assoc == old(self.g_assoc)",
            }},
            1: {"index": "i1", "invariant": {
                "same_keys": "forall(lambda k: (k in event_id_duplicates) == (k in pre_loop(event_id_duplicates)), 'str')",
                "unchanged": "self.node_models_to_save == old(self.node_models_to_save) and self.g_nodes == old(self.g_nodes) and self.g_assoc == old(self.g_assoc)",
            }},
            2: {"index": "j", "invariant": {
                "rebuilt": "self.node_relationships_to_save == rels(filtered_nodes[:j])",
                "unchanged": "self.node_models_to_save == filtered_nodes and self.g_nodes == old(self.g_nodes) and self.g_assoc == old(self.g_assoc)",
            }, "hints_end": ["rels(filtered_nodes[:j]) == rels(filtered_nodes[:j - 1]) + rels([filtered_nodes[j - 1]])"]},
            3: {"index": "i3", "invariant": {}},
        },
        "locals": {"event_id_duplicates": "dict[str, int]", "filtered_nodes": "list[NodeModel]"},
    },
    "SQLDataHolder.commit_batched_unique_data_to_database": {
        "modifies": ALLM,
        "requires": {"wf": WF("self"), "pending": BI("self")},
        # a flush never fails, whatever the batch contains
        "ensures": STORED("self", B0, N0, A0),
    },
    "SQLDataHolder.convert_otel_event_to_node_model": {
        "static": True,
        "ensures": {
            "copied": "result.job_name == otel_event.job_name and result.job_id == otel_event.job_id and result.event_type == otel_event.event_type "
                      "and result.event_id == otel_event.event_id and result.start_timestamp == otel_event.start_timestamp "
                      "and result.end_timestamp == otel_event.end_timestamp and result.application_name == otel_event.application_name",
            # an empty parent id means "no parent"
            "parent": "result.parent_event_id == (otel_event.parent_event_id if otel_event.parent_event_id is not None and otel_event.parent_event_id != '' else None)",
        },
    },
    "SQLDataHolder.add_node_relations": {
        "modifies": ["SQLDataHolder.node_relationships_to_save"],
        "ensures": {
            "appended": "self.node_relationships_to_save == old(self.node_relationships_to_save) + "
                        "([{'parent_id': otel_event.parent_event_id, 'child_id': otel_event.event_id}] "
                        "if otel_event.parent_event_id is not None and otel_event.parent_event_id != '' else [])",
            "frame": "forall(lambda h: h is self or h.node_relationships_to_save == old(h.node_relationships_to_save), 'SQLDataHolder')",
        },
    },
    "SQLDataHolder._save_data": {
        "modifies": ALLM,
        "requires": {"wf": WF("self"), "pending": BI("self")},
        "ensures": {
            # one more pending row (with its pending parent link), or - when the batch is full - a flush of the batch including it
            "buffered_or_flushed":
                "(len(old(self.node_models_to_save)) + 1 < self.batch_size and len(self.node_models_to_save) == len(old(self.node_models_to_save)) + 1 "
                " and self.node_models_to_save[:-1] == old(self.node_models_to_save) and self.node_models_to_save[-1].event_id == otel_event.event_id "
                " and self.g_nodes == old(self.g_nodes) and self.g_assoc == old(self.g_assoc)) "
                "or (len(old(self.node_models_to_save)) + 1 >= self.batch_size and len(self.node_models_to_save) == 0 "
                " and forall(lambda k: implies(k in old(self.g_nodes), k in self.g_nodes and self.g_nodes[k] is old(self.g_nodes)[k]), 'str') "
                " and otel_event.event_id in self.g_nodes)",
            "pending": BI("self"),
            "wf": WF("self"),
            # on the virtual store: the span's id is added; every row it held stays; a new id is represented by a row with the span's content
            "v_keys": f"forall(lambda k: {VKEY('self', 'k')} == ({VKEY('self', 'k', True)} or k == otel_event.event_id), 'str')",
            "v_stored_kept": "forall(lambda k: implies(k in old(self.g_nodes), k in self.g_nodes and self.g_nodes[k] is old(self.g_nodes)[k]), 'str')",
            "v_pending_kept": "all(implies(is_first(old(self.node_models_to_save), p) and old(self.node_models_to_save)[p].event_id not in old(self.g_nodes), "
                              + VROW('self', 'old(self.node_models_to_save)[p].event_id', 'old(self.node_models_to_save)[p]')
                              + ") for p in range(len(old(self.node_models_to_save))))",
            "v_new_row": f"implies(not {VKEY('self', 'otel_event.event_id', True)}, "
                         f"exists(lambda n: {VROW('self', 'otel_event.event_id', 'n')} and row_of(n, otel_event), 'NodeModel'))",
            "v_assoc": f"forall(lambda a, c: {VASSOC('self', 'a', 'c')} == ({VASSOC('self', 'a', 'c', True)} or (not {VKEY('self', 'otel_event.event_id', True)} "
                       "and c == otel_event.event_id and otel_event.parent_event_id is not None and otel_event.parent_event_id != '' "
                       "and a == otel_event.parent_event_id)), 'str', 'str')",
        },
        "prelude": ["idx_app_rev"],
        "hints": ["(old(self.node_models_to_save) + [node_model])[len(old(self.node_models_to_save))].event_id == otel_event.event_id",
                  "row_of(node_model, otel_event)",
                  f"implies(len(self.node_models_to_save) > 0 and not {VKEY('self', 'otel_event.event_id', True)}, "
                  "self.node_models_to_save[len(self.node_models_to_save) - 1] is node_model and "
                  "is_first(self.node_models_to_save, len(self.node_models_to_save) - 1))"],
    },
}

TS = ["SQLDataHolder._min_timestamp", "SQLDataHolder._max_timestamp"]
N0, A0 = "old(self.data_holder.g_nodes)", "old(self.data_holder.g_assoc)"
H = "self.data_holder"
EVS = "self.data_source"
CONTRACTS.update({
    "Session.close": {"trusted": True, "external": True, "params": {"self": "Session"}, "ensures": {}},
    # base class: `if exc_type: raise`
    "DataHolder.__exit__": {"trusted": True, "params": {"self": "SQLDataHolder", "exc_type": "Optional[str]", "exc_val": "Optional[str]", "exc_tb": "Optional[str]"},
                            "requires": {"no_exception": "exc_type is None"}, "ensures": {}},
    "SQLDataHolder.__exit__": {
        "params": {"exc_type": "Optional[str]", "exc_val": "Optional[str]", "exc_tb": "Optional[str]"},
        "modifies": ALLM,
        "requires": {"no_exception": "exc_type is None", "wf": WF("self"), "pending": BI("self")},
        # leaving the `with` block flushes what is still pending
        "ensures": STORED("self", B0, "old(self.g_nodes)", "old(self.g_assoc)"),
    },
    "SQLDataHolder.save_data": {
        "source_name": "DataHolder.save_data", "params": {"self": "SQLDataHolder"},
        "modifies": ALLM + TS,
        "requires": {"wf": WF("self"), "pending": BI("self")},
        "ensures": {k: v for k, v in CONTRACTS["SQLDataHolder._save_data"]["ensures"].items() if k != "buffered_or_flushed"},
    },
    # ------------------------------------------------------------------ the whole ingestion (C10's statement, on the ghost store)
    "IngestData.load_to_data_holder": {
        "modifies": ALLM + TS,
        "requires": {"wf": WF(H), "nothing_pending": f"len({H}.node_models_to_save) == 0 and len({H}.node_relationships_to_save) == 0"},
        "ensures": {
            # "the store holds exactly one record per distinct span id ..."
            "keys": f"forall(lambda k: (k in {H}.g_nodes) == (k in {N0} or any({EVS}[q].event_id == k for q in range(len({EVS})))), 'str')",
            # "... the first occurrence seen ..." (rows that were stored before are not touched: a re-sent span is ignored)
            "first_occurrence": f"all(implies(first_new({EVS}, q, {N0}), row_of({H}.g_nodes[{EVS}[q].event_id], {EVS}[q])) for q in range(len({EVS})))",
            "old_rows_untouched": f"forall(lambda k: implies(k in {N0}, {H}.g_nodes[k] is {N0}[k]), 'str')",
            # "... together with its parent link", and no other link
            "links": f"forall(lambda a, c: ((a, c) in {H}.g_assoc) == ((a, c) in {A0} or any(first_new({EVS}, q, {N0}) and link_of({EVS}[q], a, c) "
                     f"for q in range(len({EVS})))), 'str', 'str')",
            "nothing_pending": f"len({H}.node_models_to_save) == 0 and len({H}.node_relationships_to_save) == 0",
            "wf": WF(H),
        },
        "loops": {0: {"index": "i", "seq": "evs", "invariant": {
            "src": f"evs == {EVS}",
            "wf": WF(H), "pending": BI(H),
            "v_keys": f"forall(lambda k: {VKEY(H, 'k')} == (k in {N0} or any(evs[q].event_id == k for q in range(i))), 'str')",
            "v_first": f"all(implies(first_new(evs, q, {N0}), exists(lambda n: {VROW(H, 'evs[q].event_id', 'n')} and row_of(n, evs[q]), 'NodeModel')) for q in range(i))",
            "v_old": f"forall(lambda k: implies(k in {N0}, k in {H}.g_nodes and {H}.g_nodes[k] is {N0}[k]), 'str')",
            "v_assoc": f"forall(lambda a, c: {VASSOC(H, 'a', 'c')} == ((a, c) in {A0} or any(first_new(evs, q, {N0}) and link_of(evs[q], a, c) for q in range(i))), 'str', 'str')",
        }}},
    },
})

ORDER = ["Session.rollback", "SQLDataHolder.batch_insert_node_models", "SQLDataHolder.batch_insert_node_associations",
         "SQLDataHolder.get_event_ids_existing_in_db", "SQLDataHolder._update_node_relations_from_node",
         "SQLDataHolder.commit_batched_data_to_database", "SQLDataHolder.check_and_filter_non_unique_nodes_and_associations",
         "SQLDataHolder.commit_batched_unique_data_to_database", "SQLDataHolder.convert_otel_event_to_node_model",
         "SQLDataHolder.add_node_relations", "SQLDataHolder._save_data",
         "Session.close", "DataHolder.__exit__", "SQLDataHolder.__exit__", "SQLDataHolder.save_data", "IngestData.load_to_data_holder"]


def setup(V):
    V.kw_ctor_records = set(KW_CTOR)
