"""C11 / C15 / C09 / C12 (proved part) - the composition of one run of `otel_to_pv`.

Functions under contract (real source re-read on every run):
    tel2puml/otel_to_pv/otel_to_pv.py        otel_to_pv
    tel2puml/otel_to_pv/ingest_otel_data.py  ingest_data_into_dataholder, IngestData.__init__

What the properties say about a *run* of the tool is, below the store operations themselves, a statement about the order in which
`otel_to_pv` applies them and about what it hands from one to the next:

  C11  "fixed cleaning order before streaming": what is streamed is the store after  remove_inconsistent_jobs, then
       remove_jobs_outside_of_time_window (with this holder's tracked time range and buffer), then update_job_names_by_root_span -
       in that order, each exactly once, nothing else writing the store in between; ValueError exactly when the buffered window is empty.
  C15  "no-ingest path reuses store": without ingestion the run starts from the store as found and from a *fresh* holder, whose time
       range is the default one (nothing of an earlier process survives, and nothing is derived from what is stored); with ingestion it
       starts from the store as found plus what the source delivers, and the range tracked while ingesting.
  C09 / C12  the unique-graph selection is computed on the cleaned store, after cleaning, and is the filter given to `stream_data`; without
       the flag the filter is None.
  C08  every workflow name's traces are sequenced with *that name's* prior information and rename rules and the configured async flag.
  C14  with `save_events`, `handle_save_events` is called once per streamed workflow name, in order, with the sequenced jobs of that name,
       the output directory and the mapping configuration.

The store is an abstract value (`Store`: the view (nodes, associations, hashes) of the bounded harness); the persisted database is the ghost
global `db.store`.  The leaves are **trusted** contracts that only *name* their effect with an uninterpreted function (`rm_broken`,
`rm_outside`, `renamed`, `hashed`, `uniq`, `STREAM`, `ingested`, `tracked`): what those functions are is the business of the bounded store
harness (abstract-view contracts on real sqlite) and of contracts/c09.py, c10.py, c11.py, c12.py.  Proved here, for every configuration,
flag combination and store: the run is the composition stated above - a reordered, duplicated, dropped or added store operation, a
filter computed before cleaning, a swapped per-name configuration, a holder that inherits a time range, all fail a named obligation.

Generators are read as lists (the lazily evaluated generator expression `pv_event_gen` is the list of its elements; with `save_events`
the function returns an exhausted generator at run time - observed, DESIGN I.3 - so nothing is stated about the result in that case).
"""
MODULE = "tel2puml/otel_to_pv/otel_to_pv.py"
_ING = "tel2puml/otel_to_pv/ingest_otel_data.py"
FILES = {"": MODULE, "ingest_data_into_dataholder": _ING, "IngestData.__init__": _ING, "IngestData.load_to_data_holder": _ING,
         "fetch_data_source": _ING, "fetch_data_holder": _ING,
         "sequence_otel_job_id_streams": "tel2puml/otel_to_pv/sequence_otel.py"}

_GROUPS = "dict[str, dict[str, dict[str, str]]]"
_NAMES = "dict[str, dict[str, OTelEventTypeMap]]"
RECORDS = {
    "Store": {"fields": {}},
    "Range": {"fields": {}},
    "Source": {"fields": {}},
    "DB": {"fields": {"store": "Store"}, "mutable": ["store"]},
    "SaveLog": {"fields": {"calls": "list[SaveCall]"}, "mutable": ["calls"]},
    "SaveCall": {"struct": True, "fields": {"job_name": "str", "jobs": "list[list[PVEvent]]", "directory": "str", "mapping": "Optional[PVEventMappingConfig]"}},
    "OTelEvent": {"fields": {}},
    "PVEvent": {"fields": {}},
    "OTelEventTypeMap": {"fields": {}},
    "PVEventMappingConfig": {"fields": {}},
    "DataHolder": {"fields": {"g_range": "Range", "g_buffer": "int"}, "mutable": ["g_range"]},
    "SequenceModelConfig": {"fields": {"async_flag": "bool", "async_event_groups": _GROUPS, "event_name_map_information": _NAMES}},
    "IngestDataConfig": {"fields": {"sequencer": "SequenceModelConfig"}},
    "IngestData": {"fields": {"data_holder": "DataHolder", "data_source": "Source"}, "mutable": ["data_holder", "data_source"]},
}

_STREAMS = "list[tuple[str, list[list[OTelEvent]]]]"
SPECS = f'''
@opaque
def rm_broken(s: Store) -> Store:
    return s

@opaque
def rm_outside(s: Store, r: Range, b: int) -> Store:
    return s

@opaque
def window_empty(r: Range, b: int) -> bool:
    return False

@opaque
def renamed(s: Store) -> Store:
    return s

@opaque
def hashed(s: Store, r: Range, b: int) -> Store:
    return s

@opaque
def uniq(s: Store, r: Range, b: int) -> dict[str, set[str]]:
    return {{}}

@opaque
def STREAM(s: Store, f: Optional[dict[str, set[str]]]) -> {_STREAMS}:
    return []

@opaque
def ingested(s: Store, src: Source) -> Store:
    return s

@opaque
def tracked(r: Range, src: Source) -> Range:
    return r

@opaque
def source_of(c: IngestDataConfig) -> Source:
    return source_of(c)

@opaque
def buffer_of(c: IngestDataConfig) -> int:
    return 0

@opaque
def DEFAULT_RANGE() -> Range:
    return DEFAULT_RANGE()

@opaque
def configured(c: IngestDataConfig) -> bool:
    return True

def CLEAN(s: Store, r: Range, b: int) -> Store:
    return renamed(rm_outside(rm_broken(s), r, b))

def START(s: Store, c: IngestDataConfig, ingest: bool) -> Store:
    return ingested(s, source_of(c)) if ingest else s

def RANGE(c: IngestDataConfig, ingest: bool) -> Range:
    return tracked(DEFAULT_RANGE(), source_of(c)) if ingest else DEFAULT_RANGE()

def FINAL(s: Store, c: IngestDataConfig, ingest: bool, unique: bool) -> Store:
    return (hashed(CLEAN(START(s, c, ingest), RANGE(c, ingest), buffer_of(c)), RANGE(c, ingest), buffer_of(c)) if unique
            else CLEAN(START(s, c, ingest), RANGE(c, ingest), buffer_of(c)))

def ROWS(s: Store, c: IngestDataConfig, ingest: bool, unique: bool) -> list[tuple[str, list[list[OTelEvent]]]]:
    return (STREAM(hashed(CLEAN(START(s, c, ingest), RANGE(c, ingest), buffer_of(c)), RANGE(c, ingest), buffer_of(c)),
                   uniq(CLEAN(START(s, c, ingest), RANGE(c, ingest), buffer_of(c)), RANGE(c, ingest), buffer_of(c))) if unique
            else STREAM(CLEAN(START(s, c, ingest), RANGE(c, ingest), buffer_of(c)), None))
'''

_H = {"self": "DataHolder"}
_ROWS = "ROWS(old(db.store), config, ingest_data, find_unique_graphs)"
_SEQ = ("sequence_otel_job_id_streams({rows}[i][1], config.sequencer.async_flag, config.sequencer.async_event_groups.get({rows}[i][0], None), "
        "config.sequencer.event_name_map_information.get({rows}[i][0], None))")
_EMPTY = "window_empty(RANGE(config, ingest_data), buffer_of(config))"

CONTRACTS = {
    # ----------------------------------------------------------------------------------------------- trusted leaves (named effects)
    "fetch_data_source": {"trusted": True, "requires": {"configured": "configured(config)"}, "returns": "Source",
                          "ensures": {"the_source": "result == source_of(config)"}},
    "fetch_data_holder": {"trusted": True, "requires": {"configured": "configured(config)"}, "returns": "DataHolder",
                          "modifies": ["DataHolder.g_range"],
                          "ensures": {"fresh_range": "result.g_range == DEFAULT_RANGE()", "buffer": "result.g_buffer == buffer_of(config)",
                                      "others": "forall(lambda h: h is result or h.g_range == old(h.g_range), 'DataHolder')"}},
    "IngestData.load_to_data_holder": {
        "trusted": True, "modifies": ["DB.store", "DataHolder.g_range"],
        "ensures": {"ingested": "db.store == ingested(old(db.store), self.data_source)",
                    "tracked": "self.data_holder.g_range == tracked(old(self.data_holder.g_range), self.data_source)",
                    "others": "forall(lambda h: h is self.data_holder or h.g_range == old(h.g_range), 'DataHolder')"}},
    "DataHolder.remove_inconsistent_jobs": {"trusted": True, "external": True, "params": _H, "modifies": ["DB.store"],
                                            "ensures": {"effect": "db.store == rm_broken(old(db.store))"}},
    "DataHolder.remove_jobs_outside_of_time_window": {"trusted": True, "external": True, "params": _H, "modifies": ["DB.store"],
                                                      "raises": {"ValueError": "window_empty(self.g_range, self.g_buffer)"},
                                                      "ensures": {"effect": "db.store == rm_outside(old(db.store), self.g_range, self.g_buffer)"}},
    "DataHolder.update_job_names_by_root_span": {"trusted": True, "external": True, "params": _H, "modifies": ["DB.store"],
                                                 "ensures": {"effect": "db.store == renamed(old(db.store))"}},
    "DataHolder.find_unique_graphs": {"trusted": True, "external": True, "params": _H, "returns": "dict[str, set[str]]", "modifies": ["DB.store"],
                                      "ensures": {"effect": "db.store == hashed(old(db.store), self.g_range, self.g_buffer)",
                                                  "selection": "result == uniq(old(db.store), self.g_range, self.g_buffer)"}},
    "DataHolder.stream_data": {"trusted": True, "external": True, "params": {"self": "DataHolder", "job_name_to_job_ids_map": "Optional[dict[str, set[str]]]"},
                               "returns": _STREAMS, "ensures": {"rows": "result == STREAM(db.store, job_name_to_job_ids_map)"}},
    "sequence_otel_job_id_streams": {"trusted": True, "pure": True,
                                     "params": {"job_id_streams": "list[list[OTelEvent]]", "event_to_async_group_map": "Optional[dict[str, dict[str, str]]]",
                                                "event_types_map_information": "Optional[dict[str, OTelEventTypeMap]]"},
                                     "returns": "list[list[PVEvent]]"},
    "handle_save_events": {"trusted": True, "modifies": ["SaveLog.calls"],
                           "params": {"pv_event_streams": "list[list[PVEvent]]"},
                           "ensures": {"logged": "saved.calls == old(saved.calls) + [SaveCall(job_name=job_name, jobs=pv_event_streams, directory=output_file_directory, mapping=mapping_config)]"}},
    # ----------------------------------------------------------------------------------------------- verified
    "IngestData.__init__": {
        "params": {"otel_data_source": "Source"},
        "modifies": ["IngestData.data_holder", "IngestData.data_source"],
        "ensures": {"fields": "self.data_holder is data_holder and self.data_source == otel_data_source",
                    "frame": "forall(lambda x: x is self or (x.data_holder is old(x.data_holder) and x.data_source == old(x.data_source)), 'IngestData')"},
    },
    "ingest_data_into_dataholder": {
        "returns": "DataHolder",
        "modifies": ["DB.store", "DataHolder.g_range", "IngestData.data_holder", "IngestData.data_source"],
        "requires": {"configured": "configured(config)"},
        "ensures": {
            "ingested": "db.store == ingested(old(db.store), source_of(config))",
            "tracked_from_default": "result.g_range == tracked(DEFAULT_RANGE(), source_of(config))",
            "buffer": "result.g_buffer == buffer_of(config)",
        },
    },
    "otel_to_pv": {
        "returns": "list[tuple[str, list[list[PVEvent]]]]",
        "modifies": ["DB.store", "DataHolder.g_range", "IngestData.data_holder", "IngestData.data_source", "SaveLog.calls"],
        "requires": {"configured": "configured(config)"},
        "raises": {"ValueError": _EMPTY},
        "ensures": {
            # the store a run leaves behind: found (+ ingested), cleaned in the fixed order, (+ hashed)
            "store": "db.store == FINAL(old(db.store), config, ingest_data, find_unique_graphs)",
            # what is streamed: the cleaned store under the selection computed on the cleaned store (or no filter), every name sequenced
            # with its own configuration
            "streams": f"implies(not save_events, len(result) == len({_ROWS}) and all(result[i][0] == {_ROWS}[i][0] and "
                       f"result[i][1] == {_SEQ.format(rows=_ROWS)} for i in range(len({_ROWS}))))",
            # what is saved: one call per streamed name, in order
            "saved": f"implies(save_events, len(saved.calls) == len(old(saved.calls)) + len({_ROWS}) and "
                     f"all(saved.calls[p] == old(saved.calls)[p] for p in range(len(old(saved.calls)))) and "
                     f"all(saved.calls[len(old(saved.calls)) + i] == SaveCall(job_name={_ROWS}[i][0], jobs={_SEQ.format(rows=_ROWS)}, directory=output_file_directory, mapping=mapping_config) "
                     f"for i in range(len({_ROWS}))))",
            "nothing_saved": "implies(not save_events, saved.calls == old(saved.calls))",
        },
        "loops": {0: {"index": "k", "seq": "gen", "invariant": {
            "src": "gen == pv_event_gen",
            "store": "db.store == pre_loop(db.store)",
            "count": "len(saved.calls) == len(old(saved.calls)) + k",
            "before": "all(saved.calls[p] == old(saved.calls)[p] for p in range(len(old(saved.calls))))",
            "each": "all(saved.calls[len(old(saved.calls)) + i] == SaveCall(job_name=gen[i][0], jobs=gen[i][1], directory=output_file_directory, mapping=mapping_config) for i in range(k))",
        }}},
        "locals": {"data_holder": "DataHolder"},
    },
}
ORDER = ["fetch_data_source", "fetch_data_holder", "IngestData.load_to_data_holder", "DataHolder.remove_inconsistent_jobs",
         "DataHolder.remove_jobs_outside_of_time_window", "DataHolder.update_job_names_by_root_span", "DataHolder.find_unique_graphs",
         "DataHolder.stream_data", "sequence_otel_job_id_streams", "handle_save_events",
         "IngestData.__init__", "ingest_data_into_dataholder", "otel_to_pv"]


def setup(V):
    V.__dict__.setdefault("ghost_globals", {})["db"] = V.tenv.records["DB"]
    V.ghost_globals["saved"] = V.tenv.records["SaveLog"]
    V.kw_ctor_records = set(getattr(V, "kw_ctor_records", set()))
