"""C04 (proved part) - how the evidence of a run reaches the per-event successor / predecessor sets.

Functions under contract (real source re-read on every run): tel2puml/pv_to_puml/data_ingestion.py
    get_events_set_from_events_list, update_and_create_events_from_graph_solution, update_and_create_events_from_graph_solutions

"Updating a saved model equals learning from all data at once ... for every way of splitting the data into chunks" is, at the level of
the learned model, a statement about these three functions: a run turns every job into a graph solution and *folds* the graph solutions
into the dictionary of events it was given (empty on a first run, the loaded model with `-im`).  Proved, for every list of graph solutions,
every dictionary of events and every batch of jobs:

    keys        the dictionary afterwards holds the types it held plus the types of the events of the graph solutions, and nothing else
    out / in    the successor (predecessor) sets of a type afterwards are the sets before plus one multiset per occurrence of the type
                with a non-empty list of following (preceding) events - OUT(gss, t) / IN(gss, t) - and nothing else
    coherent    every event's cached gate tree is marked stale or equals calculate_logic_gates of its current successor sets
    same_objs   an event that was in the dictionary is the same object afterwards

and the lemmas `out_splits` / `in_splits`: OUT(a + b, t) is OUT(a, t) or OUT(b, t) - so the sets after folding chunk `a` and then chunk
`b` into a model are the sets after folding `a + b` in one go (`chunked_equals_one_shot`, over the postconditions only).

The contracts of the Event methods called here (`Event.__init__`, `update_event_sets`, `update_in_event_sets`) are the ones *proved* in
contracts/c04.py; they are imported from there (same text) and assumed in this sidecar.

Not under contract: `GraphSolution.from_event_list` and `update_graph_solution_with_dummy_start_event` (janus, external: what a job's graph
solution looks like); a graph solution is read here as a record (`events: dict[int, EventSolution]`, each event solution with `meta_data`,
`post_events`, `previous_events`) that the three functions do not modify.  The step from PV event streams to graph solutions
(`get_graph_solutions_from_clustered_events`) stays with the bounded harness.
"""
import importlib.util
import os

_spec = importlib.util.spec_from_file_location("sidecar_c04_base", os.path.join(os.path.dirname(os.path.abspath(__file__)), "c04.py"))
base = importlib.util.module_from_spec(_spec)
_spec.loader.exec_module(base)

MODULE = "tel2puml/pv_to_puml/data_ingestion.py"
_EV = "tel2puml/events.py"
FILES = {"": MODULE, "Event.__init__": _EV, "Event._set_uid": _EV, "Event.update_event_sets": _EV, "Event.update_in_event_sets": _EV,
         "calculate_logic_gates": "tel2puml/logic_detection.py"}

USES_FS = True
RECORDS = {
    **base.RECORDS,
    "EventSolution": {"fields": {"meta_data": "dict[str, str]", "post_events": "list[EventSolution]", "previous_events": "list[EventSolution]"}},
    "GraphSolution": {"fields": {"events": "dict[int, EventSolution]"}},
    "PVEvent": {"fields": {}},
}

INV = base.INV
_EVENT_FIELDS = base._EVENT_FIELDS

SPECS = '''
def types_of(l: list[EventSolution]) -> list[str]:
    return [x.meta_data['EventType'] for x in l]

def evs(g: GraphSolution) -> list[EventSolution]:
    return list(g.events.values())

def out_n(g: GraphSolution, n: int, t: str, es: EventSet) -> bool:
    return any(evs(g)[p].meta_data['EventType'] == t and len(evs(g)[p].post_events) > 0
               and es == EventSet(types_of(evs(g)[p].post_events)) for p in range(n))

def in_n(g: GraphSolution, n: int, t: str, es: EventSet) -> bool:
    return any(evs(g)[p].meta_data['EventType'] == t and len(evs(g)[p].previous_events) > 0
               and es == EventSet(types_of(evs(g)[p].previous_events)) for p in range(n))

def has_n(g: GraphSolution, n: int, t: str) -> bool:
    return any(evs(g)[p].meta_data['EventType'] == t for p in range(n))

def out_of(g: GraphSolution, t: str, es: EventSet) -> bool:
    return out_n(g, len(evs(g)), t, es)

def in_of(g: GraphSolution, t: str, es: EventSet) -> bool:
    return in_n(g, len(evs(g)), t, es)

def has_type(g: GraphSolution, t: str) -> bool:
    return has_n(g, len(evs(g)), t)

def OUT(gs: list[GraphSolution], t: str, es: EventSet) -> bool:
    return len(gs) > 0 and (OUT(gs[:-1], t, es) or out_of(gs[-1], t, es))

def IN(gs: list[GraphSolution], t: str, es: EventSet) -> bool:
    return len(gs) > 0 and (IN(gs[:-1], t, es) or in_of(gs[-1], t, es))

def TYPES(gs: list[GraphSolution], t: str) -> bool:
    return len(gs) > 0 and (TYPES(gs[:-1], t) or has_type(gs[-1], t))

def typed_gs(g: GraphSolution) -> bool:
    return (all('EventType' in evs(g)[p].meta_data for p in range(len(evs(g))))
            and all(all('EventType' in x.meta_data for x in evs(g)[p].post_events) for p in range(len(evs(g))))
            and all(all('EventType' in x.meta_data for x in evs(g)[p].previous_events) for p in range(len(evs(g)))))

@opaque
def graph_of(job: list[PVEvent]) -> GraphSolution:
    return graph_of(job)

@opaque
def with_dummy_start(g: GraphSolution) -> GraphSolution:
    return g

def GS(job: list[PVEvent], dummy: bool) -> GraphSolution:
    return with_dummy_start(graph_of(job)) if dummy else graph_of(job)

def graphs(jobs: list[list[PVEvent]], dummy: bool) -> list[GraphSolution]:
    return [GS(j, dummy) for j in jobs]
'''

# the model a run starts from: keyed by type, one object per type, every cache coherent
WFM = ("all({E}[k].event_type == k for k in {E}) and all({E}[k1] is not {E}[k2] for k1 in {E} for k2 in {E} if k1 != k2) and all("
       + INV("{E}[k]") + " for k in {E})")


def MODEL(E, E0, prefix_types, prefix_out, prefix_in):
    """the dictionary E after folding evidence into E0 (E0 read in the pre-state)"""
    return {
        "keys": f"forall(lambda t: (t in {E}) == (old(t in {E0}) or {prefix_types}), 'str', triggers=[t in {E}])",
        "same_objs": f"all(implies(old(k in {E0}), {E}[k] is old({E0})[k]) for k in {E})",
        "typed": f"all({E}[k].event_type == k for k in {E})",
        "distinct": f"all({E}[k1] is not {E}[k2] for k1 in {E} for k2 in {E} if k1 != k2)",
        "out": f"all(forall(lambda es: (es in {E}[k].event_sets) == ((old(k in {E0}) and es in old({E0}[k].event_sets)) or {prefix_out}), 'EventSet') for k in {E})",
        "in": f"all(forall(lambda es: (es in {E}[k].in_event_sets) == ((old(k in {E0}) and es in old({E0}[k].in_event_sets)) or {prefix_in}), 'EventSet') for k in {E})",
        "coherent": f"all({INV(E + '[k]')} for k in {E})",
    }


def FOLD(E, types, out, in_):
    """the dictionary E after folding evidence into the model the function was given (`events`, None = the empty model)"""
    was = "old(events is not None and k in events)"
    return {
        "keys": f"forall(lambda t: (t in {E}) == (old(events is not None and t in events) or {types}), 'str', triggers=[t in {E}])",
        "same_objs": f"all(implies({was}, {E}[k] is old(events)[k]) for k in {E})",
        "typed": f"all({E}[k].event_type == k for k in {E})",
        "distinct": f"all({E}[k1] is not {E}[k2] for k1 in {E} for k2 in {E} if k1 != k2)",
        "out": f"all(forall(lambda es: (es in {E}[k].event_sets) == (({was} and es in old(events[k].event_sets)) or {out}), 'EventSet') for k in {E})",
        "in": f"all(forall(lambda es: (es in {E}[k].in_event_sets) == (({was} and es in old(events[k].in_event_sets)) or {in_}), 'EventSet') for k in {E})",
        "coherent": f"all({INV(E + '[k]')} for k in {E})",
    }


_EVC = {k: dict(base.CONTRACTS[k], trusted=True) for k in ("Event._set_uid", "Event.__init__", "Event.update_event_sets", "Event.update_in_event_sets")}

CONTRACTS = {
    "calculate_logic_gates": base.CONTRACTS["calculate_logic_gates"],
    **_EVC,
    "get_events_set_from_events_list": {
        "requires": {"typed": "all('EventType' in x.meta_data for x in events)"},
        "ensures": {"types": "result == types_of(events)"},
        "loops": {0: {"index": "i", "invariant": {"prefix": "events_set == types_of(events[:i])"}}},
        "locals": {"events_set": "list[str]"},
    },
    "update_and_create_events_from_graph_solution": {
        "mutable_params": ["events"],
        "modifies": base.ALL,
        "requires": {"typed_gs": "typed_gs(graph_solution)", "model": WFM.format(E="events")},
        "ensures": MODEL("events", "events", "has_type(graph_solution, t)", "out_of(graph_solution, k, es)", "in_of(graph_solution, k, es)"),
        "loops": {0: {"index": "i", "seq": "vs", "invariant": {
            "src": "vs == evs(graph_solution)",
            **MODEL("events", "events", "has_n(graph_solution, i, t)", "out_n(graph_solution, i, k, es)", "in_n(graph_solution, i, k, es)"),
        }}},
    },
    "update_and_create_events_from_graph_solutions": {
        "params": {"graph_solutions": "list[GraphSolution]"},
        "modifies": base.ALL,
        "requires": {"typed_gs": "all(typed_gs(g) for g in graph_solutions)",
                     "model": "events is None or (" + WFM.format(E="events") + ")"},
        "ensures": {
            **FOLD("result", "TYPES(graph_solutions, t)", "OUT(graph_solutions, k, es)", "IN(graph_solutions, k, es)"),
        },
        "loops": {0: {"index": "j", "invariant": {
            "is_dict": "events is not None",
            **FOLD("events", "TYPES(graph_solutions[:j], t)", "OUT(graph_solutions[:j], k, es)", "IN(graph_solutions[:j], k, es)"),
        }, "hints_end": [
            "graph_solutions[:j][:-1] == graph_solutions[:j - 1] and graph_solutions[:j][-1] is graph_solutions[j - 1]",
            "all(forall(lambda es: OUT(graph_solutions[:j], k, es) == (OUT(graph_solutions[:j - 1], k, es) or out_of(graph_solutions[j - 1], k, es)), 'EventSet') for k in events)",
            "all(forall(lambda es: IN(graph_solutions[:j], k, es) == (IN(graph_solutions[:j - 1], k, es) or in_of(graph_solutions[j - 1], k, es)), 'EventSet') for k in events)",
        ]}},
    },
}
LEMMAS = [
    # a multiset can only be contributed to a type that occurs
    {"name": "out_needs_type_1", "forall": {"g": "GraphSolution", "n": "int", "t": "str", "es": "EventSet"},
     "requires": ["out_n(g, n, t, es)"], "ensures": "has_n(g, n, t)", "triggers": ["out_n(g, n, t, es)"]},
    {"name": "in_needs_type_1", "forall": {"g": "GraphSolution", "n": "int", "t": "str", "es": "EventSet"},
     "requires": ["in_n(g, n, t, es)"], "ensures": "has_n(g, n, t)", "triggers": ["in_n(g, n, t, es)"]},
    {"name": "out_needs_type", "forall": {"gs": "list[GraphSolution]", "t": "str", "es": "EventSet"},
     "requires": ["OUT(gs, t, es)"], "ensures": "TYPES(gs, t)", "induction": "gs", "triggers": ["OUT(gs, t, es)"],
     "hints": ["use out_needs_type(gs[:-1], t, es) if len(gs) >= 1 and OUT(gs[:-1], t, es) else True"]},
    {"name": "in_needs_type", "forall": {"gs": "list[GraphSolution]", "t": "str", "es": "EventSet"},
     "requires": ["IN(gs, t, es)"], "ensures": "TYPES(gs, t)", "induction": "gs", "triggers": ["IN(gs, t, es)"],
     "hints": ["use in_needs_type(gs[:-1], t, es) if len(gs) >= 1 and IN(gs[:-1], t, es) else True"]},
]
CHUNKS = [
    # folding the evidence of a + b contributes what a contributes and what b contributes
    {"name": "out_splits", "forall": {'a': 'list[GraphSolution]', 'b': 'list[GraphSolution]', 't': 'str', 'es': 'EventSet'},
     "requires": [], "ensures": "OUT(a + b, t, es) == (OUT(a, t, es) or OUT(b, t, es))", "induction": "b", "triggers": ["OUT(a + b, t, es)"],
     "hints": ["len(b) > 0 or a + b == a", "len(b) == 0 or ((a + b)[:-1] == a + b[:-1] and (a + b)[-1] is b[-1])",
               "use out_splits(a, b[:-1], t, es) if len(b) >= 1 else True"]},
    {"name": "in_splits", "forall": {'a': 'list[GraphSolution]', 'b': 'list[GraphSolution]', 't': 'str', 'es': 'EventSet'},
     "requires": [], "ensures": "IN(a + b, t, es) == (IN(a, t, es) or IN(b, t, es))", "induction": "b", "triggers": ["IN(a + b, t, es)"],
     "hints": ["len(b) > 0 or a + b == a", "len(b) == 0 or ((a + b)[:-1] == a + b[:-1] and (a + b)[-1] is b[-1])",
               "use in_splits(a, b[:-1], t, es) if len(b) >= 1 else True"]},
    {"name": "types_split", "forall": {'a': 'list[GraphSolution]', 'b': 'list[GraphSolution]', 't': 'str'},
     "requires": [], "ensures": "TYPES(a + b, t) == (TYPES(a, t) or TYPES(b, t))", "induction": "b", "triggers": ["TYPES(a + b, t)"],
     "hints": ["len(b) > 0 or a + b == a", "len(b) == 0 or ((a + b)[:-1] == a + b[:-1] and (a + b)[-1] is b[-1])",
               "use types_split(a, b[:-1], t) if len(b) >= 1 else True"]},
    # "updating a saved model equals learning from all data at once": S0 = the sets of a type in the model a run starts from, S1 after
    # folding chunk a into it, S2 after folding chunk b into that; S12 after folding a + b in one go (postconditions `out` / `in` of
    # update_and_create_events_from_graph_solutions; the model file round trip in between is the identity on sets: contracts/c04.py)
    {"name": "chunked_equals_one_shot_out", "forall": {"S0": "set[EventSet]", "S1": "set[EventSet]", "S2": "set[EventSet]", "S12": "set[EventSet]",
                                                       "a": "list[GraphSolution]", "b": "list[GraphSolution]", "t": "str"},
     "requires": ["forall(lambda es: (es in S1) == (es in S0 or OUT(a, t, es)), 'EventSet')",
                  "forall(lambda es: (es in S2) == (es in S1 or OUT(b, t, es)), 'EventSet')",
                  "forall(lambda es: (es in S12) == (es in S0 or OUT(a + b, t, es)), 'EventSet')"],
     "ensures": "S2 == S12"},
    {"name": "chunked_equals_one_shot_in", "forall": {"S0": "set[EventSet]", "S1": "set[EventSet]", "S2": "set[EventSet]", "S12": "set[EventSet]",
                                                      "a": "list[GraphSolution]", "b": "list[GraphSolution]", "t": "str"},
     "requires": ["forall(lambda es: (es in S1) == (es in S0 or IN(a, t, es)), 'EventSet')",
                  "forall(lambda es: (es in S2) == (es in S1 or IN(b, t, es)), 'EventSet')",
                  "forall(lambda es: (es in S12) == (es in S0 or IN(a + b, t, es)), 'EventSet')"],
     "ensures": "S2 == S12"},
    # ... and it does not matter in which order the chunks arrive
    {"name": "chunk_order_irrelevant", "forall": {"a": "list[GraphSolution]", "b": "list[GraphSolution]", "t": "str", "es": "EventSet"},
     "requires": [], "ensures": "OUT(a + b, t, es) == OUT(b + a, t, es) and IN(a + b, t, es) == IN(b + a, t, es) and TYPES(a + b, t) == TYPES(b + a, t)"},
]
CONTRACTS.update({
    # janus (external): the graph solution of a job, and the same with the job's start events hung below one dummy start event.  Objects are
    # read as values here: the in-place update of the fresh, local graph solution is a rebinding of the caller's variable
    "GraphSolution.from_event_list": {"trusted": True, "external": True, "static": True, "params": {"event_list": "list[PVEvent]"}, "returns": "GraphSolution",
                                      "ensures": {"graph": "result is graph_of(event_list)", "typed": "typed_gs(result)"}},
    "update_graph_solution_with_dummy_start_event": {"trusted": True, "mutable_params": ["graph_solution"],
                                                     "requires": {"typed": "typed_gs(graph_solution)"},
                                                     "ensures": {"dummy": "graph_solution is with_dummy_start(old(graph_solution))", "typed": "typed_gs(graph_solution)"}},
    "get_graph_solutions_from_clustered_events": {
        "generator": True, "params": {"clustered_events": "list[list[PVEvent]]"}, "returns": "list[GraphSolution]",
        "ensures": {"one_per_job": "result == graphs(clustered_events, add_dummy_start)", "typed": "all(typed_gs(g) for g in result)"},
        "loops": {0: {"index": "i", "seq": "js", "invariant": {
            "src": "js == clustered_events",
            "prefix": "yielded == graphs(js[:i], add_dummy_start)",
            "typed": "all(typed_gs(g) for g in yielded)",
        }}},
    },
    # what pv_to_puml_string calls: the jobs of a run folded into the model the run was given
    "update_and_create_events_from_clustered_pvevents": {
        "params": {"clustered_events": "list[list[PVEvent]]"},
        "modifies": base.ALL,
        "requires": {"model": "events is None or (" + WFM.format(E="events") + ")"},
        "ensures": FOLD("result", "TYPES(graphs(clustered_events, add_dummy_start), t)", "OUT(graphs(clustered_events, add_dummy_start), k, es)",
                        "IN(graphs(clustered_events, add_dummy_start), k, es)"),
    },
})
JOBS = [
    # the graph solutions of a + b are those of a followed by those of b: with out_splits / chunked_equals_one_shot this is the chunk statement
    # at the level of the jobs handed to pv_to_puml_string
    {"name": "graphs_split", "forall": {"a": "list[list[PVEvent]]", "b": "list[list[PVEvent]]", "d": "bool"},
     "requires": [], "ensures": "graphs(a + b, d) == graphs(a, d) + graphs(b, d)"},
    {"name": "jobs_chunked_equals_one_shot", "forall": {"a": "list[list[PVEvent]]", "b": "list[list[PVEvent]]", "d": "bool", "t": "str", "es": "EventSet"},
     "requires": [], "ensures": "OUT(graphs(a + b, d), t, es) == (OUT(graphs(a, d), t, es) or OUT(graphs(b, d), t, es)) and "
                                "IN(graphs(a + b, d), t, es) == (IN(graphs(a, d), t, es) or IN(graphs(b, d), t, es)) and "
                                "TYPES(graphs(a + b, d), t) == (TYPES(graphs(a, d), t) or TYPES(graphs(b, d), t))",
     "hints": ["graphs(a + b, d) == graphs(a, d) + graphs(b, d)"]},
]
ORDER = ["calculate_logic_gates", "Event._set_uid", "Event.__init__", "Event.update_event_sets", "Event.update_in_event_sets",
         "get_events_set_from_events_list", "update_and_create_events_from_graph_solution", *LEMMAS,
         "update_and_create_events_from_graph_solutions", *CHUNKS,
         "GraphSolution.from_event_list", "update_graph_solution_with_dummy_start_event", "get_graph_solutions_from_clustered_events",
         "update_and_create_events_from_clustered_pvevents", *JOBS]


def setup(V):
    base.setup(V)


# ----------------------------------------------------------------------------- native reading
MUTABLE_FIELDS = base.MUTABLE_FIELDS


class _G:
    """a graph solution compared by structure (natively every call of the real constructor gives a new object)"""
    def __init__(self, gs):
        self.events = gs.events

    def sig(self):
        return sorted((e.meta_data["EventType"], sorted(x.meta_data["EventType"] for x in e.post_events),
                       sorted(x.meta_data["EventType"] for x in e.previous_events)) for e in self.events.values())

    def __eq__(self, other):
        return hasattr(other, "events") and self.sig() == _G(other).sig()

    __hash__ = None


def _pv(job):
    return [{"jobId": "j", "eventId": e[0], "eventType": e[1], "timestamp": "2024-01-01T00:00:00Z", "applicationName": "app", "jobName": "wf",
             **({"previousEventIds": list(e[2])} if e[2] else {})} for e in job]


def native_env(nat):
    import importlib
    env = base.native_env(nat)
    di = importlib.import_module("tel2puml.pv_to_puml.data_ingestion")

    def GS(job, dummy):
        gs = di.GraphSolution.from_event_list(job)
        if dummy:
            di.update_graph_solution_with_dummy_start_event(gs)
        return _G(gs)
    env["GS"] = GS
    return env


class _Case(dict):
    """argument dict that remembers its JSON description (for replay files)"""


def _graph(nat, job, dummy):
    """job: [[event id, event type, [previous ids]], ...] -> the graph solution the tool builds for it"""
    import importlib
    di = importlib.import_module("tel2puml.pv_to_puml.data_ingestion")
    gs = di.GraphSolution.from_event_list([
        {"jobId": "j", "eventId": e[0], "eventType": e[1], "timestamp": "2024-01-01T00:00:00Z", "applicationName": "app", "jobName": "wf",
         **({"previousEventIds": list(e[2])} if e[2] else {})} for e in job])
    if dummy:
        di.update_graph_solution_with_dummy_start_event(gs)
    return gs


def _materialise(nat, desc):
    """desc: {"fn": .., "jobs": [job ...], "dummy": bool, "model": None | [event descriptions of contracts/c04.py]}"""
    import importlib
    ev = importlib.import_module("tel2puml.events")
    out = _Case()
    out.desc = desc
    graphs = [_graph(nat, job, desc.get("dummy", False)) for job in desc["jobs"]]
    model = None if desc.get("model") is None else {d["type"]: base.mk_event(nat, d) for d in desc["model"]}
    if desc["fn"] in ("jobs", "gen"):
        out["clustered_events"] = [_pv(job) for job in desc["jobs"]]
        out["add_dummy_start"] = desc.get("dummy", False)
        if desc["fn"] == "jobs":
            out["events"] = model
        graphs = [_graph(nat, job, True) for job in desc["jobs"]] + graphs
    elif desc["fn"] == "list":
        out["events"] = list(graphs[0].events.values())[0].post_events if graphs and graphs[0].events else []
    elif desc["fn"] == "one":
        out["graph_solution"] = graphs[0]
        out["events"] = model if model is not None else {}
    else:
        out["graph_solutions"] = graphs
        out["events"] = model
    # every multiset the evidence could contribute belongs to the universe of `forall(..., 'EventSet')`, whether or not the code stored it
    out["_universe"] = [ev.EventSet([x.meta_data["EventType"] for x in l]) for g in graphs for e in g.events.values()
                        for l in (e.post_events, e.previous_events) if l]
    return out


def native_call_args(nat, fname, args):
    return {k: v for k, v in args.items() if k != "_universe"}


def native_old(nat, fname, args, old):
    # the dictionary itself is mutated in place: its pre-state is a copy holding the same Event objects
    if isinstance(args.get("events"), dict):
        nat.old_overrides["events"] = dict(args["events"])
        old = dict(old)
        old["events"] = nat.old_overrides["events"]
    return old


def _rand_job(rng, types):
    """a random acyclic job: events in order, each linked to a random subset of the earlier ones (several starts, forks and joins)"""
    n = rng.randrange(1, 6)
    job = []
    for i in range(n):
        prev = [f"e{p}" for p in range(i) if rng.random() < 0.45]
        job.append([f"e{i}", rng.choice(types), prev])
    return job


def _gen(fn):
    def g(nat, rng, n):
        types = ["A", "B", "C", "D"]
        for _ in range(n):
            jobs = [_rand_job(rng, types) for _ in range(1 if fn != "many" else rng.randrange(0, 4))]
            model = None
            if rng.random() < 0.6 or fn == "one":
                names = rng.sample(types + ["|||START|||"], rng.randrange(0, 4))
                model = [base._rand_event_desc(rng, nm) for nm in names]
            yield _materialise(nat, {"fn": fn, "jobs": jobs, "dummy": rng.random() < 0.5, "model": model})
    return g


def _small(fn):
    def g(nat):
        """every job over <= 3 events of types A / B (all link patterns of the earlier events), with and without the dummy start,
        folded into the empty model, into no model and into a model that already knows A -> {B}"""
        import itertools
        models = [None, [], [{"type": "A", "out": [["B"]], "in": [], "cache": "computed"}]]
        for n in (1, 2, 3):
            pairs = [(i, p) for i in range(n) for p in range(i)]
            for tys in itertools.product("AB", repeat=n):
                for mask in range(2 ** len(pairs)):
                    job = [[f"e{i}", tys[i], [f"e{p}" for k, (ii, p) in enumerate(pairs) if ii == i and mask >> k & 1]] for i in range(n)]
                    for dummy in (False, True):
                        for model in models:
                            if fn == "one" and model is None:
                                continue
                            yield _materialise(nat, {"fn": fn, "jobs": [job] if fn == "one" else [job, job[:1]], "dummy": dummy, "model": model})
    return g


def _gen_jobs(fn):
    def g(nat, rng, n):
        types = ["A", "B", "C", "D"]
        for _ in range(n):
            jobs = [_rand_job(rng, types) for _ in range(rng.randrange(0, 4))]
            model = None
            if rng.random() < 0.6:
                model = [base._rand_event_desc(rng, nm) for nm in rng.sample(types + ["|||START|||"], rng.randrange(0, 4))]
            yield _materialise(nat, {"fn": fn, "jobs": jobs, "dummy": rng.random() < 0.6, "model": model})
    return g


GEN = {
    "get_graph_solutions_from_clustered_events": _gen_jobs("gen"),
    "update_and_create_events_from_clustered_pvevents": _gen_jobs("jobs"),
    "get_events_set_from_events_list": _gen("list"),
    "update_and_create_events_from_graph_solution": _gen("one"),
    "update_and_create_events_from_graph_solutions": _gen("many"),
}
SMALL = {"update_and_create_events_from_graph_solution": _small("one"), "update_and_create_events_from_graph_solutions": _small("many")}


class _Enc(dict):
    def __missing__(self, k):
        return lambda args: getattr(args, "desc", None)


class _Dec(dict):
    def __missing__(self, k):
        return lambda nat, e: _materialise(nat, e)


ENCODE = _Enc()
DECODE = _Dec()
