"""C06 (proved part, structural) - the OR inference rewrites a node of the miner's process tree in place.

Function under contract (real source re-read on every run): tel2puml/logic_detection.py  infer_or_gate_from_node

What is proved is *structural* (the semantic statement of C06 - the inferred tree admits every observed set - needs the miner and
stays with the bounded gate harness): the rewrite
  * keeps the tree well-formed two levels deep: every child of the node names the node as its parent, every grandchild names its
    parent (the defect D13 was a violation of exactly this: children moved below a new gate kept their old parent);
  * loses nothing: every child that is not an "optional" XOR (an XOR with a tau branch) and every non-tau branch of an optional XOR
    is, afterwards, a child or a grandchild of the node (the defect D10 was a violation of exactly this);
  * leaves a node that is not an AND gate, or has no optional XOR child, as it is.
pm4py's ProcessTree is a record (operator, label, children, parent).  A *tau* (silent) branch is a leaf without a label - that is the
meaning taken from the miner, not from the code: the code used to test `str(branch) == "tau"`, which is also true of an observed event
that is itself called "tau" (defect D14: such an event was dropped; the obligations loop3.inv.collected.step / ensures.nothing_lost fail
on that code).  `str(tree)` is still modelled, as a function of (operator, label) with  str == "tau"  <=>  no operator and (no label or
the label "tau")   (ProcessTree.__repr__), for code that uses it.
`check_is_or_operator` is an arbitrary boolean here (trusted: it has no effect).
"""
MODULE = "tel2puml/logic_detection.py"

RECORDS = {
    "Operator": {"fields": {"value": "str"}},
    "OperatorEnum": {"fields": {"PARALLEL": "Operator", "XOR": "Operator", "OR": "Operator", "LOOP": "Operator", "SEQUENCE": "Operator", "BRANCH": "Operator"}},
    "EventSet": {"fields": {}},
    "ProcessTree": {"fields": {"operator": "Optional[Operator]", "label": "Optional[str]", "children": "list[ProcessTree]", "parent": "Optional[ProcessTree]"},
                    "mutable": ["operator", "children", "parent"]},
}
M = ["ProcessTree.operator", "ProcessTree.children", "ProcessTree.parent"]


def WF(n):
    """children name n as their parent, grandchildren name their parent, great-grandchildren theirs"""
    return (f"all(c.parent is {n} for c in {n}.children) and all(all(g.parent is c for g in c.children) for c in {n}.children) "
            f"and all(all(all(h.parent is g for h in g.children) for g in c.children) for c in {n}.children)")


def WF2(n):
    return f"all(c.parent is {n} for c in {n}.children) and all(all(g.parent is c for g in c.children) for c in {n}.children)"


SPECS = '''
def is_tau(o: Optional[Operator], l: Optional[str]) -> bool:
    return o is None and l is None
'''

OPT_XOR = "({c}.operator is not None and {c}.operator.value == 'X' and any(is_tau(g.operator, g.label) for g in {c}.children))"
KEPT = "({x} in node.children or any({x} in k.children for k in node.children))"

# while collecting: nothing but the parent of the collected branches changes
FRAME_COLLECT = ("forall(lambda x: x.children == old(x.children) and x.operator == old(x.operator) and (x in removed_tau_children or x.parent == old(x.parent)), "
                 "'ProcessTree', triggers=[x.children, x.parent, x.operator])")
# while moving nodes below a new gate: children lists and operators stay, and so does the parent of every node that is not being moved
FRAME_MOVE = ("forall(lambda x: x.children == pre_loop(x.children) and x.operator == pre_loop(x.operator) and "
              "(any(x is {moved}[p] for p in range({idx})) or x.parent == pre_loop(x.parent)), 'ProcessTree', triggers=[x.children, x.parent, x.operator])")

CONTRACTS = {
    "check_is_or_operator": {"trusted": True, "ensures": {}},
    "infer_or_gate_from_node": {
        "modifies": M,
        "requires": {
            "wf": WF("node"),
            # a tree: the children are distinct nodes, none of them is the node itself, and no node occurs on two levels
            "tree": "all(node.children[a] is not node.children[b] for a in range(len(node.children)) for b in range(a + 1, len(node.children))) "
                    "and all(c is not node for c in node.children) and all(all(g is not node and all(g is not c2 for c2 in node.children) for g in c.children) for c in node.children)",
        },
        "ensures": {
            "parents": WF2("node"),
            "nothing_lost": "all(implies(not old(" + OPT_XOR.format(c="c") + "), " + KEPT.format(x="c") + ") for c in old(node.children)) and "
                            "all(implies(old(" + OPT_XOR.format(c="c") + "), all(implies(not old(is_tau(g.operator, g.label)), " + KEPT.format(x="g") + ") "
                            "for g in old(c.children))) for c in old(node.children))",
            "untouched_unless_and_with_optional": "implies(old(node.operator is None or node.operator.value != '+' or "
                                                  "not any(" + OPT_XOR.format(c="c") + " for c in node.children)), "
                                                  "node.children == old(node.children) and node.operator == old(node.operator))",
        },
        # names the last child (the new gate, where one was made) so that "a grandchild of the node" has its witness
        "hints": ["implies(len(node.children) > 0, node.children[len(node.children) - 1] in node.children)"],
        "prelude": ["idx_app_rev", "count_witness"],
        # cut points (each fact is an obligation where it stands, then an assumption): where every kept node is, right after each assignment of the
        # node's new children
        "at": {
            "node.children = [*removed_tau_children, new_child_and]": [
                "new_child_and in node.children and new_child_and.children == non_tau_children",
                "all(r in node.children for r in removed_tau_children)",
                "all(any(c in k.children for k in node.children) for c in non_tau_children)",
            ],
            "node.children = removed_tau_children + non_tau_children": [
                "all(r in node.children for r in removed_tau_children) and all(c in node.children for c in non_tau_children)",
            ],
            "node.children = non_tau_children + [new_child_or]": [
                "new_child_or in node.children and new_child_or.children == removed_tau_children",
                "all(c in node.children for c in non_tau_children)",
                "all(any(r in k.children for k in node.children) for r in removed_tau_children)",
            ],
        },
        "locals": {"tau_children": "list[ProcessTree]", "non_tau_children": "list[ProcessTree]", "removed_tau_children": "list[ProcessTree]"},
        "loops": {
            0: {"index": "i", "seq": "cs", "hints_begin": ["all(t is not cs[i] for t in tau_children) and all(t is not cs[i] for t in non_tau_children)",
                                                           "cs[i] not in tau_children and cs[i] not in non_tau_children"], "invariant": {
                "src": "cs == node.children and cs == old(node.children)",
                "split_tau": "all((cs[p] in tau_children) == " + OPT_XOR.format(c="cs[p]") + " for p in range(i))",
                "split_non": "all((cs[p] in non_tau_children) == (not " + OPT_XOR.format(c="cs[p]") + ") for p in range(i))",
                "from_children": "all(any(t is cs[p] for p in range(i)) for t in tau_children) and all(any(t is cs[p] for p in range(i)) for t in non_tau_children)",
            }},
            # (loops are numbered breadth-first: 1 = over the optional XOR children, 2 = moving below the new OR gate, 3 = over the branches of one
            #  optional XOR, 4 = moving below the new AND gate)
            # collecting the non-tau branches of the optional XOR children: they become children of the node
            1: {"index": "k", "seq": "ts", "hints_entry": ["tau_children[0] in tau_children",
                                                           OPT_XOR.format(c="tau_children[0]") + " and any(tau_children[0] is c for c in node.children)"],
                # what the two collecting loops established, said about the children of the node (the lists are as they were on entry)
                "hints_after": ["all(implies(not " + OPT_XOR.format(c="c") + ", c in non_tau_children) for c in node.children)",
                                "all(implies(" + OPT_XOR.format(c="c") + ", c in tau_children) for c in node.children)",
                                "all(implies(" + OPT_XOR.format(c="c") + ", all(implies(not is_tau(g.operator, g.label), g in removed_tau_children) for g in c.children)) "
                                "for c in node.children)"],
                "invariant": {
                "src": "ts == tau_children and node.children == old(node.children)",
                "collected": "all(all(implies(not is_tau(g.operator, g.label), g in removed_tau_children) for g in ts[p].children) for p in range(k))",
                "only": "all(not is_tau(r.operator, r.label) and any(r in ts[p].children for p in range(k)) for r in removed_tau_children)",
                "parents": "all(r.parent is node for r in removed_tau_children)",
                "frame": FRAME_COLLECT,
            }},
            3: {"index": "j", "seq": "gs", "invariant": {
                "src": "gs == child.children and gs == old(child.children) and ts == tau_children and node.children == old(node.children)",
                "collected": "all(all(implies(not is_tau(g.operator, g.label), g in removed_tau_children) for g in ts[p].children) for p in range(k)) and "
                             "all(implies(not is_tau(gs[q].operator, gs[q].label), gs[q] in removed_tau_children) for q in range(j))",
                "only": "all(not is_tau(r.operator, r.label) and (any(r in ts[p].children for p in range(k)) or any(r is gs[q] for q in range(j))) for r in removed_tau_children)",
                "parents": "all(r.parent is node for r in removed_tau_children)",
                "frame": FRAME_COLLECT,
            }},
            # the remaining children move below the new AND gate
            4: {"index": "i3", "seq": "ns", "invariant": {
                "src": "ns == non_tau_children",
                "moved": "all(ns[p].parent is new_child_and for p in range(i3))",
                "frame": FRAME_MOVE.format(moved="ns", idx="i3"),
            }},
            # ... or the collected branches move below the new OR gate
            2: {"index": "i4", "seq": "rs", "invariant": {
                "src": "rs == removed_tau_children",
                "moved": "all(rs[p].parent is new_child_or for p in range(i4))",
                "frame": FRAME_MOVE.format(moved="rs", idx="i4"),
            }},
        },
    },
}
ORDER = ["check_is_or_operator", "infer_or_gate_from_node"]


def setup(V):
    import z3
    from pyvc.engine import V as Val, Unsupported, State
    from pyvc.tys import STR, OptTy

    tree = V.tenv.records["ProcessTree"]
    op = V.tenv.records["Operator"]
    enum = V.tenv.records["OperatorEnum"]
    # the name `Operator` denotes the enum object; its members are distinct Operator values with the strings pm4py / tel2puml give them
    e0 = Val(z3.Const("the$OperatorEnum", V.sort(enum)), enum)
    V.consts["Operator"] = e0
    st0 = State()
    vals = {"PARALLEL": "+", "XOR": "X", "OR": "O", "LOOP": "*", "SEQUENCE": "->", "BRANCH": "BR"}
    for k, v in vals.items():
        m = V.read_field(st0, e0, k)
        V.pre.ax(f"Operator.{k}.value", V.read_field(st0, m, "value").t == V.strlit(v).t)
    V.trusted_used.add("Operator members PARALLEL/XOR/OR/LOOP/SEQUENCE/BRANCH have the values '+', 'X', 'O', '*', '->', 'BR' (pm4py's Operator and tel2puml's are compared through .value only)")
    str_tree = V.pre.func("str_of_tree", V.sort(OptTy(op)), V.sort(OptTy(STR)), V.pre.Str)

    inner_str = V.builtins.get("str")

    def b_str(self, n, st):
        v = self.expr(n.args[0], st)
        if v.ty == tree:
            o, l = self.read_field(st, v, "operator"), self.read_field(st, v, "label")
            key = "str_of_tree.tau"
            if key not in self.pre._done:
                self.pre._done.add(key)
                ov, lv = z3.Const("sto", self.sort(OptTy(op))), z3.Const("stl", self.sort(OptTy(STR)))
                oty, lty = OptTy(op), OptTy(STR)
                tau = z3.And(self.pre.opt_is_none(oty, ov), z3.Or(self.pre.opt_is_none(lty, lv), self.pre.opt_val(lty, lv) == self.strlit("tau").t))
                self.pre.ax(key, z3.ForAll([ov, lv], (str_tree(ov, lv) == self.strlit("tau").t) == tau, patterns=[str_tree(ov, lv)]))
                self.trusted_used.add("str(process tree) == 'tau' exactly for a leaf without label (or labelled 'tau'); str(tree) is modelled as a function of (operator, label) and only ever compared with 'tau'")
            return Val(str_tree(o.t, l.t), STR)
        if inner_str is None:
            raise Unsupported("str()", n)
        return inner_str(self, n, st)
    V.builtins["str"] = b_str

    def ctor_tree(self, n, st):
        """ProcessTree(operator=None, parent=None, children=None, label=None): a new node holding the given values; the children LIST is the
        list passed in (its elements are not touched - in particular their parent fields are not)"""
        names = ["operator", "parent", "children", "label"]
        given = {}
        for nm, a in zip(names, n.args):
            given[nm] = a
        for kw in n.keywords:
            given[kw.arg] = kw.value
        if self.in_comprehension:
            raise Unsupported("ProcessTree(...) inside a comprehension", n)
        r = self.fresh("new.ProcessTree", tree)
        self.assume_fresh(r, tree, st)
        # a new object is none of the existing nodes: not a child / parent of any, and different from every node reachable so far
        x = z3.Const(f"nt${self.site()}", self.sort(tree))
        for f in ("children",):
            arr = self.heap_arr(st, tree, f)
            j = z3.Int(f"ntj${self.site()}")
            self.assume(st, z3.ForAll([x, j], self.pre.seqf(tree.fields["children"], "idx")(z3.Select(arr, x), j) != r.t,
                                      patterns=[self.pre.seqf(tree.fields["children"], "idx")(z3.Select(arr, x), j)]))
        for nm in names:
            fty = tree.fields[nm]
            if nm in given:
                v = self.expr(given[nm], st)
                v = self.coerce(v, fty)
            else:
                v = self.coerce(Val(self.pre.none_val, __import__("pyvc.tys", fromlist=["NONE"]).NONE), fty) if nm != "children" else self.seq_empty(fty)
            if nm in tree.mutable:
                self.write_field(st, r, nm, v)
            else:
                self.assume(st, z3.Select(self.heap_arr(st, tree, nm), r.t) == v.t)
        self.trusted_used.add("ProcessTree(...) yields a new node (not among the children of any existing node) holding exactly the given operator / parent / children / label")
        return r
    V.ctor_handlers["ProcessTree"] = ctor_tree


# ----------------------------------------------------------------------------- native reading
# The same clauses on pm4py's own ProcessTree and the real function.  `x in xs` on pm4py trees is pm4py's structural equality, not identity
# (ProcessTree.__eq__); the generated trees carry pairwise different leaf labels, so that the two coincide on everything except tau leaves.
def _mk_tree(nat, shape, parent=None):
    from pm4py.objects.process_tree.obj import ProcessTree, Operator
    ops = {"+": Operator.PARALLEL, "X": Operator.XOR, "O": Operator.OR, "->": Operator.SEQUENCE, "*": Operator.LOOP}
    if isinstance(shape, str) or shape is None:
        return ProcessTree(None, parent, None, shape)
    t = ProcessTree(ops[shape[0]], parent, None, None)
    t.children = [_mk_tree(nat, s, t) for s in shape[1]]
    return t


def _labels(shape):
    if shape is None:
        return []
    if isinstance(shape, str):
        return [shape]
    return [l for s in shape[1] for l in _labels(s)]


def _rand_shape(rng, names, depth):
    """a random node shape; leaf labels are taken (and removed) from `names`"""
    if depth == 0 or not names or rng.random() < 0.35:
        return names.pop() if names else None
    op = rng.choice(["+", "X", "X", "O", "->", "*"])
    kids = [_rand_shape(rng, names, depth - 1) for _ in range(rng.randint(1, 3))]
    if op == "X" and rng.random() < 0.6:
        kids.insert(rng.randrange(len(kids) + 1), None)
    return [op, kids]


def _gen(nat, rng, n):
    from tel2puml.events import EventSet
    for _ in range(n):
        names = [f"e{i}" for i in range(12)]
        if rng.random() < 0.3:
            names[0] = "tau"          # an observed event may be called what pm4py prints for a silent leaf
        rng.shuffle(names)
        top = rng.choice(["+", "+", "+", "+", "X", "O", "->"])
        kids = []
        for _k in range(rng.randint(0, 4)):
            r = rng.random()
            if r < 0.45:    # an optional XOR (possibly with nothing but taus)
                b = [_rand_shape(rng, names, 1) for _ in range(rng.randint(0, 3))]
                b.insert(rng.randrange(len(b) + 1), None)
                kids.append(["X", b])
            else:
                kids.append(_rand_shape(rng, names, 2))
        shape = [top, kids] if rng.random() < 0.95 else rng.choice([None, "e0"])
        labs = _labels(shape)
        sets = []
        for _s in range(rng.randint(0, 4)):
            # half of the sets come from one child only (that is what makes check_is_or_operator answer yes)
            pool = labs if rng.random() < 0.5 or not kids or not isinstance(shape, list) else _labels(rng.choice(kids))
            sets.append(sorted(l for l in pool if rng.random() < 0.6))
        yield {"event_sets": {EventSet(s) for s in sets if s}, "node": _mk_tree(nat, shape), "$shape": shape, "$sets": [s for s in sets if s]}


GEN = {"infer_or_gate_from_node": _gen}
ENCODE = {"infer_or_gate_from_node": lambda a: {"shape": a["$shape"], "sets": a["$sets"]}}


def _decode(nat, e):
    from tel2puml.events import EventSet
    return {"event_sets": {EventSet(s) for s in e["sets"]}, "node": _mk_tree(nat, e["shape"]), "$shape": e["shape"], "$sets": e["sets"]}


DECODE = {"infer_or_gate_from_node": _decode}


MUTABLE_FIELDS = {"ProcessTree": ["operator", "children", "parent"]}    # old(...) = the live nodes with their pre-state fields (identity kept)
SNAPSHOT_SHALLOW = True


def native_call_args(nat, fname, args):
    return {k: v for k, v in args.items() if not k.startswith("$")}


def validate_trusted(nat, rng, n):
    """the trusted models of pm4py used above, against pm4py itself: the operator values, what ProcessTree(...) stores (and that it leaves the
    nodes of the children list alone), and  str(tree) == "tau"  <=>  no operator and (no label or the label "tau")"""
    from pm4py.objects.process_tree.obj import ProcessTree, Operator as PmOp
    import importlib
    importlib.import_module("tel2puml.events")       # (logic_detection and events import each other: events first)
    ld = importlib.import_module("tel2puml.logic_detection")
    bad, cnt = [], 0
    want = {"PARALLEL": "+", "XOR": "X", "OR": "O", "LOOP": "*", "SEQUENCE": "->"}
    for k, v in want.items():
        cnt += 1
        if getattr(PmOp, k).value != v or getattr(ld.Operator, k).value != v:
            bad.append(("Operator", k))
    cnt += 1
    if ld.Operator.BRANCH.value != "BR":
        bad.append(("Operator", "BRANCH"))
    for _ in range(n):
        names = [f"e{i}" for i in range(8)] + ["tau"]
        rng.shuffle(names)
        shape = _rand_shape(rng, names, 2)
        t = _mk_tree(nat, shape)
        cnt += 1
        model = t.operator is None and (t.label is None or t.label == "tau")
        if (str(t) == "tau") != model:
            bad.append(("str", shape))
        kids = [_mk_tree(nat, _rand_shape(rng, names, 1)) for _ in range(rng.randint(0, 3))]
        before = [(id(k.parent), k.operator, k.label, list(map(id, k.children))) for k in kids]
        par = _mk_tree(nat, ["+", []])
        op = rng.choice([PmOp.PARALLEL, ld.Operator.OR, None])
        new = ProcessTree(op, par, kids) if rng.random() < 0.5 else ProcessTree(operator=op, parent=par, children=kids, label=None)
        after = [(id(k.parent), k.operator, k.label, list(map(id, k.children))) for k in kids]
        if not (new.operator is op and new.parent is par and new.children is kids and new.label is None and before == after and all(new is not c for c in par.children)):
            bad.append(("ProcessTree(...)", shape))
    return cnt, bad
