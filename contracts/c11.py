"""C11 (proved part) - the time window that cleaning uses.

Functions under contract (real source re-read on every run), tel2puml/otel_to_pv/data_holders/base.py:
  DataHolder.__init__, DataHolder.max_timestamp, DataHolder.min_timestamp, DataHolder.save_data, get_time_window

The cleaning operations themselves are SQL statements (outside the verifier's reach): they are checked by the bounded
store harness against the window computed here.
"""
MODULE = "tel2puml/otel_to_pv/data_holders/base.py"
MAXI = 9223372036854775807

RECORDS = {
    "OTelEvent": {"fields": {"job_name": "str", "job_id": "str", "event_type": "str", "event_id": "str", "start_timestamp": "int",
                             "end_timestamp": "int", "application_name": "str", "parent_event_id": "Optional[str]",
                             "child_event_ids": "Optional[list[str]]"}},
    "DataHolder": {"fields": {"_min_timestamp": "int", "_max_timestamp": "int"}, "mutable": ["_min_timestamp", "_max_timestamp"]},
}

FRAME = "forall(lambda h: h is self or (h._min_timestamp == old(h._min_timestamp) and h._max_timestamp == old(h._max_timestamp)), 'DataHolder')"

CONTRACTS = {
    "DataHolder.__init__": {
        "modifies": ["DataHolder._min_timestamp", "DataHolder._max_timestamp"],
        "ensures": {"nothing_seen": f"self._min_timestamp == {MAXI} and self._max_timestamp == 0", "frame": FRAME},
    },
    # nothing saved in this process (e.g. a run with ingestion disabled): the window is everything, [0, MAXI]
    "DataHolder.max_timestamp": {
        "is_property": True, "pure": True,
        "ensures": {"value": f"result == ({MAXI} if self._max_timestamp < self._min_timestamp else self._max_timestamp)"},
    },
    "DataHolder.min_timestamp": {
        "is_property": True, "pure": True,
        "ensures": {"value": "result == (0 if self._min_timestamp > self._max_timestamp else self._min_timestamp)"},
    },
    # the abstract hook that subclasses implement: assumed not to touch the two tracking fields
    "DataHolder._save_data": {"trusted": True, "ensures": {}},
    "DataHolder.save_data": {
        "modifies": ["DataHolder._min_timestamp", "DataHolder._max_timestamp"],
        "ensures": {
            # min = earliest start, max = latest end over everything saved in this process
            "track": "self._min_timestamp == min(old(self._min_timestamp), otel_event.start_timestamp) and "
                     "self._max_timestamp == max(old(self._max_timestamp), otel_event.end_timestamp)",
            "frame": FRAME,
        },
    },
    "get_time_window": {
        "requires": {"buffer": "time_buffer >= 0"},
        # the buffered window [min + b, max - b], b = time_buffer minutes in ns; an error only when it is empty
        "raises": {"ValueError": "data_holder.min_timestamp + time_buffer * 60 * 1000000000 > data_holder.max_timestamp - time_buffer * 60 * 1000000000"},
        "ensures": {
            "window": "result[0] == data_holder.min_timestamp + time_buffer * 60 * 10**9 and result[1] == data_holder.max_timestamp - time_buffer * 60 * 10**9",
            "nonempty": "result[0] <= result[1]",
        },
        "pure": True,
    },
}

LEMMA_EVERYTHING = {
    "name": "no_ingestion_means_everything",
    "forall": {"h": "DataHolder"},
    "requires": [f"h._min_timestamp == {MAXI}", "h._max_timestamp == 0"],
    "ensures": f"get_time_window(0, h)[0] == 0 and get_time_window(0, h)[1] == {MAXI}",
}
LEMMA_SPAN_INSIDE = {
    # with buffer 0 every span that was saved starts and ends inside the window (so cleaning with buffer 0 removes nothing)
    "name": "buffer_zero_contains_saved_span",
    "forall": {"h": "DataHolder", "s": "int", "e": "int"},
    "requires": ["h._min_timestamp <= s", "s <= e", "e <= h._max_timestamp"],
    "ensures": "get_time_window(0, h)[0] <= s and e <= get_time_window(0, h)[1]",
}

ORDER = ["DataHolder.__init__", "DataHolder.max_timestamp", "DataHolder.min_timestamp", "DataHolder._save_data", "DataHolder.save_data",
         "get_time_window", LEMMA_EVERYTHING, LEMMA_SPAN_INSIDE]


# ----------------------------------------------------------------------------- native reading
MUTABLE_FIELDS = {"_DH": ["_min_timestamp", "_max_timestamp"]}


def _dh(nat, lo, hi):
    import importlib
    base = importlib.import_module("tel2puml.otel_to_pv.data_holders.base")

    class _DH(base.DataHolder):
        def _save_data(self, otel_event):
            pass

        def get_otel_events_from_job_ids(self, job_ids):
            return iter(())

        def find_unique_graphs(self):
            return {}

        def stream_data(self, a=None, b=None):
            return iter(())

        def update_job_names_by_root_span(self):
            pass

        def remove_inconsistent_jobs(self):
            pass

        def remove_jobs_outside_of_time_window(self):
            pass
    h = _DH()
    h._min_timestamp, h._max_timestamp = lo, hi
    return h


def _event(nat, s, e):
    import importlib
    t = importlib.import_module("tel2puml.otel_to_pv.otel_to_pv_types")
    return t.OTelEvent(job_name="w", job_id="j", event_type="t", event_id="i", start_timestamp=s, end_timestamp=e, application_name="a",
                       parent_event_id=None, child_event_ids=None)


class _Case(dict):
    pass


def _mat(nat, d):
    out = _Case()
    out.desc = d
    for k, v in d.items():
        if k in ("self", "data_holder"):
            out[k] = _dh(nat, v[0], v[1])
        elif k == "otel_event":
            out[k] = _event(nat, v[0], v[1])
        else:
            out[k] = v
    return out


def _vals(rng):
    pts = [0, 1, 59, 60 * 10**9, 120 * 10**9, 10**12, 2 * 10**12, MAXI - 1, MAXI]
    return rng.choice(pts) if rng.random() < 0.6 else rng.randrange(0, 10**13)


def _gen_holder(key):
    def g(nat, rng, n):
        for _ in range(n):
            yield _mat(nat, {key: [_vals(rng), _vals(rng)]})
    return g


def _gen_save(nat, rng, n):
    for _ in range(n):
        yield _mat(nat, {"self": [_vals(rng), _vals(rng)], "otel_event": [_vals(rng), _vals(rng)]})


def _gen_window(nat, rng, n):
    for _ in range(n):
        yield _mat(nat, {"time_buffer": rng.choice([0, 0, 1, 2, 10, 1000]), "data_holder": rng.choice([[MAXI, 0], [_vals(rng), _vals(rng)], [5, 5], [10**12, 2 * 10**12]])})


def _small_window(nat):
    import itertools
    pts = [0, 60 * 10**9, 120 * 10**9, 180 * 10**9, MAXI]
    for lo, hi in itertools.product(pts, repeat=2):
        for tb in (0, 1, 2):
            yield _mat(nat, {"time_buffer": tb, "data_holder": [lo, hi]})
    yield _mat(nat, {"time_buffer": 0, "data_holder": [MAXI, 0]})


NATIVE_CALL = {
    "DataHolder.max_timestamp": lambda nat, a: a["self"].max_timestamp,
    "DataHolder.min_timestamp": lambda nat, a: a["self"].min_timestamp,
}
GEN = {"DataHolder.max_timestamp": _gen_holder("self"), "DataHolder.min_timestamp": _gen_holder("self"), "DataHolder.save_data": _gen_save,
       "get_time_window": _gen_window}
SMALL = {"get_time_window": _small_window}


class _Enc(dict):
    def __missing__(self, k):
        return lambda args: getattr(args, "desc", None)


class _Dec(dict):
    def __missing__(self, k):
        return lambda nat, e: _mat(nat, e)


ENCODE = _Enc()
DECODE = _Dec()
