"""C09 (proved part) - the shape hash of a call tree.

Functions under contract (real source re-read on every run),
tel2puml/otel_to_pv/data_holders/sql_data_holder/sql_dataholder.py:
  create_event_id_to_child_nodes_map, compute_graph_hash_from_event_ids

The selection itself (temp table, batches of roots, GROUP BY job_name, job_hash) is SQL: it is checked by the bounded
store harness against canonical shapes.  What is proved here is that the hash computed for a root is the mathematical
function H of the stored tree (type of the node, *multiset* of the hashes of its children) - in particular children
are taken from the parent links and repeated identical sub-trees count as often as they occur.
"""
MODULE = "tel2puml/otel_to_pv/data_holders/sql_data_holder/sql_dataholder.py"

RECORDS = {
    "NodeModel": {"fields": {"job_name": "str", "job_id": "str", "event_type": "str", "event_id": "str", "start_timestamp": "int",
                             "end_timestamp": "int", "application_name": "str", "parent_event_id": "Optional[str]"}},
}

RECORDS.update({
    "JobHash": {"struct": True, "fields": {"job_id": "str", "job_hash": "str", "job_name": "str"}},
    "Table": {"fields": {}},
    "SQLDataHolder": {"fields": {"g_roots": "list[NodeModel]", "g_hashes": "list[JobHash]", "batch_size": "int", "time_buffer": "int"},
                      "mutable": ["g_hashes"]},
})

SPECS = '''
@opaque
def size(n: NodeModel) -> int:
    return 0

@opaque
def window_empty(time_buffer: int, h: SQLDataHolder) -> bool:
    return False

def reps_of(reps: list[tuple[str, str]], hs: list[JobHash]) -> bool:
    return (all(any(hs[q].job_name == reps[k][0] and hs[q].job_id == reps[k][1] for q in range(len(hs))) for k in range(len(reps)))
            and all(any(any(hs[q2].job_name == reps[k][0] and hs[q2].job_id == reps[k][1] and hs[q2].job_name == hs[q].job_name
                            and hs[q2].job_hash == hs[q].job_hash for q2 in range(len(hs))) for k in range(len(reps))) for q in range(len(hs)))
            and all(not (hs[q1].job_name == reps[k1][0] and hs[q1].job_id == reps[k1][1] and hs[q2].job_name == reps[k2][0] and hs[q2].job_id == reps[k2][1]
                         and hs[q1].job_name == hs[q2].job_name and hs[q1].job_hash == hs[q2].job_hash)
                    for k1 in range(len(reps)) for k2 in range(k1 + 1, len(reps)) for q1 in range(len(hs)) for q2 in range(len(hs))))

def distinct_jobs(hs: list[JobHash]) -> bool:
    return all(hs[a].job_id != hs[b].job_id for a in range(len(hs)) for b in range(a + 1, len(hs)))

def H(n: NodeModel, M: dict[str, list[NodeModel]]) -> str:
    return (xxh(n.event_type + "".join(sorted([H(c, M) for c in M[n.event_id]]))) if n.event_id in M else xxh(n.event_type))
'''

SELECTED = {"every_shape_represented": "all(any(HS[q2].job_name == HS[q].job_name and HS[q2].job_hash == HS[q].job_hash and HS[q].job_name in result and HS[q2].job_id in result[HS[q].job_name] for q2 in range(len(HS))) for q in range(len(HS)))".replace("HS", "sql_data_holder.g_hashes"), "one_per_shape": "all(not (q1 != q2 and HS[q1].job_name == HS[q2].job_name and HS[q1].job_hash == HS[q2].job_hash and HS[q1].job_name in result and HS[q1].job_id in result[HS[q1].job_name] and HS[q2].job_id in result[HS[q1].job_name]) for q1 in range(len(HS)) for q2 in range(len(HS)))".replace("HS", "sql_data_holder.g_hashes"), "only_hashed_traces": "forall(lambda nm, i: implies(nm in result and i in result[nm], any(HS[q].job_name == nm and HS[q].job_id == i for q in range(len(HS)))), 'str', 'str')".replace("HS", "sql_data_holder.g_hashes")}

TREE = "forall(lambda x: implies(x.event_id in node_to_children, all(0 <= size(c) < size(x) for c in node_to_children[x.event_id])), 'NodeModel', triggers=[x.event_id])"

CONTRACTS = {
    "create_event_id_to_child_nodes_map": {
        "params": {"nodes": "list[NodeModel]"},
        "ensures": {
            "keys": "forall(lambda k: (k in result) == any(nodes[p].event_id == k or (nodes[p].parent_event_id is not None and nodes[p].parent_event_id == k) "
                    "for p in range(len(nodes))), 'str')",
            # the children of k are exactly the nodes whose parent link is k, in input order, each as often as it occurs
            "children": "forall(lambda k: implies(k in result, result[k] == [n for n in nodes if n.parent_event_id is not None and n.parent_event_id == k]), 'str')",
        },
        "loops": {0: {"index": "i", "invariant": {
            "keys": "forall(lambda k: (k in event_id_to_child_nodes_map) == any(nodes[p].event_id == k or (nodes[p].parent_event_id is not None and "
                    "nodes[p].parent_event_id == k) for p in range(i)), 'str')",
            "children": "forall(lambda k: implies(k in event_id_to_child_nodes_map, event_id_to_child_nodes_map[k] == "
                        "[n for n in nodes[:i] if n.parent_event_id is not None and n.parent_event_id == k]), 'str')",
        }, "hints_end": ["nodes[:i] == nodes[:i - 1] + [nodes[i - 1]]"]}},
        "locals": {"event_id_to_child_nodes_map": "dict[str, list[NodeModel]]"},
        "pure": True,
    },
    "compute_graph_hash_from_event_ids": {
        "requires": {"tree": TREE},
        "decreases": "size(node)",
        "ensures": {"shape_hash": "result == H(node, node_to_children)"},
        "hints": ["implies(node.event_id in node_to_children, [compute_graph_hash_from_event_ids(c, node_to_children) for c in node_to_children[node.event_id]] "
                  "== [H(c, node_to_children) for c in node_to_children[node.event_id]])"],
        "pure": True,
    },
    # ------------------------------------------------------------------ walking the roots in batches (ghost: g_roots = the rows of the
    # temporary root table in the order the batches are cut from it, g_hashes = the job_hashes rows written so far)
    "compute_graph_hashes_from_root_nodes": {
        "requires": {"tree": TREE},
        "ensures": {
            "one_row_per_root": "len(result) == len(root_nodes)",
            "rows": "all(result[p].job_id == root_nodes[p].job_id and result[p].job_name == root_nodes[p].job_name "
                    "and result[p].job_hash == H(root_nodes[p], node_to_children) for p in range(len(root_nodes)))",
        },
        "pure": True,
    },
    "get_sql_batch_nodes": {
        "trusted": True, "pure": True,
        # the stored spans of the given traces; the store holds forests (no parent cycles): the tree precondition of the hash
        "ensures": {"forest": "forall(lambda x: implies(x.event_id in create_event_id_to_child_nodes_map(result), all(0 <= size(c) < size(x) "
                              "for c in create_event_id_to_child_nodes_map(result)[x.event_id])), 'NodeModel', triggers=[x.event_id])"},
    },
    "insert_job_hashes": {
        "trusted": True, "modifies": ["SQLDataHolder.g_hashes"],
        "raises": {"IntegrityError": "any(any(h.job_id == r.job_id for h in sql_data_holder.g_hashes) for r in job_hashes) or "
                                     "any(job_hashes[a].job_id == job_hashes[b].job_id for a in range(len(job_hashes)) for b in range(a + 1, len(job_hashes)))"},
        "ensures": {"appended": "sql_data_holder.g_hashes == old(sql_data_holder.g_hashes) + job_hashes"},
    },
    "compute_graph_hashes_for_batch": {
        "modifies": ["SQLDataHolder.g_hashes"], "atomic_raises": True,
        "raises": {"IntegrityError": "any(any(h.job_id == r.job_id for h in sql_data_holder.g_hashes) for r in root_nodes) or "
                                     "any(root_nodes[a].job_id == root_nodes[b].job_id for a in range(len(root_nodes)) for b in range(a + 1, len(root_nodes)))"},
        "ensures": {
            "one_row_per_root": "len(sql_data_holder.g_hashes) == len(old(sql_data_holder.g_hashes)) + len(root_nodes)",
            "earlier_rows_kept": "all(sql_data_holder.g_hashes[q] == old(sql_data_holder.g_hashes)[q] for q in range(len(old(sql_data_holder.g_hashes))))",
            "ids": "all(sql_data_holder.g_hashes[q].job_id == root_nodes[q - len(old(sql_data_holder.g_hashes))].job_id and "
                   "sql_data_holder.g_hashes[q].job_name == root_nodes[q - len(old(sql_data_holder.g_hashes))].job_name "
                   "for q in range(len(old(sql_data_holder.g_hashes)), len(sql_data_holder.g_hashes)))",
        },
    },
    "get_time_window": {"trusted": True, "external": True, "params": {"time_buffer": "int", "data_holder": "SQLDataHolder"}, "returns": "tuple[int, int]",
                        "raises": {"ValueError": "window_empty(time_buffer, data_holder)"}, "ensures": {}},
    "create_temp_table_of_root_nodes_in_time_window": {"trusted": True, "ensures": {}, "params": {"time_window": "tuple[int, int]"}},
    "get_root_nodes": {
        "trusted": True,
        "raises": {"ValueError": "start_row < 0 or batch_size < 0"},
        # a slice of the root table (Python slice semantics: clamped at the end)
        "ensures": {"slice": "result == data_holder.g_roots[min(start_row, len(data_holder.g_roots)):min(start_row + batch_size, len(data_holder.g_roots))]"},
    },
    # one trace id per (name, hash) group: the GROUP BY is SQL (trusted ghost effect: the fetched rows are representatives of the groups),
    # the regrouping into name -> set of ids is verified
    "get_unique_graph_job_ids_per_job_name": {
        "externals": ["sa", "session"],
        "locals": {"job_hashes": "list[tuple[str, str]]", "job_name_to_job_ids": "dict[str, set[str]]"},
        "ghost_effects": [{"after": "job_hashes = session.execute(stmt).fetchall()", "modifies": [],
                           "ensures": {"representatives": "reps_of(job_hashes, sql_data_holder.g_hashes)"}}],
        "requires": {"distinct_jobs": "distinct_jobs(sql_data_holder.g_hashes)"},
        "ensures": SELECTED,
        "loops": {0: {"index": "k", "seq": "reps", "invariant": {
            "src": "reps == job_hashes and reps_of(reps, sql_data_holder.g_hashes)",
            "names": "forall(lambda nm: (nm in job_name_to_job_ids) == any(reps[p][0] == nm for p in range(k)), 'str')",
            "collected": "forall(lambda nm, i: implies(nm in job_name_to_job_ids, (i in job_name_to_job_ids[nm]) == any(reps[p][0] == nm and reps[p][1] == i "
                         "for p in range(k))), 'str', 'str')",
        }}},
    },
    "find_unique_graphs": {
        "modifies": ["SQLDataHolder.g_hashes"],
        "externals": ["sa", "session"],
        "ghost_effects": [{"after": "session.execute(sa.delete(JobHash))", "modifies": ["SQLDataHolder.g_hashes"],
                           "ensures": {"emptied": "len(sql_data_holder.g_hashes) == 0"}}],
        "requires": {
            "batch": "batch_size >= 1",
            # one root span per trace (a trace with two parentless spans makes the real function fail with IntegrityError - observed, DESIGN I.3)
            "one_root_per_trace": "all(sql_data_holder.g_roots[a].job_id != sql_data_holder.g_roots[b].job_id for a in range(len(sql_data_holder.g_roots)) "
                                  "for b in range(a + 1, len(sql_data_holder.g_roots)))",
        },
        "raises": {"ValueError": "window_empty(time_buffer, sql_data_holder)"},
        "ensures": {
            # every root trace of the window is hashed exactly once, whatever the batch size
            "every_root_hashed_once": "len(sql_data_holder.g_hashes) == len(sql_data_holder.g_roots) and all(sql_data_holder.g_hashes[p].job_id == "
                                      "sql_data_holder.g_roots[p].job_id and sql_data_holder.g_hashes[p].job_name == sql_data_holder.g_roots[p].job_name "
                                      "for p in range(len(sql_data_holder.g_roots)))",
            # "... the selected traces contain exactly one representative of every distinct [hash class] ... and two traces of the same shape
            # are never both selected" - over the hash rows just written, per workflow name
            **SELECTED,
        },
        "loops": {0: {"invariant": {
            "progress": "start_row >= 0",
            "hashed_prefix": "len(sql_data_holder.g_hashes) == min(start_row, len(sql_data_holder.g_roots)) and all(sql_data_holder.g_hashes[p].job_id == "
                             "sql_data_holder.g_roots[p].job_id and sql_data_holder.g_hashes[p].job_name == sql_data_holder.g_roots[p].job_name "
                             "for p in range(len(sql_data_holder.g_hashes)))",
        }, "hints_end": [
            "start_row - batch_size < len(sql_data_holder.g_roots)",
            "len(root_nodes) == min(start_row, len(sql_data_holder.g_roots)) - (start_row - batch_size)",
            "all(root_nodes[p] is sql_data_holder.g_roots[start_row - batch_size + p] for p in range(len(root_nodes)))",
        ]}},
    },
}
ORDER = ["create_event_id_to_child_nodes_map", "compute_graph_hash_from_event_ids", "compute_graph_hashes_from_root_nodes", "get_sql_batch_nodes",
         "insert_job_hashes", "compute_graph_hashes_for_batch", "get_time_window", "create_temp_table_of_root_nodes_in_time_window", "get_root_nodes",
         "get_unique_graph_job_ids_per_job_name", "find_unique_graphs"]


def setup(V):
    import z3
    from pyvc.engine import V as Val
    from pyvc.tys import STR

    xxh = V.pre.func("xxh64_hexdigest", V.pre.Str, V.pre.Str)

    def b_xxh(self, n, st):
        s = self.coerce(self.expr(n.args[0], st), STR)
        self.trusted_used.add("xxhash.xxh64_hexdigest is a function of its argument string (uninterpreted)")
        return Val(xxh(s.t), STR)
    V.builtins["xxhash.xxh64_hexdigest"] = b_xxh
    V.builtins["xxh"] = b_xxh


# ----------------------------------------------------------------------------- native reading
def native_env(nat):
    import xxhash

    def xxh(s):
        return xxhash.xxh64_hexdigest(s)

    def size(n):
        by_parent = {}
        for x in nat.universe.get("NodeModel", []):
            by_parent.setdefault(x.parent_event_id, []).append(x)

        def sz(x, seen=()):
            if x.event_id in seen:
                return float("inf")
            return 1 + sum(sz(c, seen + (x.event_id,)) for c in by_parent.get(x.event_id, []))
        return sz(n)
    return {"xxh": xxh, "size": size}


def _node(nat, eid, etype, parent, job="j"):
    import importlib
    dm = importlib.import_module("tel2puml.otel_to_pv.data_holders.sql_data_holder.data_model")
    return dm.NodeModel(job_name="w", job_id=job, event_type=etype, event_id=eid, start_timestamp=0, end_timestamp=1, application_name="a",
                        parent_event_id=parent)


class _Case(dict):
    pass


def _mat(nat, d):
    out = _Case()
    out.desc = d
    nodes = [_node(nat, e, t, p) for (e, t, p) in d["nodes"]]
    if "root" in d:
        import importlib
        m = importlib.import_module("tel2puml.otel_to_pv.data_holders.sql_data_holder.sql_dataholder")
        out["node"] = nodes[d["root"]]
        out["node_to_children"] = m.create_event_id_to_child_nodes_map(nodes)
    else:
        out["nodes"] = nodes
    return out


def _rand_nodes(rng, dangling=True):
    n = rng.randrange(0, 7)
    out = []
    for i in range(n):
        r = rng.random()
        parent = None if i == 0 or r < 0.15 else (f"n{rng.randrange(0, i)}" if r < 0.9 or not dangling else "ghost")
        out.append([f"n{i}", rng.choice("AB"), parent])
    return out


def _gen_map(nat, rng, n):
    for _ in range(n):
        nodes = _rand_nodes(rng)
        rng.shuffle(nodes)
        yield _mat(nat, {"nodes": nodes})


def _gen_hash(nat, rng, n):
    for _ in range(n):
        nodes = _rand_nodes(rng, dangling=False)
        if nodes:
            yield _mat(nat, {"nodes": nodes, "root": 0})


def _small_hash(nat):
    """every labelled rooted tree with <= 4 nodes over two types (repeated identical siblings included)"""
    import itertools
    for n in range(1, 5):
        for par in itertools.product(*[range(i) for i in range(1, n)]):
            for lab in itertools.product("AB", repeat=n):
                yield _mat(nat, {"nodes": [[f"n{i}", lab[i], None if i == 0 else f"n{par[i - 1]}"] for i in range(n)], "root": 0})


GEN = {"create_event_id_to_child_nodes_map": _gen_map, "compute_graph_hash_from_event_ids": _gen_hash}
SMALL = {"compute_graph_hash_from_event_ids": _small_hash}


class _Enc(dict):
    def __missing__(self, k):
        return lambda args: getattr(args, "desc", None)


class _Dec(dict):
    def __missing__(self, k):
        return lambda nat, e: _mat(nat, e)


ENCODE = _Enc()
DECODE = _Dec()
