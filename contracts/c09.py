"""C09 (proved part) - the shape hash of a call tree.

Functions under contract (real source re-read on every run),
tel2puml/otel_to_pv/data_holders/sql_data_holder/sql_dataholder.py:
  create_event_id_to_child_nodes_map, compute_graph_hash_from_event_ids

The selection itself (temp table, batches of roots, GROUP BY job_name, job_hash) is SQL: it is checked by the bounded
store harness against canonical shapes.  What is proved here is that the hash computed for a root is the mathematical
function H of the stored tree (type of the node, *multiset* of the hashes of its children) - in particular children
are taken from the parent links and repeated identical sub-trees count as often as they occur.
"""
MODULE = "tel2puml/otel_to_pv/data_holders/sql_data_holder/sql_dataholder.py"

RECORDS = {
    "NodeModel": {"fields": {"job_name": "str", "job_id": "str", "event_type": "str", "event_id": "str", "start_timestamp": "int",
                             "end_timestamp": "int", "application_name": "str", "parent_event_id": "Optional[str]"}},
}

SPECS = '''
@opaque
def size(n: NodeModel) -> int:
    return 0

def H(n: NodeModel, M: dict[str, list[NodeModel]]) -> str:
    return (xxh(n.event_type + "".join(sorted([H(c, M) for c in M[n.event_id]]))) if n.event_id in M else xxh(n.event_type))
'''

TREE = "forall(lambda x: implies(x.event_id in node_to_children, all(0 <= size(c) < size(x) for c in node_to_children[x.event_id])), 'NodeModel', triggers=[x.event_id])"

CONTRACTS = {
    "create_event_id_to_child_nodes_map": {
        "params": {"nodes": "list[NodeModel]"},
        "ensures": {
            "keys": "forall(lambda k: (k in result) == any(nodes[p].event_id == k or (nodes[p].parent_event_id is not None and nodes[p].parent_event_id == k) "
                    "for p in range(len(nodes))), 'str')",
            # the children of k are exactly the nodes whose parent link is k, in input order, each as often as it occurs
            "children": "forall(lambda k: implies(k in result, result[k] == [n for n in nodes if n.parent_event_id is not None and n.parent_event_id == k]), 'str')",
        },
        "loops": {0: {"index": "i", "invariant": {
            "keys": "forall(lambda k: (k in event_id_to_child_nodes_map) == any(nodes[p].event_id == k or (nodes[p].parent_event_id is not None and "
                    "nodes[p].parent_event_id == k) for p in range(i)), 'str')",
            "children": "forall(lambda k: implies(k in event_id_to_child_nodes_map, event_id_to_child_nodes_map[k] == "
                        "[n for n in nodes[:i] if n.parent_event_id is not None and n.parent_event_id == k]), 'str')",
        }, "hints_end": ["nodes[:i] == nodes[:i - 1] + [nodes[i - 1]]"]}},
        "locals": {"event_id_to_child_nodes_map": "dict[str, list[NodeModel]]"},
        "pure": True,
    },
    "compute_graph_hash_from_event_ids": {
        "requires": {"tree": TREE},
        "decreases": "size(node)",
        "ensures": {"shape_hash": "result == H(node, node_to_children)"},
        "hints": ["implies(node.event_id in node_to_children, [compute_graph_hash_from_event_ids(c, node_to_children) for c in node_to_children[node.event_id]] "
                  "== [H(c, node_to_children) for c in node_to_children[node.event_id]])"],
        "pure": True,
    },
}
ORDER = ["create_event_id_to_child_nodes_map", "compute_graph_hash_from_event_ids"]


def setup(V):
    import z3
    from pyvc.engine import V as Val
    from pyvc.tys import STR

    xxh = V.pre.func("xxh64_hexdigest", V.pre.Str, V.pre.Str)

    def b_xxh(self, n, st):
        s = self.coerce(self.expr(n.args[0], st), STR)
        self.trusted_used.add("xxhash.xxh64_hexdigest is a function of its argument string (uninterpreted)")
        return Val(xxh(s.t), STR)
    V.builtins["xxhash.xxh64_hexdigest"] = b_xxh
    V.builtins["xxh"] = b_xxh


# ----------------------------------------------------------------------------- native reading
def native_env(nat):
    import xxhash

    def xxh(s):
        return xxhash.xxh64_hexdigest(s)

    def size(n):
        by_parent = {}
        for x in nat.universe.get("NodeModel", []):
            by_parent.setdefault(x.parent_event_id, []).append(x)

        def sz(x, seen=()):
            if x.event_id in seen:
                return float("inf")
            return 1 + sum(sz(c, seen + (x.event_id,)) for c in by_parent.get(x.event_id, []))
        return sz(n)
    return {"xxh": xxh, "size": size}


def _node(nat, eid, etype, parent, job="j"):
    import importlib
    dm = importlib.import_module("tel2puml.otel_to_pv.data_holders.sql_data_holder.data_model")
    return dm.NodeModel(job_name="w", job_id=job, event_type=etype, event_id=eid, start_timestamp=0, end_timestamp=1, application_name="a",
                        parent_event_id=parent)


class _Case(dict):
    pass


def _mat(nat, d):
    out = _Case()
    out.desc = d
    nodes = [_node(nat, e, t, p) for (e, t, p) in d["nodes"]]
    if "root" in d:
        import importlib
        m = importlib.import_module("tel2puml.otel_to_pv.data_holders.sql_data_holder.sql_dataholder")
        out["node"] = nodes[d["root"]]
        out["node_to_children"] = m.create_event_id_to_child_nodes_map(nodes)
    else:
        out["nodes"] = nodes
    return out


def _rand_nodes(rng, dangling=True):
    n = rng.randrange(0, 7)
    out = []
    for i in range(n):
        r = rng.random()
        parent = None if i == 0 or r < 0.15 else (f"n{rng.randrange(0, i)}" if r < 0.9 or not dangling else "ghost")
        out.append([f"n{i}", rng.choice("AB"), parent])
    return out


def _gen_map(nat, rng, n):
    for _ in range(n):
        nodes = _rand_nodes(rng)
        rng.shuffle(nodes)
        yield _mat(nat, {"nodes": nodes})


def _gen_hash(nat, rng, n):
    for _ in range(n):
        nodes = _rand_nodes(rng, dangling=False)
        if nodes:
            yield _mat(nat, {"nodes": nodes, "root": 0})


def _small_hash(nat):
    """every labelled rooted tree with <= 4 nodes over two types (repeated identical siblings included)"""
    import itertools
    for n in range(1, 5):
        for par in itertools.product(*[range(i) for i in range(1, n)]):
            for lab in itertools.product("AB", repeat=n):
                yield _mat(nat, {"nodes": [[f"n{i}", lab[i], None if i == 0 else f"n{par[i - 1]}"] for i in range(n)], "root": 0})


GEN = {"create_event_id_to_child_nodes_map": _gen_map, "compute_graph_hash_from_event_ids": _gen_hash}
SMALL = {"compute_graph_hash_from_event_ids": _small_hash}


class _Enc(dict):
    def __missing__(self, k):
        return lambda args: getattr(args, "desc", None)


class _Dec(dict):
    def __missing__(self, k):
        return lambda nat, e: _mat(nat, e)


ENCODE = _Enc()
DECODE = _Dec()
