"""C16 - PV timestamps and OTel nanosecond times convert consistently.

Functions under contract (real source re-read on every run):
  tel2puml/utils.py      datetime_to_pv_string, unix_nano_to_pv_string
  tel2puml/pv_to_tel.py  convert_timestamp_to_unix_nano
"""
USES_DATETIME = True
FILES = {
    "datetime_to_pv_string": "tel2puml/utils.py",
    "unix_nano_to_pv_string": "tel2puml/utils.py",
    "convert_timestamp_to_unix_nano": "tel2puml/pv_to_tel.py",
}
N2100 = 4102444800 * 10**9        # 2100-01-01T00:00:00Z in ns
K2100 = 4102444800 * 10**6        # ... in us
K9999 = 253402300799999999
KMIN = -62135596800 * 10**6       # 0001-01-01T00:00:00Z in us

# input-binade chunks for the float VCs (DESIGN 4/C16): [lo, hi) in ns
_BOUNDS = [0, 1000] + [1000 * 2**e for e in range(4, 53, 4)]
_BOUNDS = [b for b in _BOUNDS if b < N2100] + [N2100 + 1]
SPLITS_NS = {f"ns{i:02d}": f"{lo} <= unix_nano < {hi}" for i, (lo, hi) in enumerate(zip(_BOUNDS, _BOUNDS[1:]))}

CONTRACTS = {
    "datetime_to_pv_string": {
        "requires": {"year_range": f"0 <= us_count(date_time) <= {K9999}"},
        "ensures": {"canonical": "result == pv_str_of(us_count(date_time))"},
        "pure": True,
    },
    "unix_nano_to_pv_string": {
        "requires": {
            "range": f"0 <= unix_nano <= {N2100}",
        },
        "ensures": {
            # microsecond-precision instants are converted exactly ...
            "exact": "implies(unix_nano % 1000 == 0, result == pv_str_of(unix_nano // 1000))",
            # ... and any nanosecond instant lands on a canonical string less than one microsecond away
            "canonical": "result == pv_str_of(pv_k(result))",
            "close": "-1000 < 1000 * pv_k(result) - unix_nano < 1000",
        },
        "splits": SPLITS_NS,
        "witness": {"unix_nano": "unix_nano"},
        "pure": True,
    },
    "convert_timestamp_to_unix_nano": {
        "params": {},
        # the PV -> ns direction is exact integer arithmetic: it is specified (and proved) for every canonical PV string from year 1 on,
        # not only for the 1970..2100 range in which the float-based ns -> PV direction is proved
        "requires": {"wf": f"{KMIN} <= pv_k(iso_timestamp) <= {K2100} and iso_timestamp == pv_str_of(pv_k(iso_timestamp))"},
        "ensures": {"instant": "result == 1000 * pv_k(iso_timestamp)"},
        "witness": {"k": "pv_k(iso_timestamp)"},
        "pure": True,
    },
}

LEMMA_ROUND_TRIP = {
    "name": "round_trip",
    "forall": {"k": "int"},
    "requires": [f"0 <= k <= {K2100}"],
    "ensures": "unix_nano_to_pv_string(convert_timestamp_to_unix_nano(pv_str_of(k))) == pv_str_of(k)",
    "hints": ["pv_k(pv_str_of(k)) == k"],
}
LEMMA_ORDER = {
    "name": "order_preserved",
    "forall": {"a": "int", "b": "int"},
    "requires": [f"0 <= a <= {K2100}", f"0 <= b <= {K2100}", "a < b"],
    "ensures": "unix_nano_to_pv_string(1000 * a) < unix_nano_to_pv_string(1000 * b)",
}
LEMMA_ORDER_NS = {
    "name": "order_preserved_ns",
    "forall": {"a": "int", "b": "int"},
    "requires": [f"0 <= a <= {N2100}", f"0 <= b <= {N2100}", "a + 2000 <= b"],
    "ensures": "unix_nano_to_pv_string(a) < unix_nano_to_pv_string(b)",
    "hints": ["unix_nano_to_pv_string(a) == pv_str_of(pv_k(unix_nano_to_pv_string(a)))",
              "unix_nano_to_pv_string(b) == pv_str_of(pv_k(unix_nano_to_pv_string(b)))"],
}
LEMMA_US_PRESERVED = {
    "name": "microsecond_value_preserved",
    "forall": {"a": "int", "b": "int"},
    "requires": [f"0 <= a <= {K2100}", f"0 <= b <= {K2100}", "unix_nano_to_pv_string(1000 * a) == unix_nano_to_pv_string(1000 * b)"],
    "ensures": "a == b",
    "hints": ["pv_k(pv_str_of(a)) == a", "pv_k(pv_str_of(b)) == b"],
}

ORDER = ["datetime_to_pv_string", "unix_nano_to_pv_string", "convert_timestamp_to_unix_nano",
         LEMMA_ROUND_TRIP, LEMMA_ORDER, LEMMA_ORDER_NS, LEMMA_US_PRESERVED]


def setup(V):
    """spec vocabulary: us_count(dt) (the datetime's microsecond count) and pv_k(s)
    (the microsecond count a canonical PV string denotes: inverse of pv_str_of)."""
    import z3
    from pyvc.engine import V as Val
    from pyvc.tys import INT

    def us_count(self, n, st):
        v = self.expr(n.args[0], st)
        return Val(v.t, INT)
    V.builtins["us_count"] = us_count

    def pv_k(self, n, st):
        s = self.expr(n.args[0], st)
        return Val(self.pre.fn["pv_str_inv"](s.t), INT)
    V.builtins["pv_k"] = pv_k


# ----------------------------------------------------------------------------- native reading (CPython)
def native_env(nat):
    from datetime import datetime, timezone, timedelta
    epoch = datetime(1970, 1, 1, tzinfo=timezone.utc)

    def pv_str_of(k):
        return (epoch + timedelta(microseconds=k)).strftime("%Y-%m-%dT%H:%M:%S.%fZ")

    def pv_k(s):
        d = datetime.strptime(s, "%Y-%m-%dT%H:%M:%S.%fZ").replace(tzinfo=timezone.utc)
        return (d - epoch) // timedelta(microseconds=1)

    def us_count(d):
        return (d - epoch) // timedelta(microseconds=1)
    fns = {"pv_str_of": pv_str_of, "pv_k": pv_k, "us_count": us_count}
    # the pure functions under contract double as spec symbols in lemma texts
    import importlib
    fns["unix_nano_to_pv_string"] = importlib.import_module("tel2puml.utils").unix_nano_to_pv_string
    fns["convert_timestamp_to_unix_nano"] = importlib.import_module("tel2puml.pv_to_tel").convert_timestamp_to_unix_nano
    return fns


def _ks(rng, n):
    """microsecond counts: boundaries exhaustively, the rest sampled"""
    edge = [0, 1, 2, 999, 1000, 999999, 10**6, 10**6 + 1, K2100, K2100 - 1, 2**31 * 10**6, 2**31 * 10**6 - 1, 2**31 * 10**6 + 1,
            2**32 * 10**6 - 1, 2**53 // 1000, 2**52 // 1000, 1700000000 * 10**6 + 123456, 86400 * 10**6 - 1, 951782400 * 10**6 - 1,
            129, 4102444799999952]
    for e in range(0, 52):
        for d in (-1, 0, 1):
            edge.append(2**e + d)
    for s in (2**30, 2**31 - 1, 2**31, 1_000_000_000, 4102444799):
        for us in (0, 1, 499999, 500000, 500001, 999998, 999999):
            edge.append(s * 10**6 + us)
    seen = set()
    for k in edge:
        if 0 <= k <= K2100 and k not in seen:
            seen.add(k)
            yield k
    for _ in range(n):
        yield rng.randrange(0, K2100 + 1)


def _ks_signed(rng, n):
    yield from _ks(rng, n)
    for k in (-1, -500000, -999999, -10**6, -10**6 - 1, -86400 * 10**6 + 1, -2208988800 * 10**6 + 500000, KMIN, KMIN + 1):
        yield k
    for _ in range(n // 4):
        yield -rng.randrange(1, 2208988800 * 10**6)


def _ns(rng, n):
    """nanosecond instants: microsecond-aligned ones, plus unaligned ones around every rounding / carry boundary"""
    for k in _ks(rng, n):
        yield 1000 * k
    for s in (0, 1, 59, 86399, 2**30, 2**31 - 1, 2**31, 1_000_000_000, 1_700_000_000, 4102444799):
        for ns in (1, 499, 500, 501, 999, 1499, 1500, 1501, 499_999_500, 999_998_499, 999_998_500, 999_999_000, 999_999_499,
                   999_999_500, 999_999_501, 999_999_999):
            yield s * 10**9 + ns
    for _ in range(n):
        yield rng.randrange(0, N2100 + 1)
    for _ in range(n // 4):
        yield rng.randrange(0, 4102444800) * 10**9 + 999_999_000 + rng.randrange(0, 1000)


def _ns_with_history(nat, rng, n):
    """the converter is a function of its argument alone: every third instant is first shown to the public helper datetime_to_pv_string as a
    datetime of the *same instant* in another time zone (what an outside caller may do; the helper's answer is not looked at) - a conversion
    of a span time must not depend on such earlier calls in the process.  The earlier call is part of the case (`$poke` = the zone's offset
    in hours), made by the native call wrapper, so a replay file reproduces it."""
    for i, v in enumerate(_ns(rng, n)):
        if i % 3 == 0 and v % 1000 == 0:
            yield {"unix_nano": v, "$poke": rng.choice([1, -5, 9])}
        else:
            yield {"unix_nano": v}


def _call_unix(nat, args):
    import importlib
    from datetime import datetime, timezone, timedelta
    u = importlib.import_module("tel2puml.utils")
    a = dict(args)
    poke = a.pop("$poke", None)
    if poke is not None:
        try:
            u.datetime_to_pv_string((datetime(1970, 1, 1, tzinfo=timezone.utc) + timedelta(microseconds=a["unix_nano"] // 1000)).astimezone(timezone(timedelta(hours=poke))))
        except Exception:  # noqa: BLE001
            pass
    return u.unix_nano_to_pv_string(**a)


NATIVE_CALL = {"unix_nano_to_pv_string": _call_unix}


GEN = {
    "unix_nano_to_pv_string": _ns_with_history,
    "convert_timestamp_to_unix_nano": lambda nat, rng, n: ({"iso_timestamp": nat.ns["pv_str_of"](k)} for k in _ks_signed(rng, n)),
}
FROM_MODEL = {
    "unix_nano_to_pv_string": lambda nat, m: {"unix_nano": int(m["wit.unix_nano"])} if "wit.unix_nano" in m else None,
    "convert_timestamp_to_unix_nano": lambda nat, m: {"iso_timestamp": nat.ns["pv_str_of"](int(m["wit.k"]))} if "wit.k" in m else None,
}
ENCODE = {
    "unix_nano_to_pv_string": lambda a: a,
    "convert_timestamp_to_unix_nano": lambda a: a,
}
DECODE = {
    "unix_nano_to_pv_string": lambda nat, e: e,
    "convert_timestamp_to_unix_nano": lambda nat, e: e,
}


def validate_trusted(nat, rng, n):
    """Sampling validation of the trusted datetime contracts of pyvc/dt.py against
    CPython (validation, not proof).  Returns (samples, disagreements)."""
    from datetime import datetime, timezone, timedelta, UTC
    from fractions import Fraction
    import math
    epoch = datetime(1970, 1, 1, tzinfo=timezone.utc)
    bad = []
    cnt = 0

    def model_fromtimestamp(t):
        ip = math.floor(t)
        frac = Fraction(t) - ip
        scaled = float(frac * 1000000) if True else 0.0          # one rounding of the exact product
        us = round(scaled)                                       # Python round(): half-even on floats
        return (ip + 1) * 10**6 + (us - 10**6) if us >= 10**6 else ip * 10**6 + us
    for k in _ks(rng, n):
        cnt += 1
        for off in (0.0, 3e-7, 5e-7, -3e-7):
            t = k / 10**6 + off
            if t < 0 or t > 4102444800:
                continue
            real = (datetime.fromtimestamp(t, tz=UTC) - epoch) // timedelta(microseconds=1)
            if real != model_fromtimestamp(t):
                bad.append(("fromtimestamp", t, real))
        d = epoch + timedelta(microseconds=k)
        if d.timestamp() != float(Fraction(k, 10**6)):
            bad.append(("timestamp", k))
        if d.microsecond != k % 10**6:
            bad.append(("microsecond", k))
        s = d.strftime("%Y-%m-%dT%H:%M:%S.%fZ")
        back = datetime.fromisoformat(s.rstrip("Z")).replace(tzinfo=timezone.utc)
        if (back - epoch) // timedelta(microseconds=1) != k:
            bad.append(("iso", k))
        k2 = rng.randrange(0, K2100 + 1)
        s2 = (epoch + timedelta(microseconds=k2)).strftime("%Y-%m-%dT%H:%M:%S.%fZ")
        if (s < s2) != (k < k2) or (s == s2) != (k == k2):
            bad.append(("order", k, k2))
    return cnt, bad
