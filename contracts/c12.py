"""C12 (proved part) - what happens to a stored span between the row stream and the sequencer.

Functions under contract (real source re-read on every run):
  tel2puml/otel_to_pv/data_holders/sql_data_holder/sql_dataholder.py   SQLDataHolder.node_to_otel_event
        ("children resolved through the association table": the span carries every stored field and exactly the ids of node.children)
  tel2puml/otel_to_pv/sequence_otel.py                                 job_ids_to_eventid_to_otelevent_map
        ("per-trace materialisation before sequencing": one id -> span map per trace, in order; a trace with a missing parent is
         skipped, nothing else is)
`convert_otel_event_stream_to_event_id_to_otelevent_map` is proved in contracts/c08.py and used here by its contract.

NOT under contract (bounded harness only): the SQL row stream (`stream_job_name_batches`: filters, ORDER BY, yield_per) and the
two-level lazy `itertools.groupby` of `stream_data` - a server-side cursor and lazily consumed nested iterators are outside the
verifier's list semantics.  `node.children` is the ORM relationship over the association table (trusted; the bounded harness reads
the table with plain SQL and compares).
"""
MODULE = "tel2puml/otel_to_pv/data_holders/sql_data_holder/sql_dataholder.py"
FILES = {"": MODULE, "job_ids_to_eventid_to_otelevent_map": "tel2puml/otel_to_pv/sequence_otel.py",
         "convert_otel_event_stream_to_event_id_to_otelevent_map": "tel2puml/otel_to_pv/sequence_otel.py"}
KW_CTOR = ["OTelEvent"]
_FIELDS = ["job_name", "job_id", "event_type", "event_id", "start_timestamp", "end_timestamp", "application_name", "parent_event_id"]

RECORDS = {
    "OTelEvent": {"fields": {"job_name": "str", "job_id": "str", "event_type": "str", "event_id": "str", "start_timestamp": "int",
                             "end_timestamp": "int", "application_name": "str", "parent_event_id": "Optional[str]",
                             "child_event_ids": "Optional[list[str]]"}},
    "NodeModel": {"fields": {"job_name": "str", "job_id": "str", "event_type": "str", "event_id": "str", "start_timestamp": "int",
                             "end_timestamp": "int", "application_name": "str", "parent_event_id": "Optional[str]",
                             "children": "list[NodeModel]"}},
}

SPECS = '''
def disconnected(g: list[OTelEvent]) -> bool:
    return any(g[p].parent_event_id is not None and not any(g[q].event_id == g[p].parent_event_id for q in range(len(g))) for p in range(len(g)))

def is_map_of(m: dict[str, OTelEvent], g: list[OTelEvent]) -> bool:
    return (all(g[p].event_id in m for p in range(len(g))) and all(any(g[p].event_id == k for p in range(len(g))) for k in m)
            and all(m[k].event_id == k for k in m) and all(any(m[k] is g[p] for p in range(len(g))) for k in m))
'''

CONTRACTS = {
    "SQLDataHolder.node_to_otel_event": {
        "static": True,
        "ensures": {
            "fields": " and ".join(f"result.{f} == node.{f}" for f in _FIELDS),
            "children": "result.child_event_ids is not None and result.child_event_ids == [child.event_id for child in node.children]",
        },
    },
    # proved in contracts/c08.py (same clause texts); here assumed
    "convert_otel_event_stream_to_event_id_to_otelevent_map": {
        "trusted": True,
        "raises": {"OTelTreeDisconnectedError": "disconnected(otel_event_stream)"},
        "ensures": {"map_of_stream": "is_map_of(result, otel_event_stream)"},
    },
    "job_ids_to_eventid_to_otelevent_map": {
        "generator": True,
        "params": {"job_id_streams": "list[list[OTelEvent]]"},
        "returns": "list[dict[str, OTelEvent]]",
        "loops": {0: {"index": "i", "seq": "ss", "invariant": {
            "src": "ss == job_id_streams",
            "count": "len(yielded) == len([g for g in ss[:i] if not disconnected(g)])",
            "each": "all(is_map_of(yielded[q], [g for g in ss[:i] if not disconnected(g)][q]) for q in range(len(yielded)))",
        }}},
        "ensures": {
            # one map per trace whose parent links resolve, in the order of the traces; every span of the trace is in its map
            "one_map_per_connected_trace": "len(result) == len([g for g in job_id_streams if not disconnected(g)])",
            "maps": "all(is_map_of(result[q], [g for g in job_id_streams if not disconnected(g)][q]) for q in range(len(result)))",
        },
    },
}
ORDER = ["SQLDataHolder.node_to_otel_event", "convert_otel_event_stream_to_event_id_to_otelevent_map", "job_ids_to_eventid_to_otelevent_map"]


def setup(V):
    V.kw_ctor_records = set(KW_CTOR)


# ----------------------------------------------------------------------------- native reading
def _gen_node(nat, rng, n):
    import importlib
    dm = importlib.import_module("tel2puml.otel_to_pv.data_holders.sql_data_holder.data_model")
    names = ["a", "b b", " c", "", "läuft"]
    for i in range(n):
        def mk(j, parent):
            return dm.NodeModel(job_name=rng.choice(names), job_id=f"t{rng.randrange(3)}", event_type=rng.choice(names), event_id=f"e{i}.{j}",
                                start_timestamp=rng.randrange(10**18), end_timestamp=rng.randrange(10**18), application_name=rng.choice(names),
                                parent_event_id=parent)
        node = mk(0, None if rng.random() < 0.5 else "p")
        node.children = [mk(j + 1, node.event_id) for j in range(rng.randrange(0, 4))]
        yield {"node": node}


def _gen_jobs(nat, rng, n):
    import importlib
    t = importlib.import_module("tel2puml.otel_to_pv.otel_to_pv_types")
    for i in range(n):
        streams = []
        for ti in range(rng.randrange(0, 5)):
            k = rng.randrange(0, 4)
            evs = []
            for j in range(k):
                r = rng.random()
                parent = None if j == 0 or r < 0.2 else (f"t{ti}.{rng.randrange(j)}" if r < 0.85 else "missing")
                evs.append(t.OTelEvent(job_name="wf", job_id=f"t{ti}", event_type="x", event_id=f"t{ti}.{j}", start_timestamp=j, end_timestamp=j + 1,
                                       application_name="app", parent_event_id=parent, child_event_ids=[]))
            rng.shuffle(evs)
            streams.append(evs)
        yield {"job_id_streams": streams}


GEN = {"SQLDataHolder.node_to_otel_event": _gen_node, "job_ids_to_eventid_to_otelevent_map": _gen_jobs}
ENCODE = {
    "SQLDataHolder.node_to_otel_event": lambda a: {"node": {f: getattr(a["node"], f) for f in _FIELDS}, "children": [c.event_id for c in a["node"].children]},
    "job_ids_to_eventid_to_otelevent_map": lambda a: [[e.model_dump() for e in g] for g in a["job_id_streams"]],
}


def _dec_node(nat, e):
    import importlib
    dm = importlib.import_module("tel2puml.otel_to_pv.data_holders.sql_data_holder.data_model")
    node = dm.NodeModel(**e["node"])
    node.children = [dm.NodeModel(**{**e["node"], "event_id": c, "parent_event_id": node.event_id}) for c in e["children"]]
    return {"node": node}


def _dec_jobs(nat, e):
    import importlib
    t = importlib.import_module("tel2puml.otel_to_pv.otel_to_pv_types")
    return {"job_id_streams": [[t.OTelEvent(**d) for d in g] for g in e]}


DECODE = {"SQLDataHolder.node_to_otel_event": _dec_node, "job_ids_to_eventid_to_otelevent_map": _dec_jobs}
