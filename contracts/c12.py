"""C12 (proved part) - what happens to a stored span between the row stream and the sequencer.

Functions under contract (real source re-read on every run):
  tel2puml/otel_to_pv/data_holders/sql_data_holder/sql_dataholder.py   SQLDataHolder.node_to_otel_event
        ("children resolved through the association table": the span carries every stored field and exactly the ids of node.children)
  tel2puml/otel_to_pv/sequence_otel.py                                 job_ids_to_eventid_to_otelevent_map
        ("per-trace materialisation before sequencing": one id -> span map per trace, in order; a trace with a missing parent is
         skipped, nothing else is)
`convert_otel_event_stream_to_event_id_to_otelevent_map` is proved in contracts/c08.py and used here by its contract.

NOT under contract (bounded harness only): the SQL row stream (`stream_job_name_batches`: filters, ORDER BY, yield_per) and the
two-level lazy `itertools.groupby` of `stream_data` - a server-side cursor and lazily consumed nested iterators are outside the
verifier's list semantics.  `node.children` is the ORM relationship over the association table (trusted; the bounded harness reads
the table with plain SQL and compares).
"""
MODULE = "tel2puml/otel_to_pv/data_holders/sql_data_holder/sql_dataholder.py"
FILES = {"": MODULE, "job_ids_to_eventid_to_otelevent_map": "tel2puml/otel_to_pv/sequence_otel.py",
         "convert_otel_event_stream_to_event_id_to_otelevent_map": "tel2puml/otel_to_pv/sequence_otel.py"}
KW_CTOR = ["OTelEvent"]
USES_GROUPBY = True
_FIELDS = ["job_name", "job_id", "event_type", "event_id", "start_timestamp", "end_timestamp", "application_name", "parent_event_id"]

BY_NAME = "key=lambda x: x.job_name"
BY_ID = "key=lambda x: x.job_id"
RECORDS = {
    "Session": {"fields": {}},
    "SQLDataHolder": {"fields": {"session": "Session", "batch_size": "int"}},
    "OTelEvent": {"fields": {"job_name": "str", "job_id": "str", "event_type": "str", "event_id": "str", "start_timestamp": "int",
                             "end_timestamp": "int", "application_name": "str", "parent_event_id": "Optional[str]",
                             "child_event_ids": "Optional[list[str]]"}},
    "NodeModel": {"fields": {"job_name": "str", "job_id": "str", "event_type": "str", "event_id": "str", "start_timestamp": "int",
                             "end_timestamp": "int", "application_name": "str", "parent_event_id": "Optional[str]",
                             "children": "list[NodeModel]"}},
}

SPECS = '''
def disconnected(g: list[OTelEvent]) -> bool:
    return any(g[p].parent_event_id is not None and not any(g[q].event_id == g[p].parent_event_id for q in range(len(g))) for p in range(len(g)))

@opaque
def rows_of(h: SQLDataHolder, m: Optional[dict[str, set[str]]], f: Optional[set[str]]) -> list[OTelEvent]:
    return []

def sorted_rows(rows: list[OTelEvent]) -> bool:
    return all(rows[i].job_name < rows[j].job_name or (rows[i].job_name == rows[j].job_name and rows[i].job_id <= rows[j].job_id)
               for i in range(len(rows)) for j in range(i + 1, len(rows)))

def sorted_ids(rows: list[OTelEvent]) -> bool:
    return all(rows[i].job_id <= rows[j].job_id for i in range(len(rows)) for j in range(i + 1, len(rows)))

def traces_of(g: list[OTelEvent]) -> list[list[OTelEvent]]:
    return [[e for e in g2] for _, g2 in groupby(g, key=lambda x: x.job_id)]

def is_map_of(m: dict[str, OTelEvent], g: list[OTelEvent]) -> bool:
    return (all(g[p].event_id in m for p in range(len(g))) and all(any(g[p].event_id == k for p in range(len(g))) for k in m)
            and all(m[k].event_id == k for k in m) and all(any(m[k] is g[p] for p in range(len(g))) for k in m))
'''

CONTRACTS = {
    "SQLDataHolder.node_to_otel_event": {
        "static": True,
        "ensures": {
            "fields": " and ".join(f"result.{f} == node.{f}" for f in _FIELDS),
            "children": "result.child_event_ids is not None and result.child_event_ids == [child.event_id for child in node.children]",
        },
    },
    # proved in contracts/c08.py (same clause texts); here assumed
    "convert_otel_event_stream_to_event_id_to_otelevent_map": {
        "trusted": True,
        "raises": {"OTelTreeDisconnectedError": "disconnected(otel_event_stream)"},
        "ensures": {"map_of_stream": "is_map_of(result, otel_event_stream)"},
    },
    # the SQL row stream (filters, ORDER BY job_name, job_id, yield_per): trusted - one span per selected stored row, in that order
    "SQLDataHolder.stream_job_name_batches": {
        "trusted": True, "params": {"session": "Session"}, "returns": "list[OTelEvent]",
        "ensures": {"rows": "result == rows_of(self, job_name_to_job_ids_map, filter_job_names)", "ordered": "sorted_rows(result)"},
    },
    "SQLDataHolder.stream_data": {
        "generator": True, "returns": "list[tuple[str, list[list[OTelEvent]]]]", "externals": ["session"],
        "loops": {0: {"index": "a", "seq": "G", "invariant": {
            "src": f"G == groupby(rows_of(self, job_name_to_job_ids_map, filter_job_names), {BY_NAME})",
            "count": "len(yielded) == a",
            "each": "all(yielded[k][0] == G[k][0] and yielded[k][1] == traces_of(G[k][1]) for k in range(a))",
        }}},
        "ensures": {
            # the code's own shape: one entry per run of equal names, under it one list per run of equal trace ids
            "runs": f"len(result) == len(groupby(rows_of(self, job_name_to_job_ids_map, filter_job_names), {BY_NAME})) and "
                    f"all(result[k][0] == groupby(rows_of(self, job_name_to_job_ids_map, filter_job_names), {BY_NAME})[k][0] and "
                    f"result[k][1] == traces_of(groupby(rows_of(self, job_name_to_job_ids_map, filter_job_names), {BY_NAME})[k][1]) for k in range(len(result)))",
            # "yields each workflow name once ..."
            "each_name_once": "all(result[a][0] != result[b][0] for a in range(len(result)) for b in range(a + 1, len(result)))",
            # "... and, under it, each of its traces exactly once ..." (a trace is listed by its spans; its id is the id of its first span)
            "each_trace_once": "all(all(result[a][1][s][0].job_id != result[a][1][t][0].job_id for s in range(len(result[a][1])) "
                               "for t in range(s + 1, len(result[a][1]))) for a in range(len(result)))",
            "no_empty_trace": "all(all(len(tr) >= 1 for tr in result[a][1]) for a in range(len(result)))",
            # "... with all its spans ... No span is dropped, duplicated ...": the j-th span of the s-th trace of the a-th name is the row
            # number start(a) + start(s) + j of the row stream, and every row is reached this way
            "in_row_order": ("all(all(all(result[a][1][s][j] == R[group_start(R, a, BY_NAME) + group_start(groupby(R, BY_NAME)[a][1], s, BY_ID) + j] "
                             "for j in range(len(result[a][1][s]))) for s in range(len(result[a][1]))) for a in range(len(result)))"
                             ).replace("R", "rows_of(self, job_name_to_job_ids_map, filter_job_names)").replace("BY_NAME", BY_NAME).replace("BY_ID", BY_ID),
            "every_row_streamed": ("all(0 <= group_of(R, i, BY_NAME) < len(result) and 0 <= group_of(groupby(R, BY_NAME)[group_of(R, i, BY_NAME)][1], "
                                   "i - group_start(R, group_of(R, i, BY_NAME), BY_NAME), BY_ID) < len(result[group_of(R, i, BY_NAME)][1]) and "
                                   "result[group_of(R, i, BY_NAME)][1][group_of(groupby(R, BY_NAME)[group_of(R, i, BY_NAME)][1], "
                                   "i - group_start(R, group_of(R, i, BY_NAME), BY_NAME), BY_ID)]"
                                   "[i - group_start(R, group_of(R, i, BY_NAME), BY_NAME) - group_start(groupby(R, BY_NAME)[group_of(R, i, BY_NAME)][1], "
                                   "group_of(groupby(R, BY_NAME)[group_of(R, i, BY_NAME)][1], i - group_start(R, group_of(R, i, BY_NAME), BY_NAME), BY_ID), BY_ID)] == R[i] "
                                   "for i in range(len(R)))"
                                   ).replace("R", "rows_of(self, job_name_to_job_ids_map, filter_job_names)").replace("BY_NAME", BY_NAME).replace("BY_ID", BY_ID),
            # "... No span is ... attributed to another trace or workflow"
            "homogeneous": "all(all(all(e.job_name == result[a][0] and e.job_id == tr[0].job_id for e in tr) for tr in result[a][1]) for a in range(len(result)))",
        },
        "hints": [f"use name_runs_increase(rows_of(self, job_name_to_job_ids_map, filter_job_names))"],
    },
    "job_ids_to_eventid_to_otelevent_map": {
        "generator": True,
        "params": {"job_id_streams": "list[list[OTelEvent]]"},
        "returns": "list[dict[str, OTelEvent]]",
        "loops": {0: {"index": "i", "seq": "ss", "invariant": {
            "src": "ss == job_id_streams",
            "count": "len(yielded) == len([g for g in ss[:i] if not disconnected(g)])",
            "each": "all(is_map_of(yielded[q], [g for g in ss[:i] if not disconnected(g)][q]) for q in range(len(yielded)))",
        }}},
        "ensures": {
            # one map per trace whose parent links resolve, in the order of the traces; every span of the trace is in its map
            "one_map_per_connected_trace": "len(result) == len([g for g in job_id_streams if not disconnected(g)])",
            "maps": "all(is_map_of(result[q], [g for g in job_id_streams if not disconnected(g)][q]) for q in range(len(result)))",
        },
    },
}
ORDER = ["SQLDataHolder.node_to_otel_event", "convert_otel_event_stream_to_event_id_to_otelevent_map", "job_ids_to_eventid_to_otelevent_map",
         # in a list ordered by name, the runs of equal names have strictly increasing names (so every name has ONE run) ...
         {"name": "name_runs_step", "forall": {"rows": "list[OTelEvent]", "h": "int"},
          "requires": ["sorted_rows(rows)", f"1 <= h < len(groupby(rows, {BY_NAME}))"],
          "ensures": f"groupby(rows, {BY_NAME})[h - 1][0] < groupby(rows, {BY_NAME})[h][0]",
          "hints": [f"group_start(rows, h - 1, {BY_NAME}) < group_start(rows, h, {BY_NAME})"], "explicit": True},
         {"name": "name_runs_increase", "forall": {"rows": "list[OTelEvent]"},
          "requires": ["sorted_rows(rows)"],
          "ensures": f"all(groupby(rows, {BY_NAME})[g][0] < groupby(rows, {BY_NAME})[h][0] for g in range(len(groupby(rows, {BY_NAME}))) "
                     f"for h in range(g + 1, len(groupby(rows, {BY_NAME}))))",
          "explicit": True, "trusted": False},
         # ... the spans under one name are ordered by trace id, so the same holds for the runs of equal trace ids under a name
         {"name": "name_group_sorted", "forall": {"rows": "list[OTelEvent]", "a": "int"},
          "requires": ["sorted_rows(rows)", f"0 <= a < len(groupby(rows, {BY_NAME}))"],
          "ensures": f"sorted_ids(groupby(rows, {BY_NAME})[a][1])",
          "triggers": [f"groupby(rows, {BY_NAME})[a]"]},
         {"name": "id_runs_increase", "forall": {"g": "list[OTelEvent]"},
          "requires": ["sorted_ids(g)"],
          "ensures": f"all(groupby(g, {BY_ID})[s][0] < groupby(g, {BY_ID})[t][0] for s in range(len(groupby(g, {BY_ID}))) "
                     f"for t in range(s + 1, len(groupby(g, {BY_ID}))))",
          "triggers": [f"groupby(g, {BY_ID})"]},
         "SQLDataHolder.stream_job_name_batches", "SQLDataHolder.stream_data"]


def setup(V):
    V.kw_ctor_records = set(KW_CTOR)


# ----------------------------------------------------------------------------- native reading
def _runs(xs, key):
    import itertools
    return [(k, list(g)) for k, g in itertools.groupby(xs, key=key)]


def native_env(nat):
    def groupby(xs, key):
        return _runs(list(xs), key)

    def group_start(xs, g, key):
        return sum(len(r) for _, r in _runs(list(xs), key)[:g])

    def group_of(xs, i, key):
        pos = 0
        for gi, (_, r) in enumerate(_runs(list(xs), key)):
            if pos <= i < pos + len(r):
                return gi
            pos += len(r)
        return -1

    def rows_of(h, m, f):
        """the row stream of the (trusted) SQL query, read again"""
        key = repr((sorted((k, sorted(v)) for k, v in m.items()) if m else None, sorted(f) if f else None))
        cache = h.__dict__.setdefault("_verif_rows", {})      # the store does not change while a case is evaluated
        if key not in cache:
            with h.session as session:
                cache[key] = list(h.stream_job_name_batches(session, m, f))
        return cache[key]
    return {"groupby": groupby, "group_start": group_start, "group_of": group_of, "rows_of": rows_of}


def validate_trusted(nat, rng, n):
    """the axioms of pyvc/itertools_model.py against CPython's itertools.groupby, on random short lists"""
    bad, cnt = [], 0
    for _ in range(n):
        xs = [rng.choice("abc") for _ in range(rng.randrange(0, 9))]
        key = (lambda x: x)
        G = _runs(xs, key)
        cnt += 1
        start = [sum(len(r) for _, r in G[:g]) for g in range(len(G) + 1)]
        ok = start[0] == 0 and start[-1] == len(xs)
        for g, (k, r) in enumerate(G):
            ok = ok and len(r) >= 1 and start[g + 1] == start[g] + len(r) and k == key(xs[start[g]])
            ok = ok and all(r[j] == xs[start[g] + j] and key(xs[start[g] + j]) == k for j in range(len(r)))
            ok = ok and (g + 1 >= len(G) or G[g][0] != G[g + 1][0])
        for i in range(len(xs)):
            gs = [g for g in range(len(G)) if start[g] <= i < start[g + 1]]
            ok = ok and len(gs) == 1 and key(xs[i]) == G[gs[0]][0]
        ok = ok and all(start[g] < start[h] for g in range(len(G) + 1) for h in range(g + 1, len(G) + 1))
        if not ok:
            bad.append(xs)
    return cnt, bad


class _StreamCase(dict):
    pass


def _mk_stream_case(nat, d):
    """d: {"spans": [[name, trace, type, id, parent], ...], "batch": b, "m": None | {name: [ids]}, "f": None | [names]}"""
    import importlib
    sq = importlib.import_module("tel2puml.otel_to_pv.data_holders.sql_data_holder.sql_dataholder")
    cfgm = importlib.import_module("tel2puml.otel_to_pv.config")
    t = importlib.import_module("tel2puml.otel_to_pv.otel_to_pv_types")
    dm = importlib.import_module("tel2puml.otel_to_pv.data_holders.sql_data_holder.data_model")
    if "temp_root_nodes" in dm.Base.metadata.tables:
        dm.Base.metadata.remove(dm.Base.metadata.tables["temp_root_nodes"])
    h = sq.SQLDataHolder(cfgm.SQLDataHolderConfig(db_uri="sqlite:///:memory:", batch_size=d["batch"], time_buffer=0))
    with h:
        for k, (name, trace, etype, eid, parent) in enumerate(d["spans"]):
            h.save_data(t.OTelEvent(job_name=name, job_id=trace, event_type=etype, event_id=eid, start_timestamp=k, end_timestamp=k + 1,
                                    application_name="app", parent_event_id=parent, child_event_ids=None))
    out = _StreamCase()
    out.desc = d
    out["self"] = h
    out["job_name_to_job_ids_map"] = None if d.get("m") is None else {k: set(v) for k, v in d["m"].items()}
    out["filter_job_names"] = None if d.get("f") is None else set(d["f"])
    return out


def _gen_stream_data(nat, rng, n):
    for _ in range(min(n, 150)):
        spans = []
        for ti in range(rng.randrange(0, 5)):
            name = rng.choice(["W1", "W2", "W 3", "w1"])
            tid = f"t{ti}"
            for j in range(rng.randrange(1, 5)):
                spans.append([name, tid, rng.choice("AB"), f"{tid}.{j}", None if j == 0 else f"{tid}.{rng.randrange(j)}"])
        rng.shuffle(spans)
        m = None if rng.random() < 0.6 else {nm: [f"t{rng.randrange(5)}" for _ in range(rng.randrange(0, 3))] for nm in ["W1", "W2"] if rng.random() < 0.7}
        yield _mk_stream_case(nat, {"spans": spans, "batch": rng.choice([1, 2, 3, 1000]), "m": m or None, "f": None})


def _call_stream_data(nat, a):
    h = a["self"]
    out = []
    for job_name, job_streams in h.stream_data(a["job_name_to_job_ids_map"], a["filter_job_names"]):
        out.append((job_name, [list(g) for g in job_streams]))
    return out


NATIVE_CALL = {"SQLDataHolder.stream_data": _call_stream_data}
NO_OLD_COPY = {"SQLDataHolder.stream_data"}


def _gen_node(nat, rng, n):
    import importlib
    dm = importlib.import_module("tel2puml.otel_to_pv.data_holders.sql_data_holder.data_model")
    names = ["a", "b b", " c", "", "läuft"]
    for i in range(n):
        def mk(j, parent):
            return dm.NodeModel(job_name=rng.choice(names), job_id=f"t{rng.randrange(3)}", event_type=rng.choice(names), event_id=f"e{i}.{j}",
                                start_timestamp=rng.randrange(10**18), end_timestamp=rng.randrange(10**18), application_name=rng.choice(names),
                                parent_event_id=parent)
        node = mk(0, None if rng.random() < 0.5 else "p")
        node.children = [mk(j + 1, node.event_id) for j in range(rng.randrange(0, 4))]
        yield {"node": node}


def _gen_jobs(nat, rng, n):
    import importlib
    t = importlib.import_module("tel2puml.otel_to_pv.otel_to_pv_types")
    for i in range(n):
        streams = []
        for ti in range(rng.randrange(0, 5)):
            k = rng.randrange(0, 4)
            evs = []
            for j in range(k):
                r = rng.random()
                parent = None if j == 0 or r < 0.2 else (f"t{ti}.{rng.randrange(j)}" if r < 0.85 else "missing")
                evs.append(t.OTelEvent(job_name="wf", job_id=f"t{ti}", event_type="x", event_id=f"t{ti}.{j}", start_timestamp=j, end_timestamp=j + 1,
                                       application_name="app", parent_event_id=parent, child_event_ids=[]))
            rng.shuffle(evs)
            streams.append(evs)
        yield {"job_id_streams": streams}


GEN = {"SQLDataHolder.node_to_otel_event": _gen_node, "job_ids_to_eventid_to_otelevent_map": _gen_jobs, "SQLDataHolder.stream_data": _gen_stream_data}
ENCODE = {
    "SQLDataHolder.node_to_otel_event": lambda a: {"node": {f: getattr(a["node"], f) for f in _FIELDS}, "children": [c.event_id for c in a["node"].children]},
    "job_ids_to_eventid_to_otelevent_map": lambda a: [[e.model_dump() for e in g] for g in a["job_id_streams"]],
    "SQLDataHolder.stream_data": lambda a: getattr(a, "desc", None),
}


def _dec_node(nat, e):
    import importlib
    dm = importlib.import_module("tel2puml.otel_to_pv.data_holders.sql_data_holder.data_model")
    node = dm.NodeModel(**e["node"])
    node.children = [dm.NodeModel(**{**e["node"], "event_id": c, "parent_event_id": node.event_id}) for c in e["children"]]
    return {"node": node}


def _dec_jobs(nat, e):
    import importlib
    t = importlib.import_module("tel2puml.otel_to_pv.otel_to_pv_types")
    return {"job_id_streams": [[t.OTelEvent(**d) for d in g] for g in e]}


DECODE = {"SQLDataHolder.node_to_otel_event": _dec_node, "job_ids_to_eventid_to_otelevent_map": _dec_jobs,
          "SQLDataHolder.stream_data": lambda nat, e: _mk_stream_case(nat, e)}
