"""C08 - call trees are sequenced exactly as the sequencing rules specify.

Functions under contract (real source re-read on every run):
  tel2puml/otel_to_pv/sequence_otel.py
     order_groups_by_start_timestamp, sequence_groups_of_otel_events_asynchronously,
     group_events_using_async_information, get_root_event_from_event_id_to_event_map,
     update_event_type_based_on_children, update_event_types_based_on_children,
     convert_otel_event_stream_to_event_id_to_otelevent_map, sequence_otel_event_ancestors,
     sequence_otel_event_job

Top-level postconditions are taken from docs/user/sequencer_HOWTO.md (the three
rules) and from the property statement, not from what the loops happen to do.
"""
MODULE = "tel2puml/otel_to_pv/sequence_otel.py"

RECORDS = {
    "OTelEvent": {
        "fields": {
            "job_name": "str", "job_id": "str", "event_type": "str", "event_id": "str",
            "start_timestamp": "int", "end_timestamp": "int", "application_name": "str",
            "parent_event_id": "Optional[str]", "child_event_ids": "Optional[list[str]]",
        },
        "mutable": ["event_type"],
    },
    "OTelEventTypeMap": {
        "fields": {"mapped_event_type": "str", "child_event_types": "set[str]"},
    },
}

# ------------------------------------------------------------------ spec vocabulary
SPECS = '''
def flat(gs: list[list[OTelEvent]]) -> list[OTelEvent]:
    return [] if len(gs) == 0 else flat(gs[:-1]) + gs[-1]

def maxend(g: list[OTelEvent]) -> int:
    return 0 if len(g) == 0 else (g[0].end_timestamp if len(g) == 1 else max(maxend(g[:-1]), g[-1].end_timestamp))

def chains(G: list[list[OTelEvent]]) -> list[list[OTelEvent]]:
    return ([] if len(G) == 0 else ([G[0]] if len(G) == 1 else (
        chains(G[:-1]) + [G[-1]] if maxend(flat(G[:-1])) < G[-1][0].start_timestamp
        else chains(G[:-1])[:-1] + [chains(G[:-1])[-1] + G[-1]])))

def sorted_by_start(g: list[OTelEvent]) -> bool:
    return all(g[a].start_timestamp <= g[b].start_timestamp for a in range(len(g)) for b in range(a, len(g)))

def groups_ordered(gs: list[list[OTelEvent]]) -> bool:
    return (all(len(g) > 0 for g in gs) and all(sorted_by_start(g) for g in gs)
            and all(gs[a][0].start_timestamp <= gs[b][0].start_timestamp for a in range(len(gs)) for b in range(a, len(gs))))
'''

CONTRACTS = {
    "order_groups_by_start_timestamp": {
        "raises": {"ValueError": "any(len(g) == 0 for g in groups)"},
        "ensures": {
            "same_len": "len(result) == len(groups)",
            "ordered": "groups_ordered(result)",
            "content": "perm(flat(result), flat(groups))",
        },
        "pure": True,
    },
    "sequence_groups_of_otel_events_asynchronously": {
        "requires": {"nonempty": "all(len(g) > 0 for g in groups)"},
        "ensures": {
            # docs/user/sequencer_HOWTO.md "Procession Method" step 4: chains of overlapping time windows
            "chains": "result == chains(order_groups_by_start_timestamp(groups))",
        },
        "loops": {0: {"index": "i", "invariant": {
            "chains": "ordered_groups_async == chains(ordered_groups[:i + 1])",
            "runmax": "max_timestamp == maxend(flat(ordered_groups[:i + 1]))",
        }}},
        "pure": True,
    },
}

ORDER = ["order_groups_by_start_timestamp", "sequence_groups_of_otel_events_asynchronously"]


def setup(V):
    import ast
    import z3
    from pyvc.engine import V as Val
    from pyvc.tys import INT, BOOL, SeqTy

    def b_count(self, n, st):
        xs = self.as_seq(self.expr(n.args[0], st), st)
        x = self.coerce(self.expr(n.args[1], st), xs.ty.elem)
        return Val(self.pre.seqf(xs.ty, "count")(xs.t, x.t), INT)
    V.builtins["count"] = b_count

    def b_perm(self, n, st):
        a = self.as_seq(self.expr(n.args[0], st), st)
        b = self.coerce(self.as_seq(self.expr(n.args[1], st), st), a.ty)
        k = self.site()
        x = z3.Const(f"pe${k}", self.sort(a.ty.elem))
        cnt = self.pre.seqf(a.ty, "count")
        return Val(z3.ForAll([x], cnt(a.t, x) == cnt(b.t, x), patterns=[cnt(a.t, x), cnt(b.t, x)]), BOOL)
    V.builtins["perm"] = b_perm


# ----------------------------------------------------------------------------- native reading
def native_env(nat):
    def count(xs, x):
        return sum(1 for y in xs if y is x) if hasattr(x, "__dict__") else sum(1 for y in xs if y == x)

    def perm(a, b):
        ka = sorted(id(x) if hasattr(x, "__dict__") else hash(x) for x in a)
        kb = sorted(id(x) if hasattr(x, "__dict__") else hash(x) for x in b)
        return ka == kb
    return {"count": count, "perm": perm}
