"""C08 - call trees are sequenced exactly as the sequencing rules specify.

Functions under contract (real source re-read on every run):
  tel2puml/otel_to_pv/sequence_otel.py
     order_groups_by_start_timestamp, sequence_groups_of_otel_events_asynchronously,
     group_events_using_async_information, get_root_event_from_event_id_to_event_map,
     update_event_type_based_on_children, update_event_types_based_on_children,
     convert_otel_event_stream_to_event_id_to_otelevent_map, sequence_otel_event_ancestors,
     sequence_otel_event_job

Top-level postconditions are taken from docs/user/sequencer_HOWTO.md (the three
rules) and from the property statement, not from what the loops happen to do.
"""
MODULE = "tel2puml/otel_to_pv/sequence_otel.py"

RECORDS = {
    "OTelEvent": {
        "fields": {
            "job_name": "str", "job_id": "str", "event_type": "str", "event_id": "str",
            "start_timestamp": "int", "end_timestamp": "int", "application_name": "str",
            "parent_event_id": "Optional[str]", "child_event_ids": "Optional[list[str]]",
        },
        "mutable": ["event_type"],
    },
    "OTelEventTypeMap": {
        "fields": {"mapped_event_type": "str", "child_event_types": "set[str]"},
    },
}

# ------------------------------------------------------------------ spec vocabulary
SPECS = '''
def flat(gs: list[list[OTelEvent]]) -> list[OTelEvent]:
    return [] if len(gs) == 0 else flat(gs[:-1]) + gs[-1]

def maxend(g: list[OTelEvent]) -> int:
    return 0 if len(g) == 0 else (g[0].end_timestamp if len(g) == 1 else max(maxend(g[:-1]), g[-1].end_timestamp))

def argmaxend(g: list[OTelEvent]) -> int:
    return 0 if len(g) <= 1 else (argmaxend(g[:-1]) if maxend(g[:-1]) >= g[-1].end_timestamp else len(g) - 1)

def chains(G: list[list[OTelEvent]]) -> list[list[OTelEvent]]:
    return ([] if len(G) == 0 else ([G[0]] if len(G) == 1 else (
        chains(G[:-1]) + [G[-1]] if maxend(flat(G[:-1])) < G[-1][0].start_timestamp
        else chains(G[:-1])[:-1] + [chains(G[:-1])[-1] + G[-1]])))

def is_only_root(vs: list[OTelEvent], p: int) -> bool:
    return vs[p].parent_event_id is None and all(vs[q].parent_event_id is not None for q in range(len(vs)) if q != p)

def listed_child(job: dict[str, OTelEvent], cs: list[str], S: set[str]) -> bool:
    return any(job[c].event_type in S for c in cs)

def group_ok(g: list[OTelEvent], m: dict[str, str]) -> bool:
    return ((len(g) == 1 and g[0].event_type not in m)
            or (g[0].event_type in m and all(e.event_type in m and m[e.event_type] == m[g[0].event_type] for e in g)))

def sorted_by_start(g: list[OTelEvent]) -> bool:
    return all(g[a].start_timestamp <= g[b].start_timestamp for a in range(len(g)) for b in range(a, len(g)))

def groups_ordered(gs: list[list[OTelEvent]]) -> bool:
    return (all(len(g) > 0 for g in gs) and all(sorted_by_start(g) for g in gs)
            and all(gs[a][0].start_timestamp <= gs[b][0].start_timestamp for a in range(len(gs)) for b in range(a, len(gs))))
'''

CONTRACTS = {
    "order_groups_by_start_timestamp": {
        "raises": {"ValueError": "any(len(g) == 0 for g in groups)"},
        "ensures": {
            "same_len": "len(result) == len(groups)",
            "ordered": "groups_ordered(result)",
            "content": "perm(flat(result), flat(groups))",
        },
        "pure": True,
    },
    "sequence_groups_of_otel_events_asynchronously": {
        "requires": {"nonempty": "all(len(g) > 0 for g in groups)"},
        "ensures": {
            # docs/user/sequencer_HOWTO.md "Procession Method" step 4: chains of overlapping time windows
            "chains": "result == chains(order_groups_by_start_timestamp(groups))",
        },
        "loops": {0: {"index": "i", "invariant": {
            "chains": "ordered_groups_async == chains(ordered_groups[:i + 1])",
            "runmax": "max_timestamp == maxend(flat(ordered_groups[:i + 1]))",
        }, "hints_entry": ["use maxend_attained(ordered_groups[0])"],
           "hints_end": ["flat(ordered_groups[:i + 1]) == flat(ordered_groups[:i]) + ordered_groups[i]",
                         "use maxend_app(flat(ordered_groups[:i]), ordered_groups[i])",
                         "use maxend_attained(ordered_groups[i])"],
        }},

        "hide": ["sorted_by_start"],
        "pure": True,
    },
    "group_events_using_async_information": {
        "ensures": {
            # prior information: siblings mapped to one group run in parallel, all others on their own
            "no_empty_group": "all(len(g) > 0 for g in result)",
            "homogeneous": "all(group_ok(g, async_event_types) for g in result)",
            "one_group_per_id": "all(not (result[a][0].event_type in async_event_types and result[b][0].event_type in async_event_types "
                                "and async_event_types[result[a][0].event_type] == async_event_types[result[b][0].event_type]) "
                                "for a in range(len(result)) for b in range(a + 1, len(result)))",
            "covers": "all(any(count(g, events[p]) >= 1 for g in result) for p in range(len(events)))",
        },
        "prelude": ["idx_app_rev"],
        "loops": {0: {"index": "i", "invariant": {
            "keys": "all(async_event_types[t] in async_groups for t in async_event_types)",
            "buckets": "all(all(e.event_type in async_event_types and async_event_types[e.event_type] == k for e in async_groups[k]) for k in async_groups)",
            "singles": "all(len(g) == 1 and g[0].event_type not in async_event_types for g in non_async_groups)",
            "covered": "all((events[p].event_type in async_event_types and count(async_groups[async_event_types[events[p].event_type]], events[p]) >= 1) "
                       "or (events[p].event_type not in async_event_types and any(count(g, events[p]) >= 1 for g in non_async_groups)) for p in range(i))",
        }, "hints_end": ["implies(events[i - 1].event_type not in async_event_types, count(non_async_groups[len(non_async_groups) - 1], events[i - 1]) >= 1)"],
           "hints_after": [
            "all(implies(events[p].event_type in async_event_types, async_event_types[events[p].event_type] in async_groups) for p in range(len(events)))",
            "all(implies(events[p].event_type in async_event_types, any(count(g, events[p]) >= 1 for g in async_groups.values())) for p in range(len(events)))",
            "all(implies(events[p].event_type in async_event_types, any(count(g, events[p]) >= 1 for g in [x for x in async_groups.values() if x])) for p in range(len(events)))",
            "all(implies(events[p].event_type not in async_event_types, any(count(g, events[p]) >= 1 for g in non_async_groups)) for p in range(len(events)))",
            "all(implies(events[p].event_type in async_event_types, any(count(g, events[p]) >= 1 for g in [x for x in async_groups.values() if x] + non_async_groups)) for p in range(len(events)))",
            "all(implies(events[p].event_type not in async_event_types, any(count(g, events[p]) >= 1 for g in [x for x in async_groups.values() if x] + non_async_groups)) for p in range(len(events)))",
        ]}},
        "pure": True,
    },
    "get_root_event_from_event_id_to_event_map": {
        # (the `unique` clause below carries "exactly one"; this one only fixes when the function gives up)
        "raises": {"ValueError": "len([e for e in event_id_to_event_map.values() if e.parent_event_id is None]) != 1"},
        "ensures": {
            "is_root": "result.parent_event_id is None",
            "member": "any(result is e for e in event_id_to_event_map.values())",
            "unique": "all(e is result or e.parent_event_id is not None for e in event_id_to_event_map.values())",
        },
        "pure": True,
    },
    "update_event_type_based_on_children": {
        "modifies": ["OTelEvent.event_type"],
        "raises": {"KeyError": "otel_event.child_event_ids is not None and any("
                               "otel_event.child_event_ids[p] not in otel_events_job and all("
                               "otel_event.child_event_ids[q] in otel_events_job and "
                               "otel_events_job[otel_event.child_event_ids[q]].event_type not in event_type_map_information.child_event_types "
                               "for q in range(p)) for p in range(len(otel_event.child_event_ids)))"},
        "ensures": {
            # "a span is renamed when a listed child type is present"
            "renamed": "otel_event.event_type == (event_type_map_information.mapped_event_type "
                       "if otel_event.child_event_ids is not None and old(listed_child(otel_events_job, otel_event.child_event_ids, event_type_map_information.child_event_types)) "
                       "else old(otel_event.event_type))",
            "frame": "forall(lambda e: e is otel_event or e.event_type == old(e.event_type), 'OTelEvent')",
        },
        "loops": {0: {"index": "i", "invariant": {
            "none_yet": "all(otel_event.child_event_ids[q] in otel_events_job and otel_events_job[otel_event.child_event_ids[q]].event_type "
                        "not in event_type_map_information.child_event_types for q in range(i))",
            "heap_same": "forall(lambda e: e.event_type == old(e.event_type), 'OTelEvent')",
        }}},
    },
}

LEMMA_MAXEND_UPPER = {
    "name": "maxend_upper",
    "forall": {"g": "list[OTelEvent]", "j": "int"},
    "requires": ["0 <= j < len(g)"],
    "ensures": "g[j].end_timestamp <= maxend(g)",
    "induction": "g",
    "hints": ["len(g) <= 1 or maxend(g) >= maxend(g[:-1])", "j >= len(g) - 1 or g[:-1][j] is g[j]"],
    "triggers": ["(g[j], maxend(g))"],
}
LEMMA_MAXEND_ATTAINED = {
    "name": "maxend_attained",
    "forall": {"g": "list[OTelEvent]"},
    "requires": ["len(g) > 0"],
    "ensures": "0 <= argmaxend(g) < len(g) and g[argmaxend(g)].end_timestamp == maxend(g)",
    "induction": "g",
    "hints": ["use maxend_attained(g[:-1]) if len(g) >= 2 else True"],
    "triggers": ["argmaxend(g)"],
}
LEMMA_MAXEND_APP = {
    "name": "maxend_app",
    "forall": {"a": "list[OTelEvent]", "b": "list[OTelEvent]"},
    "requires": ["len(a) > 0", "len(b) > 0"],
    "ensures": "maxend(a + b) == max(maxend(a), maxend(b))",
    "hints": ["use maxend_attained(a)", "use maxend_attained(b)", "use maxend_attained(a + b)",
              "(a + b)[argmaxend(a)].end_timestamp <= maxend(a + b)",
              "(a + b)[len(a) + argmaxend(b)].end_timestamp <= maxend(a + b)"],
    "explicit": True,
}

ORDER = ["order_groups_by_start_timestamp", LEMMA_MAXEND_UPPER, LEMMA_MAXEND_ATTAINED, LEMMA_MAXEND_APP,
         "sequence_groups_of_otel_events_asynchronously", "group_events_using_async_information", "get_root_event_from_event_id_to_event_map",
         "update_event_type_based_on_children"]


def setup(V):
    import ast
    import z3
    from pyvc.engine import V as Val
    from pyvc.tys import INT, BOOL, SeqTy

    def b_count(self, n, st):
        xs = self.as_seq(self.expr(n.args[0], st), st)
        x = self.coerce(self.expr(n.args[1], st), xs.ty.elem)
        return Val(self.pre.seqf(xs.ty, "count")(xs.t, x.t), INT)
    V.builtins["count"] = b_count

    def b_perm(self, n, st):
        a = self.as_seq(self.expr(n.args[0], st), st)
        b = self.coerce(self.as_seq(self.expr(n.args[1], st), st), a.ty)
        k = self.site()
        x = z3.Const(f"pe${k}", self.sort(a.ty.elem))
        cnt = self.pre.seqf(a.ty, "count")
        return Val(z3.ForAll([x], cnt(a.t, x) == cnt(b.t, x), patterns=[cnt(a.t, x), cnt(b.t, x)]), BOOL)
    V.builtins["perm"] = b_perm


# ----------------------------------------------------------------------------- native reading
def native_env(nat):
    def count(xs, x):
        return sum(1 for y in xs if y is x) if hasattr(x, "__dict__") else sum(1 for y in xs if y == x)

    def perm(a, b):
        ka = sorted(id(x) if hasattr(x, "__dict__") else hash(x) for x in a)
        kb = sorted(id(x) if hasattr(x, "__dict__") else hash(x) for x in b)
        return ka == kb
    return {"count": count, "perm": perm}
