"""C08 - call trees are sequenced exactly as the sequencing rules specify.

Functions under contract (real source re-read on every run):
  tel2puml/otel_to_pv/sequence_otel.py
     order_groups_by_start_timestamp, sequence_groups_of_otel_events_asynchronously,
     group_events_using_async_information, get_root_event_from_event_id_to_event_map,
     update_event_type_based_on_children, update_event_types_based_on_children,
     convert_otel_event_stream_to_event_id_to_otelevent_map, sequence_otel_event_ancestors,
     sequence_otel_event_job

Top-level postconditions are taken from docs/user/sequencer_HOWTO.md (the three
rules) and from the property statement, not from what the loops happen to do.
"""
MODULE = "tel2puml/otel_to_pv/sequence_otel.py"
FILES = {"": MODULE, "unix_nano_to_pv_string": "tel2puml/utils.py"}

RECORDS = {
    "OTelEvent": {
        "fields": {
            "job_name": "str", "job_id": "str", "event_type": "str", "event_id": "str",
            "start_timestamp": "int", "end_timestamp": "int", "application_name": "str",
            "parent_event_id": "Optional[str]", "child_event_ids": "Optional[list[str]]",
        },
        "mutable": ["event_type"],
    },
    "OTelEventTypeMap": {
        "fields": {"mapped_event_type": "str", "child_event_types": "set[str]"},
    },
    "PVEvent": {
        "struct": True,
        "fields": {"jobId": "str", "eventId": "str", "timestamp": "str", "previousEventIds": "list[str]",
                   "applicationName": "str", "jobName": "str", "eventType": "str"},
    },
}

# ------------------------------------------------------------------ spec vocabulary
SPECS = '''
def flat(gs: list[list[OTelEvent]]) -> list[OTelEvent]:
    return [] if len(gs) == 0 else flat(gs[:-1]) + gs[-1]

def maxend(g: list[OTelEvent]) -> int:
    return 0 if len(g) == 0 else (g[0].end_timestamp if len(g) == 1 else max(maxend(g[:-1]), g[-1].end_timestamp))

def argmaxend(g: list[OTelEvent]) -> int:
    return 0 if len(g) <= 1 else (argmaxend(g[:-1]) if maxend(g[:-1]) >= g[-1].end_timestamp else len(g) - 1)

def chains(G: list[list[OTelEvent]]) -> list[list[OTelEvent]]:
    return ([] if len(G) == 0 else ([G[0]] if len(G) == 1 else (
        chains(G[:-1]) + [G[-1]] if maxend(flat(G[:-1])) < G[-1][0].start_timestamp
        else chains(G[:-1])[:-1] + [chains(G[:-1])[-1] + G[-1]])))

def is_only_root(vs: list[OTelEvent], p: int) -> bool:
    return vs[p].parent_event_id is None and all(vs[q].parent_event_id is not None for q in range(len(vs)) if q != p)

def listed_child(job: dict[str, OTelEvent], cs: list[str], S: set[str]) -> bool:
    return any(job[c].event_type in S for c in cs)

def group_ok(g: list[OTelEvent], m: dict[str, str]) -> bool:
    return ((len(g) == 1 and g[0].event_type not in m)
            or (g[0].event_type in m and all(e.event_type in m and m[e.event_type] == m[g[0].event_type] for e in g)))

# ---- the documented sequencing rule, written once (docs/user/sequencer_HOWTO.md): LINKS(e, P) are the predecessor
# links of the subtree of e when the spans preceding it are P: the children of e are grouped (prior information, then
# start order / overlapping chains); the members of group k are sequenced recursively after group k-1 (after P for the
# first group) and e itself follows its last group (P if it has no children).
@opaque
def size(e: OTelEvent) -> int:
    return 0

@opaque
def links_undef(e: OTelEvent, M: dict[str, OTelEvent], P: list[str], flag: bool, G: dict[str, dict[str, str]]) -> dict[str, list[str]]:
    return {}

def wf(e: OTelEvent, M: dict[str, OTelEvent]) -> bool:
    return e.child_event_ids is not None and all(c in M and 0 <= size(M[c]) < size(e) for c in e.child_event_ids)

def kids(e: OTelEvent, M: dict[str, OTelEvent]) -> list[OTelEvent]:
    return [M[c] for c in e.child_event_ids]

def tmap(e: OTelEvent, G: dict[str, dict[str, str]]) -> dict[str, str]:
    return G[e.event_type] if e.event_type in G else {}

def groups_of(e: OTelEvent, M: dict[str, OTelEvent], flag: bool, G: dict[str, dict[str, str]]) -> list[list[OTelEvent]]:
    return (sequence_groups_of_otel_events_asynchronously(group_events_using_async_information(kids(e, M), tmap(e, G))) if flag
            else order_groups_by_start_timestamp(group_events_using_async_information(kids(e, M), tmap(e, G))))

def lastP(gs: list[list[OTelEvent]], P: list[str]) -> list[str]:
    return P if len(gs) == 0 else [x.event_id for x in gs[-1]]

def LINKS(e: OTelEvent, M: dict[str, OTelEvent], P: list[str], flag: bool, G: dict[str, dict[str, str]]) -> dict[str, list[str]]:
    return (dict_store(LG(groups_of(e, M, flag, G), M, P, flag, G), e.event_id, lastP(groups_of(e, M, flag, G), P))
            if wf(e, M) else links_undef(e, M, P, flag, G))

def LG(gs: list[list[OTelEvent]], M: dict[str, OTelEvent], P: list[str], flag: bool, G: dict[str, dict[str, str]]) -> dict[str, list[str]]:
    return {} if len(gs) == 0 else dict_update(LG(gs[:-1], M, P, flag, G), LE(gs[-1], M, lastP(gs[:-1], P), flag, G))

def LE(g: list[OTelEvent], M: dict[str, OTelEvent], P: list[str], flag: bool, G: dict[str, dict[str, str]]) -> dict[str, list[str]]:
    return {} if len(g) == 0 else dict_update(LE(g[:-1], M, P, flag, G), LINKS(g[-1], M, P, flag, G))

def pl(P: Optional[list[str]]) -> list[str]:
    return P if P is not None else []

def gm(G: Optional[dict[str, dict[str, str]]]) -> dict[str, dict[str, str]]:
    return G if G is not None else {}

# ---- whole-job consequences named in the property statement (defined natively; opaque to the solver, so the clauses that
# use them are "stated, not discharged" and are decided at run time on all small trees - bounded, never counted as proved)
@opaque
def pv_acyclic(job: list[PVEvent]) -> bool:
    return True

@opaque
def pv_after_descendants(job: list[PVEvent], M: dict[str, OTelEvent]) -> bool:
    return True

@opaque
def pv_starts(job: list[PVEvent]) -> int:
    return 1

def sorted_by_start(g: list[OTelEvent]) -> bool:
    return all(g[a].start_timestamp <= g[b].start_timestamp for a in range(len(g)) for b in range(a, len(g)))

def groups_ordered(gs: list[list[OTelEvent]]) -> bool:
    return (all(len(g) > 0 for g in gs) and all(sorted_by_start(g) for g in gs)
            and all(gs[a][0].start_timestamp <= gs[b][0].start_timestamp for a in range(len(gs)) for b in range(a, len(gs))))
'''

CONTRACTS = {
    "order_groups_by_start_timestamp": {
        "raises": {"ValueError": "any(len(g) == 0 for g in groups)"},
        "ensures": {
            "same_len": "len(result) == len(groups)",
            "ordered": "groups_ordered(result)",
        },
        # decided at run time only (a sum over a permutation of groups is out of the solver's reach): the same spans come out
        "runtime_ensures": {"content": "perm(flat(result), flat(groups))"},
        "pure": True,
    },
    "sequence_groups_of_otel_events_asynchronously": {
        "requires": {"nonempty": "all(len(g) > 0 for g in groups)"},
        "ensures": {
            # docs/user/sequencer_HOWTO.md "Procession Method" step 4: chains of overlapping time windows
            "chains": "result == chains(order_groups_by_start_timestamp(groups))",
        },
        "loops": {0: {"index": "i", "invariant": {
            "chains": "ordered_groups_async == chains(ordered_groups[:i + 1])",
            "runmax": "max_timestamp == maxend(flat(ordered_groups[:i + 1]))",
        }, "hints_entry": ["use maxend_attained(ordered_groups[0])"],
           "hints_end": ["flat(ordered_groups[:i + 1]) == flat(ordered_groups[:i]) + ordered_groups[i]",
                         "use maxend_app(flat(ordered_groups[:i]), ordered_groups[i])",
                         "use maxend_attained(ordered_groups[i])"],
        }},

        "hide": ["sorted_by_start"],
        "pure": True,
    },
    "group_events_using_async_information": {
        "ensures": {
            # prior information: siblings mapped to one group run in parallel, all others on their own
            "no_empty_group": "all(len(g) > 0 for g in result)",
            "homogeneous": "all(group_ok(g, async_event_types) for g in result)",
            "one_group_per_id": "all(not (result[a][0].event_type in async_event_types and result[b][0].event_type in async_event_types "
                                "and async_event_types[result[a][0].event_type] == async_event_types[result[b][0].event_type]) "
                                "for a in range(len(result)) for b in range(a + 1, len(result)))",
            "covers": "all(any(count(g, events[p]) >= 1 for g in result) for p in range(len(events)))",
        },
        "prelude": ["idx_app_rev"],
        "loops": {0: {"index": "i", "invariant": {
            "keys": "all(async_event_types[t] in async_groups for t in async_event_types)",
            "buckets": "all(all(e.event_type in async_event_types and async_event_types[e.event_type] == k for e in async_groups[k]) for k in async_groups)",
            "singles": "all(len(g) == 1 and g[0].event_type not in async_event_types for g in non_async_groups)",
            "covered": "all((events[p].event_type in async_event_types and count(async_groups[async_event_types[events[p].event_type]], events[p]) >= 1) "
                       "or (events[p].event_type not in async_event_types and any(count(g, events[p]) >= 1 for g in non_async_groups)) for p in range(i))",
        }, "hints_end": ["implies(events[i - 1].event_type not in async_event_types, count(non_async_groups[len(non_async_groups) - 1], events[i - 1]) >= 1)"],
           "hints_after": [
            "all(implies(events[p].event_type in async_event_types, async_event_types[events[p].event_type] in async_groups) for p in range(len(events)))",
            "all(implies(events[p].event_type in async_event_types, any(count(g, events[p]) >= 1 for g in async_groups.values())) for p in range(len(events)))",
            "all(implies(events[p].event_type in async_event_types, any(count(g, events[p]) >= 1 for g in [x for x in async_groups.values() if x])) for p in range(len(events)))",
            "all(implies(events[p].event_type not in async_event_types, any(count(g, events[p]) >= 1 for g in non_async_groups)) for p in range(len(events)))",
            "all(implies(events[p].event_type in async_event_types, any(count(g, events[p]) >= 1 for g in [x for x in async_groups.values() if x] + non_async_groups)) for p in range(len(events)))",
            "all(implies(events[p].event_type not in async_event_types, any(count(g, events[p]) >= 1 for g in [x for x in async_groups.values() if x] + non_async_groups)) for p in range(len(events)))",
        ]}},
        "pure": True,
    },
    "get_root_event_from_event_id_to_event_map": {
        # (the `unique` clause below carries "exactly one"; this one only fixes when the function gives up)
        "raises": {"ValueError": "len([e for e in event_id_to_event_map.values() if e.parent_event_id is None]) != 1"},
        "ensures": {
            "is_root": "result.parent_event_id is None",
            "member": "any(result is e for e in event_id_to_event_map.values())",
            "unique": "all(e is result or e.parent_event_id is not None for e in event_id_to_event_map.values())",
        },
        "pure": True,
    },
    "update_event_type_based_on_children": {
        "modifies": ["OTelEvent.event_type"],
        "raises": {"KeyError": "otel_event.child_event_ids is not None and any("
                               "otel_event.child_event_ids[p] not in otel_events_job and all("
                               "otel_event.child_event_ids[q] in otel_events_job and "
                               "otel_events_job[otel_event.child_event_ids[q]].event_type not in event_type_map_information.child_event_types "
                               "for q in range(p)) for p in range(len(otel_event.child_event_ids)))"},
        "ensures": {
            # "a span is renamed when a listed child type is present"
            "renamed": "otel_event.event_type == (event_type_map_information.mapped_event_type "
                       "if otel_event.child_event_ids is not None and old(listed_child(otel_events_job, otel_event.child_event_ids, event_type_map_information.child_event_types)) "
                       "else old(otel_event.event_type))",
            "frame": "forall(lambda e: e is otel_event or e.event_type == old(e.event_type), 'OTelEvent')",
        },
        "loops": {0: {"index": "i", "invariant": {
            "none_yet": "all(otel_event.child_event_ids[q] in otel_events_job and otel_events_job[otel_event.child_event_ids[q]].event_type "
                        "not in event_type_map_information.child_event_types for q in range(i))",
            "heap_same": "forall(lambda e: e.event_type == old(e.event_type), 'OTelEvent')",
        }}},
    },
    "update_event_types_based_on_children": {
        "modifies": ["OTelEvent.event_type"],
        "requires": {
            # the rename rules do not feed each other: no type that a rule can rewrite, and no type a rule produces, is a listed child type
            # (otherwise the outcome depends on the order of the spans in the job - observed, see DESIGN I.3)
            "independent": "all(k2 not in event_types_map_information[k].child_event_types and "
                           "event_types_map_information[k2].mapped_event_type not in event_types_map_information[k].child_event_types "
                           "for k in event_types_map_information for k2 in event_types_map_information)",
            "closed": "all(otel_events_job[k].child_event_ids is None or all(c in otel_events_job for c in otel_events_job[k].child_event_ids) for k in otel_events_job)",
            "distinct": "all(otel_events_job[k1] is not otel_events_job[k2] for k1 in otel_events_job for k2 in otel_events_job if k1 != k2)",
        },
        "ensures": {
            # "a span is renamed when a listed child type is present" - for every span of the job, in terms of the types before the call
            "renamed": "all(otel_events_job[k].event_type == ("
                       "event_types_map_information[old(otel_events_job[k].event_type)].mapped_event_type "
                       "if old(otel_events_job[k].event_type) in event_types_map_information and otel_events_job[k].child_event_ids is not None "
                       "and old(listed_child(otel_events_job, otel_events_job[k].child_event_ids, "
                       "event_types_map_information[otel_events_job[k].event_type].child_event_types)) "
                       "else old(otel_events_job[k].event_type)) for k in otel_events_job)",
        },
        "loops": {0: {"index": "i", "invariant": {
            "done": "all(otel_events_job[list(otel_events_job)[p]].event_type == ("
                    "event_types_map_information[old(otel_events_job[list(otel_events_job)[p]].event_type)].mapped_event_type "
                    "if old(otel_events_job[list(otel_events_job)[p]].event_type) in event_types_map_information "
                    "and otel_events_job[list(otel_events_job)[p]].child_event_ids is not None "
                    "and old(listed_child(otel_events_job, otel_events_job[list(otel_events_job)[p]].child_event_ids, "
                    "event_types_map_information[otel_events_job[list(otel_events_job)[p]].event_type].child_event_types)) "
                    "else old(otel_events_job[list(otel_events_job)[p]].event_type)) for p in range(i))",
            "todo": "all(otel_events_job[list(otel_events_job)[p]].event_type == old(otel_events_job[list(otel_events_job)[p]].event_type) "
                    "for p in range(i, len(otel_events_job)))",
        }}},
    },
    "convert_otel_event_stream_to_event_id_to_otelevent_map": {
        "raises": {"OTelTreeDisconnectedError":
                   "any(otel_event_stream[p].parent_event_id is not None and not any(otel_event_stream[q].event_id == otel_event_stream[p].parent_event_id "
                   "for q in range(len(otel_event_stream))) for p in range(len(otel_event_stream)))"},
        "ensures": {
            "has_all": "all(otel_event_stream[p].event_id in result for p in range(len(otel_event_stream)))",
            "only": "all(any(otel_event_stream[p].event_id == k for p in range(len(otel_event_stream))) for k in result)",
            "keyed_by_id": "all(result[k].event_id == k for k in result)",
            "from_stream": "all(any(result[k] is otel_event_stream[p] for p in range(len(otel_event_stream))) for k in result)",
        },
        "loops": {0: {"index": "i", "invariant": {
            "has_all": "all(otel_event_stream[p].event_id in event_id_to_otel_event_map for p in range(i))",
            "only": "all(any(otel_event_stream[p].event_id == k for p in range(i)) for k in event_id_to_otel_event_map)",
            "keyed_by_id": "all(event_id_to_otel_event_map[k].event_id == k for k in event_id_to_otel_event_map)",
            "from_stream": "all(any(event_id_to_otel_event_map[k] is otel_event_stream[p] for p in range(i)) for k in event_id_to_otel_event_map)",
            "parents_in": "all(otel_event_stream[p].parent_event_id is None or otel_event_stream[p].parent_event_id in parent_event_ids for p in range(i))",
            "parents_only": "forall(lambda x: implies(x in parent_event_ids, any(otel_event_stream[p].parent_event_id is not None and otel_event_stream[p].parent_event_id == x for p in range(i))), 'str')",
        }}},
        "locals": {"parent_event_ids": "set[str]", "event_id_to_otel_event_map": "dict[str, OTelEvent]"},
    },
    # the C16 contract of this function lives in contracts/c16.py; here it is only a pure symbol
    "unix_nano_to_pv_string": {"trusted": True, "pure": True},
    "sequence_otel_event_ancestors": {
        "pure": True,
        "requires": {
            # is_tree, stated over every span object (closed world: the job is all the spans there are): child lists present,
            # children resolve inside the job, and a ghost size decreases from parent to child (no cycles)
            "tree": "forall(lambda x: wf(x, event_id_to_event_map), 'OTelEvent', triggers=[x.child_event_ids])",
        },
        "ensures": {
            # the recursion computes exactly the links of the documented rule
            "links": "maps_agree(result, LINKS(event, event_id_to_event_map, pl(previous_event_ids), async_flag, gm(event_to_async_group_map)))",
        },
        "loops": {
            0: {"index": "i", "invariant": {
                "done_groups": "maps_agree(event_id_to_previous_event_ids, LG(event_groups[:i], event_id_to_event_map, pl(old(previous_event_ids)), "
                               "async_flag, gm(old(event_to_async_group_map))))",
                "prev": "previous_event_ids is not None and pl(previous_event_ids) == lastP(event_groups[:i], pl(old(previous_event_ids)))",
                "gmap": "event_to_async_group_map is not None and gm(event_to_async_group_map) == gm(old(event_to_async_group_map))",
            }},
            1: {"index": "j", "invariant": {
                "done_members": "maps_agree(event_id_to_previous_event_ids, dict_update("
                                "LG(event_groups[:i], event_id_to_event_map, pl(old(previous_event_ids)), async_flag, gm(old(event_to_async_group_map))), "
                                "LE(group[:j], event_id_to_event_map, pl(previous_event_ids), async_flag, gm(old(event_to_async_group_map)))))",
            }},
        },
        "locals": {"event_id_to_previous_event_ids": "dict[str, list[str]]", "event_type_to_group_map": "dict[str, str]"},
    },
    "sequence_otel_event_job": {
        "generator": True,
        "returns": "list[PVEvent]",
        "requires": {
            "tree": "forall(lambda x: wf(x, event_id_to_event_map), 'OTelEvent', triggers=[x.child_event_ids])",
        },
        "raises": {
            "ValueError": "len([e for e in event_id_to_event_map.values() if e.parent_event_id is None]) != 1",
            # a span that is not reachable from the root has no links: the job cannot be emitted
            "KeyError": "len([e for e in event_id_to_event_map.values() if e.parent_event_id is None]) == 1 and "
                        "any(k not in LINKS(get_root_event_from_event_id_to_event_map(event_id_to_event_map), "
                        "event_id_to_event_map, [], async_flag, gm(event_to_async_group_map)) for k in event_id_to_event_map)",
        },
        "ensures": {
            # "the emitted PV job contains each span exactly once with its job id, workflow name, type, application and end time"
            "one_each": "[p['eventId'] for p in result] == list(event_id_to_event_map)",
            "fields": "all(result[q]['jobId'] == event_id_to_event_map[list(event_id_to_event_map)[q]].job_id "
                      "and result[q]['jobName'] == event_id_to_event_map[list(event_id_to_event_map)[q]].job_name "
                      "and result[q]['eventType'] == event_id_to_event_map[list(event_id_to_event_map)[q]].event_type "
                      "and result[q]['applicationName'] == event_id_to_event_map[list(event_id_to_event_map)[q]].application_name "
                      "and result[q]['timestamp'] == unix_nano_to_pv_string(event_id_to_event_map[list(event_id_to_event_map)[q]].end_timestamp) "
                      "for q in range(len(event_id_to_event_map)))",
            # "the links are exactly those of the documented rules": LINKS from the root with no predecessor
            "links": "all(result[q]['previousEventIds'] == LINKS(get_root_event_from_event_id_to_event_map(event_id_to_event_map), "
                     "event_id_to_event_map, [], async_flag, gm(event_to_async_group_map))[list(event_id_to_event_map)[q]] "
                     "for q in range(len(event_id_to_event_map)))",
        },
        # "its predecessor links form an acyclic, single-start order in which each span follows all of its descendants": consequences of the
        # rule LINKS that are stated over whole jobs (reachability); their vocabulary is defined natively and opaque to the solver, so they
        # are decided at run time on every generated tree (all shapes <= 4 spans, random up to 30) - bounded, never counted as proved
        "runtime_ensures": {
            "acyclic": "pv_acyclic(result)",
            "after_descendants": "pv_after_descendants(result, event_id_to_event_map)",
            "single_start": "implies(not async_flag and len(gm(event_to_async_group_map)) == 0, pv_starts(result) == 1)",
        },
        "loops": {0: {"index": "i", "invariant": {
            "count": "len(yielded) == i",
            "ids": "all(yielded[q]['eventId'] == list(event_id_to_event_map)[q] for q in range(i))",
            "fields": "all(yielded[q]['jobId'] == event_id_to_event_map[list(event_id_to_event_map)[q]].job_id "
                      "and yielded[q]['jobName'] == event_id_to_event_map[list(event_id_to_event_map)[q]].job_name "
                      "and yielded[q]['eventType'] == event_id_to_event_map[list(event_id_to_event_map)[q]].event_type "
                      "and yielded[q]['applicationName'] == event_id_to_event_map[list(event_id_to_event_map)[q]].application_name "
                      "and yielded[q]['timestamp'] == unix_nano_to_pv_string(event_id_to_event_map[list(event_id_to_event_map)[q]].end_timestamp) "
                      "for q in range(i))",
            "links": "all(yielded[q]['previousEventIds'] == event_id_to_previous_event_ids[list(event_id_to_event_map)[q]] for q in range(i))",
            "all_linked": "all(list(event_id_to_event_map)[q] in event_id_to_previous_event_ids for q in range(i))",
        }}},
    },
}

# Runtime-only contract (bounded, never counted as proved): the job-level composition observed at `sequence_otel_job_id_streams`.
# The nested lazy generators (and the rename step that mutates the spans between two of them) are outside the verifier's list
# semantics; the clause ties the stream to the *proved* trace-level function: every connected trace gives exactly the job that
# sequence_otel_event_job gives for that trace as renamed, in order; disconnected traces are skipped.
RUNTIME_CONTRACTS = {
    "sequence_otel_job_id_streams": {
        "ensures": {
            "one_job_per_connected_trace": "len(result) == len([g for g in job_id_streams if not stream_disconnected(g)])",
            "jobs_follow_trace_contract": "all(result[k] == reference_job([g for g in job_id_streams if not stream_disconnected(g)][k], async_flag, "
                                          "event_to_async_group_map) for k in range(len(result)))",
            "renamed_by_rule": "all(e.event_type == renamed_type(e, g, old(type_map(job_id_streams)), event_types_map_information) "
                               "for g in job_id_streams if not stream_disconnected(g) for e in g)",
        },
    },
}

LEMMA_MAXEND_UPPER = {
    "name": "maxend_upper",
    "forall": {"g": "list[OTelEvent]", "j": "int"},
    "requires": ["0 <= j < len(g)"],
    "ensures": "g[j].end_timestamp <= maxend(g)",
    "induction": "g",
    "hints": ["len(g) <= 1 or maxend(g) >= maxend(g[:-1])", "j >= len(g) - 1 or g[:-1][j] is g[j]"],
    "triggers": ["(g[j], maxend(g))"],
}
LEMMA_MAXEND_ATTAINED = {
    "name": "maxend_attained",
    "forall": {"g": "list[OTelEvent]"},
    "requires": ["len(g) > 0"],
    "ensures": "0 <= argmaxend(g) < len(g) and g[argmaxend(g)].end_timestamp == maxend(g)",
    "induction": "g",
    "hints": ["use maxend_attained(g[:-1]) if len(g) >= 2 else True"],
    "triggers": ["argmaxend(g)"],
}
LEMMA_MAXEND_APP = {
    "name": "maxend_app",
    "forall": {"a": "list[OTelEvent]", "b": "list[OTelEvent]"},
    "requires": ["len(a) > 0", "len(b) > 0"],
    "ensures": "maxend(a + b) == max(maxend(a), maxend(b))",
    "hints": ["use maxend_attained(a)", "use maxend_attained(b)", "use maxend_attained(a + b)",
              "(a + b)[argmaxend(a)].end_timestamp <= maxend(a + b)",
              "(a + b)[len(a) + argmaxend(b)].end_timestamp <= maxend(a + b)"],
    "explicit": True,
}

ORDER = ["order_groups_by_start_timestamp", LEMMA_MAXEND_UPPER, LEMMA_MAXEND_ATTAINED, LEMMA_MAXEND_APP,
         "sequence_groups_of_otel_events_asynchronously", "group_events_using_async_information", "get_root_event_from_event_id_to_event_map",
         "update_event_type_based_on_children", "update_event_types_based_on_children", "unix_nano_to_pv_string", "sequence_otel_event_ancestors", "sequence_otel_event_job",
         "convert_otel_event_stream_to_event_id_to_otelevent_map"]


def setup(V):
    # tmap() reads event_type, which update_event_type_based_on_children may rewrite: the functions whose contracts mention
    # LINKS (the recursion and the job assembly) write no field at all, so in their VCs the heap is the initial one throughout
    V.allow_heap_specs = True
    import ast
    import z3
    from pyvc.engine import V as Val
    from pyvc.tys import INT, BOOL, SeqTy

    def b_count(self, n, st):
        xs = self.as_seq(self.expr(n.args[0], st), st)
        x = self.coerce(self.expr(n.args[1], st), xs.ty.elem)
        return Val(self.pre.seqf(xs.ty, "count")(xs.t, x.t), INT)
    V.builtins["count"] = b_count

    def b_perm(self, n, st):
        a = self.as_seq(self.expr(n.args[0], st), st)
        b = self.coerce(self.as_seq(self.expr(n.args[1], st), st), a.ty)
        k = self.site()
        x = z3.Const(f"pe${k}", self.sort(a.ty.elem))
        cnt = self.pre.seqf(a.ty, "count")
        return Val(z3.ForAll([x], cnt(a.t, x) == cnt(b.t, x), patterns=[cnt(a.t, x), cnt(b.t, x)]), BOOL)
    V.builtins["perm"] = b_perm


# ----------------------------------------------------------------------------- native reading
def native_env(nat):
    def count(xs, x):
        return sum(1 for y in xs if y is x) if hasattr(x, "__dict__") else sum(1 for y in xs if y == x)

    def perm(a, b):
        ka = sorted(id(x) if hasattr(x, "__dict__") else hash(x) for x in a)
        kb = sorted(id(x) if hasattr(x, "__dict__") else hash(x) for x in b)
        return ka == kb
    def size(e, _seen=None):
        """ghost measure of the tree precondition: number of spans in the subtree (infinite on a cycle)"""
        by_id = {x.event_id: x for x in nat.universe.get("OTelEvent", [])}
        seen = set() if _seen is None else _seen
        if e.event_id in seen:
            return float("inf")
        seen = seen | {e.event_id}
        return 1 + sum(size(by_id[c], seen) for c in (e.child_event_ids or []) if c in by_id)

    def links_undef(*a):
        raise ValueError("LINKS is undefined outside well-formed trees")
    def _preds(job):
        return {p["eventId"]: list(p["previousEventIds"]) for p in job}

    def pv_acyclic(job):
        pr = _preds(job)
        state = {}

        def visit(x):
            if state.get(x) == 1:
                return False
            if state.get(x) == 2 or x not in pr:
                return True
            state[x] = 1
            ok = all(visit(y) for y in pr[x])
            state[x] = 2
            return ok
        return all(visit(x) for x in pr)

    def pv_after_descendants(job, M):
        pr = _preds(job)

        def before(x):   # everything that precedes x (transitively)
            out, stack = set(), list(pr.get(x, []))
            while stack:
                y = stack.pop()
                if y not in out:
                    out.add(y)
                    stack.extend(pr.get(y, []))
            return out

        def desc(x):
            out, stack = set(), list(M[x].child_event_ids or [])
            while stack:
                y = stack.pop()
                if y not in out and y in M:
                    out.add(y)
                    stack.extend(M[y].child_event_ids or [])
            return out
        return all(desc(x) <= before(x) for x in M if x in pr)

    def pv_starts(job):
        return sum(1 for p in job if not p["previousEventIds"])

    def stream_disconnected(g):
        ids = {e.event_id for e in g}
        return any(e.parent_event_id is not None and e.parent_event_id not in ids for e in g)

    def reference_job(g, async_flag, gmap):
        """the job the (proved) trace-level function gives for this trace in its present (renamed) state"""
        so = nat.real("sequence_otel_event_job")
        return list(so({e.event_id: e for e in g}, async_flag, gmap))

    def type_map(streams):
        return {e.event_id: e.event_type for g in streams for e in g}

    def renamed_type(e, g, old, tmap):
        by_id = {x.event_id: x for x in g}
        t = old[e.event_id]
        if not tmap or t not in tmap or e.child_event_ids is None:
            return t
        kids = {old[c] for c in e.child_event_ids if c in by_id}
        return tmap[t].mapped_event_type if kids & set(tmap[t].child_event_types) else t
    return {"stream_disconnected": stream_disconnected, "reference_job": reference_job, "type_map": type_map, "renamed_type": renamed_type,"count": count, "perm": perm, "size": size, "links_undef": links_undef, "pv_acyclic": pv_acyclic,
            "pv_after_descendants": pv_after_descendants, "pv_starts": pv_starts}


# ----------------------------------------------------------------------------- native generators / replay encoding
MUTABLE_FIELDS = {"OTelEvent": ["event_type"]}


def _types(nat):
    import importlib
    t = importlib.import_module("tel2puml.otel_to_pv.otel_to_pv_types")
    return t.OTelEvent, t.OTelEventTypeMap


def mk_event(nat, eid, start, end, etype=None, parent=None, children=None, job="j1", name="wf"):
    OTelEvent, _ = _types(nat)
    return OTelEvent(job_name=name, job_id=job, event_type=etype or f"t_{eid}", event_id=eid, start_timestamp=start, end_timestamp=end,
                     application_name="app", parent_event_id=parent, child_event_ids=children)


def encode(x, reg):
    cls = type(x).__name__
    if cls == "OTelEvent":
        reg[x.event_id] = x.model_dump()
        return {"__otel__": x.event_id}
    if cls == "OTelEventTypeMap":
        return {"__tmap__": {"mapped_event_type": x.mapped_event_type, "child_event_types": sorted(x.child_event_types)}}
    if isinstance(x, dict):
        return {"__dict__": [[k, encode(v, reg)] for k, v in x.items()]}
    if isinstance(x, (list, tuple)):
        return [encode(v, reg) for v in x]
    if isinstance(x, (set, frozenset)):
        return {"__set__": sorted(x)}
    return x


def decode(nat, x, objs):
    OTelEvent, OTelEventTypeMap = _types(nat)
    if isinstance(x, dict) and "__otel__" in x:
        return objs[x["__otel__"]]
    if isinstance(x, dict) and "__tmap__" in x:
        return OTelEventTypeMap(mapped_event_type=x["__tmap__"]["mapped_event_type"], child_event_types=set(x["__tmap__"]["child_event_types"]))
    if isinstance(x, dict) and "__dict__" in x:
        return {k: decode(nat, v, objs) for k, v in x["__dict__"]}
    if isinstance(x, dict) and "__set__" in x:
        return set(x["__set__"])
    if isinstance(x, list):
        return [decode(nat, v, objs) for v in x]
    return x


def _enc(args):
    reg = {}
    body = {k: encode(v, reg) for k, v in args.items()}
    return {"registry": reg, "args": body}


def _dec(nat, e):
    OTelEvent, _ = _types(nat)
    objs = {k: OTelEvent(**v) for k, v in e["registry"].items()}
    return {k: decode(nat, v, objs) for k, v in e["args"].items()}


class _Same(dict):
    def __missing__(self, k):
        return _enc

ENCODE = _Same()


class _SameD(dict):
    def __missing__(self, k):
        return _dec

DECODE = _SameD()

_GRID = [(s, e) for s in range(5) for e in range(s, 5)]


def _interval_sets(n):
    """all n-tuples of intervals on the 0..4 grid with pairwise distinct start times"""
    import itertools
    for combo in itertools.product(_GRID, repeat=n):
        if len({s for s, _ in combo}) == n:
            yield combo


def _small_async(nat):
    import itertools
    for n in (1, 2, 3):
        for combo in _interval_sets(n):
            evs = [mk_event(nat, f"e{i}", s, e) for i, (s, e) in enumerate(combo)]
            yield {"groups": [[ev] for ev in evs]}
            if n == 3:   # one prior-information group of two (not necessarily overlapping) + a singleton
                for a, b in ((0, 1), (0, 2), (1, 2)):
                    c = 3 - a - b
                    yield {"groups": [[evs[a], evs[b]], [evs[c]]]}
    yield {"groups": []}


def _rand_events(nat, rng, n, tmax=12, types=("A", "B", "C", "D")):
    starts = rng.sample(range(tmax), n)
    return [mk_event(nat, f"e{i}", s, s + rng.randrange(0, tmax // 2), etype=rng.choice(types)) for i, s in enumerate(starts)]


def _rand_groups(nat, rng, allow_empty=False):
    evs = _rand_events(nat, rng, rng.randrange(0, 7))
    rng.shuffle(evs)
    groups = []
    while evs:
        k = rng.randrange(1, 4)
        groups.append(evs[:k])
        evs = evs[k:]
    if allow_empty and rng.random() < 0.15:
        groups.insert(rng.randrange(0, len(groups) + 1), [])
    return groups


def _gen_group_events(nat, rng, n):
    for _ in range(n):
        evs = _rand_events(nat, rng, rng.randrange(0, 6))
        gids = ["g1", "g2", "g3"]
        m = {t: rng.choice(gids) for t in ("A", "B", "C", "D", "E") if rng.random() < 0.5}
        yield {"events": evs, "async_event_types": m}


def _small_group_events(nat):
    import itertools
    maps = [{}, {"A": "g1"}, {"A": "g1", "B": "g1"}, {"A": "g1", "B": "g2"}, {"Z": "g9"}, {"A": "g1", "Z": "g9"}, {"A": "g1", "B": "g1", "Z": "g2"}]
    for n in range(0, 4):
        for types in itertools.product("ABC", repeat=n):
            evs = [mk_event(nat, f"e{i}", i, i + 1, etype=t) for i, t in enumerate(types)]
            for m in maps:
                yield {"events": evs, "async_event_types": dict(m)}


def _gen_root(nat, rng, n):
    for _ in range(n):
        k = rng.randrange(0, 5)
        evs = {}
        for i in range(k):
            evs[f"e{i}"] = mk_event(nat, f"e{i}", i, i + 1, parent=None if rng.random() < 0.35 else "e0")
        yield {"event_id_to_event_map": evs}


def _gen_rename(nat, rng, n):
    _, OTelEventTypeMap = _types(nat)
    for _ in range(n):
        k = rng.randrange(1, 5)
        types = ["A", "B", "C", "X"]
        evs = {f"e{i}": mk_event(nat, f"e{i}", i, i + 1, etype=rng.choice(types), parent=None if i == 0 else "e0") for i in range(k)}
        kids = [f"e{i}" for i in range(1, k)]
        if rng.random() < 0.15:
            kids.insert(rng.randrange(0, len(kids) + 1), "missing")
        evs["e0"].child_event_ids = kids if rng.random() < 0.9 else None
        info = OTelEventTypeMap(mapped_event_type="M", child_event_types={t for t in types if rng.random() < 0.4})
        yield {"otel_event": evs["e0"], "otel_events_job": evs, "event_type_map_information": info}


def _gen_rename_all(nat, rng, n):
    _, OTelEventTypeMap = _types(nat)
    shapes = list(trees(nat, 5))
    for _ in range(n):
        k, par, kids = rng.choice(shapes)
        times = [(i, i + 1) for i in range(k)]
        types = [rng.choice(["A", "B", "C", "X", "Y"]) for _ in range(k)]
        order = list(range(k))
        rng.shuffle(order)
        job = _job_from(nat, k, par, kids, times, types, order)
        if rng.random() < 0.2:
            job[f"s{rng.randrange(k)}"].child_event_ids = None
        infos = {}
        if rng.random() < 0.8:
            infos["A"] = OTelEventTypeMap(mapped_event_type="MA", child_event_types={"X"} if rng.random() < 0.7 else {"X", "Y"})
        if rng.random() < 0.6:
            infos["B"] = OTelEventTypeMap(mapped_event_type="MB", child_event_types={"Y", "C"})
        if rng.random() < 0.15:   # interacting rules: outside the precondition (skipped, counted as such)
            infos["X"] = OTelEventTypeMap(mapped_event_type="A", child_event_types={"C"})
        yield {"otel_events_job": job, "event_types_map_information": infos}


def _gen_stream(nat, rng, n):
    for _ in range(n):
        k = rng.randrange(0, 6)
        ids = [f"e{i}" for i in range(k)]
        evs = []
        for i, eid in enumerate(ids):
            r = rng.random()
            parent = None if i == 0 or r < 0.2 else (rng.choice(ids) if r < 0.85 else "ghost")
            evs.append(mk_event(nat, eid, i, i + 1, parent=parent))
        rng.shuffle(evs)
        yield {"otel_event_stream": evs}


def trees(nat, n_max, async_types=False):
    """all rooted trees with up to n_max spans (children lists in every order of insertion), intervals drawn from a
    small grid with distinct sibling start times; yields event_id -> OTelEvent maps (root first or last)"""
    import itertools

    def shapes(n):
        # parent vectors: parent[i] < i
        for par in itertools.product(*[range(i) for i in range(1, n)]):
            yield (None,) + tuple(par)
    for n in range(1, n_max + 1):
        for par in shapes(n):
            kids = {i: [j for j in range(n) if par[j] == i] for i in range(n)}
            yield n, par, kids


def _job_from(nat, n, par, kids, times, types=None, order=None):
    evs = {}
    for i in range(n):
        s, e = times[i]
        evs[f"s{i}"] = mk_event(nat, f"s{i}", s, e, etype=(types[i] if types else f"T{i}"), parent=None if par[i] is None else f"s{par[i]}",
                                children=[f"s{j}" for j in kids[i]])
    if order:
        evs = {f"s{i}": evs[f"s{i}"] for i in order}
    return evs


def _gen_job(nat, rng, n):
    shapes = list(trees(nat, 5))
    for _ in range(n):
        if rng.random() < 0.25:
            # a larger random call tree (up to ~30 spans): the clauses the solver does not discharge (acyclic, descendants first,
            # single start) are only ever decided at run time, so they should see more than the small shapes
            k = rng.randrange(6, 31)
            par = (None,) + tuple(rng.randrange(max(0, i - 6), i) for i in range(1, k))
            kids = {i: [j for j in range(k) if par[j] == i] for i in range(k)}
        else:
            k, par, kids = rng.choice(shapes)
        starts = rng.sample(range(3 * k + 3), k)
        times = [(s, s + rng.randrange(0, 6)) for s in starts]
        types = [rng.choice("ABCD") for _ in range(k)]
        order = list(range(k))
        rng.shuffle(order)
        job = _job_from(nat, k, par, kids, times, types, order)
        for i in range(k):   # child lists in random order
            rng.shuffle(job[f"s{i}"].child_event_ids)
        gmap = None
        r = rng.random()
        if r < 0.5:
            gmap = {t: {u: rng.choice(["g1", "g2"]) for u in "ABCD" if rng.random() < 0.5} for t in "ABCD" if rng.random() < 0.5}
        yield {"event_id_to_event_map": job, "async_flag": rng.random() < 0.5, "event_to_async_group_map": gmap}


def _small_job(nat):
    """every tree shape with <= 4 spans; sibling intervals: a fixed family covering nested / overlapping / disjoint / long-first"""
    fam = [[(0, 9), (1, 2), (3, 4), (5, 6)], [(0, 1), (2, 3), (4, 5), (6, 7)], [(0, 2), (1, 3), (2, 4), (3, 5)],
           [(3, 4), (2, 9), (1, 1), (0, 0)], [(0, 0), (0 + 1, 8), (2, 3), (4, 9)]]
    for k, par, kids in trees(nat, 4):
        for times in fam:
            for flag in (False, True):
                yield {"event_id_to_event_map": _job_from(nat, k, par, kids, times[:k]), "async_flag": flag, "event_to_async_group_map": None}
        # prior information: all children of the root in one group / an unused group id
        job = _job_from(nat, k, par, kids, fam[0][:k], types=["R"] + ["A", "B", "A"][:k - 1])
        yield {"event_id_to_event_map": job, "async_flag": False, "event_to_async_group_map": {"R": {"A": "g1", "B": "g1"}}}
        job = _job_from(nat, k, par, kids, fam[1][:k], types=["R"] + ["A", "B", "A"][:k - 1])
        yield {"event_id_to_event_map": job, "async_flag": False, "event_to_async_group_map": {"R": {"A": "g1", "Z": "g2"}}}


def _gen_ancestors(nat, rng, n):
    for case in _gen_job(nat, rng, n):
        job = case["event_id_to_event_map"]
        ev = rng.choice(list(job.values()))
        prev = rng.choice([None, [], ["p1"], ["p1", "p2"]])
        yield {"event": ev, "event_id_to_event_map": job, "previous_event_ids": prev, "async_flag": case["async_flag"],
               "event_to_async_group_map": case["event_to_async_group_map"]}


def _small_ancestors(nat):
    for case in _small_job(nat):
        job = case["event_id_to_event_map"]
        yield {"event": job["s0"], "event_id_to_event_map": job, "previous_event_ids": None, "async_flag": case["async_flag"],
               "event_to_async_group_map": case["event_to_async_group_map"]}


def _gen_streams(nat, rng, n):
    """1-3 traces (random trees <= 5 spans, one of them sometimes with a missing parent) + rename rules + prior information that
    mentions the *renamed* types (as parent key and as grouped child type)"""
    _, OTelEventTypeMap = _types(nat)
    shapes = list(trees(nat, 5))
    for _ in range(n):
        streams = []
        for ti in range(rng.randrange(1, 4)):
            k, par, kids = rng.choice(shapes)
            starts = rng.sample(range(3 * k + 3), k)
            times = [(s_, s_ + rng.randrange(0, 6)) for s_ in starts]
            types = [rng.choice("ABCD") for _ in range(k)]
            job = _job_from(nat, k, par, kids, times, types)
            evs = []
            for i in range(k):
                e = job[f"s{i}"]
                evs.append(mk_event(nat, f"t{ti}.{e.event_id}", e.start_timestamp, e.end_timestamp, etype=e.event_type,
                                    parent=None if e.parent_event_id is None else f"t{ti}.{e.parent_event_id}",
                                    children=[f"t{ti}.{c}" for c in e.child_event_ids], job=f"t{ti}"))
            if rng.random() < 0.15 and k > 1:
                evs[-1].parent_event_id = "missing"
            rng.shuffle(evs)
            streams.append(evs)
        infos = None
        if rng.random() < 0.75:
            infos = {}
            if rng.random() < 0.9:
                infos["A"] = OTelEventTypeMap(mapped_event_type="MA", child_event_types={"B"} if rng.random() < 0.6 else {"B", "C"})
            if rng.random() < 0.5:
                infos["D"] = OTelEventTypeMap(mapped_event_type="MD", child_event_types={"C"})
        gmap = None
        if rng.random() < 0.7:
            gmap = {p: {u: rng.choice(["g1", "g2"]) for u in ["A", "MA", "B", "C", "D", "MD"] if rng.random() < 0.5}
                    for p in ["A", "MA", "B", "C", "D", "MD"] if rng.random() < 0.6}
        yield {"job_id_streams": streams, "async_flag": rng.random() < 0.4, "event_to_async_group_map": gmap, "event_types_map_information": infos}


NATIVE_CALL = {"sequence_otel_job_id_streams": lambda nat, a: [list(g) for g in nat.real("sequence_otel_job_id_streams")(**a)]}

GEN = {
    "sequence_otel_job_id_streams": _gen_streams,
    "order_groups_by_start_timestamp": lambda nat, rng, n: ({"groups": _rand_groups(nat, rng, True)} for _ in range(n)),
    "sequence_groups_of_otel_events_asynchronously": lambda nat, rng, n: ({"groups": _rand_groups(nat, rng)} for _ in range(n)),
    "group_events_using_async_information": _gen_group_events,
    "get_root_event_from_event_id_to_event_map": _gen_root,
    "update_event_type_based_on_children": _gen_rename,
    "update_event_types_based_on_children": _gen_rename_all,
    "convert_otel_event_stream_to_event_id_to_otelevent_map": _gen_stream,
    "sequence_otel_event_job": _gen_job,
    "sequence_otel_event_ancestors": _gen_ancestors,
}
SMALL = {
    "sequence_groups_of_otel_events_asynchronously": _small_async,
    "group_events_using_async_information": _small_group_events,
    "sequence_otel_event_job": _small_job,
    "sequence_otel_event_ancestors": _small_ancestors,
}
