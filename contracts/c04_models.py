"""C04 / C14 (proved part) - one model per workflow name: `pv_streams_to_puml_files`.

Function under contract (real source re-read on every run): tel2puml/pv_to_puml/pv_to_puml.py  pv_streams_to_puml_files

Both routes of the tool (otel2puml directly, pv2puml on saved files) end in this loop, and `-im` / `-om` act here: for every streamed
workflow name it picks the model loaded for *that name* (or starts an empty one), learns *that name's* jobs into it, writes the diagram
under that name's file, and with `-om` saves the model just learned under that name's model file.  Proved, for every list of
(name, jobs) pairs with pairwise distinct names, every map of loaded models and either value of `save_models`:

    made     one diagram per streamed name, in order; diagram i is made from jobs i and from the model loaded under name i - an empty
             model when none was loaded, never a model that another name has learned into -, under the name and the .puml path of name i
    saves    with save_models, exactly one model file per streamed name, in order: the model object that diagram i's learning returned,
             under name i and the _model.json path of name i; without save_models none

The two callees are **trusted** and only *logged*: `pv_to_puml_file` (learning + diagram; its learning step is the fold proved in
contracts/c04_ingest.py, its diagram generation is outside this technique: C01-C03, C05) appends what it was given - and the model
it returns - to the ghost log `out.made`; `save_events_to_file` (proved in contracts/c04.py against the ghost file system) appends to
`out.saves`.  `os.path.join` and `str.replace` are uninterpreted functions (the same text in code and clause is the same term).

Alias noted: `events = events_to_jobs_map[job_name]` is the loaded dictionary itself, so learning updates the map's entry in place; with
pairwise distinct streamed names (what C12 proves of `stream_data`; `pv_files_to_pv_streams` yields a single name) no entry is read
again after it was learned into, which is why the value reading of the map is sound here - stated as the precondition `names_once`.
"""
import importlib.util
import os

_spec = importlib.util.spec_from_file_location("sidecar_c04_base", os.path.join(os.path.dirname(os.path.abspath(__file__)), "c04.py"))
base = importlib.util.module_from_spec(_spec)
_spec.loader.exec_module(base)

MODULE = "tel2puml/pv_to_puml/pv_to_puml.py"
FILES = {"": MODULE, "save_events_to_file": "tel2puml/events.py"}
USES_FS = True

_JOBS = "list[list[PVEvent]]"
RECORDS = {
    **base.RECORDS,
    "PVEvent": {"fields": {}},
    # a model in a log entry is named by `mid(model)`, an uninterpreted function of the dictionary: entries are then compared by plain term
    # equality (a clause that holds for every interpretation of `mid` holds for an injective one, i.e. for the dictionaries themselves);
    # comparing the dictionaries directly needs extensionality reasoning under quantifiers, which made these proofs unstable
    "ModelId": {"fields": {}},
    "Made": {"struct": True, "fields": {"path": "str", "name": "str", "jobs": _JOBS, "model": "ModelId", "learned": "ModelId"}},
    "Saved": {"struct": True, "fields": {"name": "str", "model": "ModelId", "path": "str"}},
    "Out": {"fields": {"made": "list[Made]", "saves": "list[Saved]"}, "mutable": ["made", "saves"]},
}

SPECS = '''
@opaque
def mid(m: dict[str, Event]) -> ModelId:
    return mid(m)

def fname(job_name: str) -> str:
    return job_name.replace(' ', '_')

def start_model(m: Optional[dict[str, dict[str, Event]]], name: str) -> dict[str, Event]:
    return m[name] if m is not None and name in m else {}
'''

_N = "len(pv_streams)"
_M0 = "len(old(out.made))"
_S0 = "len(old(out.saves))"


def PLUMBING(n):
    return {
        "made_count": f"len(out.made) == {_M0} + {n}",
        "made_before": f"all(out.made[p] == old(out.made)[p] for p in range({_M0}))",
        # diagram i: jobs i, name i, the .puml path of name i, the model loaded under name i (or an empty one)
        "made": f"all(out.made[{_M0} + i].jobs == pv_streams[i][1] and out.made[{_M0} + i].name == pv_streams[i][0] "
                f"and out.made[{_M0} + i].path == os.path.join(output_file_directory, f'{{fname(pv_streams[i][0])}}.puml') "
                f"and out.made[{_M0} + i].model == mid(start_model(events_to_jobs_map, pv_streams[i][0])) for i in range({n}))",
        "saves_count": f"len(out.saves) == {_S0} + ({n} if save_models else 0)",
        "saves_before": f"all(out.saves[p] == old(out.saves)[p] for p in range({_S0}))",
        # model file i: the model that learning i returned, under name i and the _model.json path of name i
        "saves": f"implies(save_models, all(out.saves[{_S0} + i].name == pv_streams[i][0] and out.saves[{_S0} + i].model == out.made[{_M0} + i].learned "
                 f"and out.saves[{_S0} + i].path == os.path.join(output_file_directory, f'{{fname(pv_streams[i][0])}}_model.json') for i in range({n})))",
    }


CONTRACTS = {
    "pv_to_puml_file": {
        "trusted": True, "mutable_params": ["events"], "modifies": base.ALL + ["Out.made"],
        "params": {"pv_stream": _JOBS, "events": "Optional[dict[str, Event]]"},
        "ensures": {"logged": "events is not None and out.made == old(out.made) + [Made(path=puml_file_path, name=puml_name, jobs=pv_stream, "
                              "model=mid(old(events) if old(events) is not None else {}), learned=mid(events))]"},
    },
    "save_events_to_file": {
        "trusted": True, "modifies": ["Out.saves"],
        "ensures": {"logged": "out.saves == old(out.saves) + [Saved(name=job_name, model=mid(events), path=file_path)]"},
    },
    "pv_streams_to_puml_files": {
        "params": {"pv_streams": "list[tuple[str, list[list[PVEvent]]]]"},
        "modifies": base.ALL + ["Out.made", "Out.saves"],
        "requires": {"names_once": "all(pv_streams[i][0] != pv_streams[j][0] for i in range(len(pv_streams)) for j in range(i + 1, len(pv_streams)))"},
        "ensures": PLUMBING(_N),
        "loops": {0: {"index": "k", "invariant": {
            "map": "events_to_jobs_map is not None and all(implies(not any(pv_streams[q][0] == nm for q in range(k)), nm in old(mp(events_to_jobs_map)) "
                   "and events_to_jobs_map[nm] == old(mp(events_to_jobs_map))[nm]) for nm in events_to_jobs_map) "
                   "and all(nm in events_to_jobs_map for nm in old(mp(events_to_jobs_map)))",
            **PLUMBING("k"),
        }, "hints_end": [
            # the entries this iteration appended (k is already the next index here)
            f"len(out.made) == {_M0} + k and len(out.saves) == {_S0} + (k if save_models else 0)",
            f"out.made[{_M0} + k - 1].name == pv_streams[k - 1][0]",
            f"implies(save_models, out.saves[{_S0} + k - 1].name == pv_streams[k - 1][0] and out.saves[{_S0} + k - 1].model == out.made[{_M0} + k - 1].learned "
            f"and out.saves[{_S0} + k - 1].path == os.path.join(output_file_directory, f'{{fname(pv_streams[k - 1][0])}}_model.json'))",
        ]}},
        "locals": {"events": "dict[str, Event]"},
    },
}
ORDER = ["pv_to_puml_file", "save_events_to_file", "pv_streams_to_puml_files"]

SPECS += '''
def mp(m: Optional[dict[str, dict[str, Event]]]) -> dict[str, dict[str, Event]]:
    return m if m is not None else {}
'''


def setup(V):
    import z3
    from pyvc.engine import V as Val
    from pyvc.tys import STR
    base.setup(V)
    V.__dict__.setdefault("ghost_globals", {})["out"] = V.tenv.records["Out"]
    S = V.pre.Str
    join = z3.Function("os_path_join", S, S, S)
    repl = z3.Function("str_replace", S, S, S, S)

    def b_join(self, n, st):
        a, b = [self.coerce(self.expr(x, st), STR) for x in n.args]
        self.trusted_used.add("os.path.join(a, b) is an uninterpreted function of (a, b)")
        return Val(join(a.t, b.t), STR)
    V.builtins["os.path.join"] = b_join

    def m_replace(self, obj, n, st):
        a, b = [self.coerce(self.expr(x, st), STR) for x in n.args]
        self.trusted_used.add("str.replace(a, b) is an uninterpreted function of (s, a, b)")
        return Val(repl(obj.t, a.t, b.t), STR)
    V.methods["str.replace"] = m_replace


# ----------------------------------------------------------------------------- native reading (the two callees are wrapped to keep the ghost logs)
MUTABLE_FIELDS = base.MUTABLE_FIELDS


def native_env(nat):
    import os as _os
    env = base.native_env(nat)
    env["os"] = _os
    env["mid"] = lambda m: m
    return env


class _Case(dict):
    pass


class _Rec:
    """a log entry / the log itself (plain attribute bag; not walked for Event objects twice)"""
    def __init__(self, **kw):
        self.__dict__.update(kw)


def _pv_jobs(desc_jobs):
    return [[{"jobId": f"j{n}", "eventId": f"j{n}e{i}", "eventType": t, "timestamp": f"2024-01-01T00:00:{i:02d}Z", "applicationName": "app", "jobName": "wf",
              **({"previousEventIds": [f"j{n}e{i - 1}"]} if i else {})} for i, t in enumerate(job)] for n, job in enumerate(desc_jobs)]


def _materialise(nat, desc):
    """desc: {"streams": [[name, [[event types of a job in order] ...]] ...], "loaded": {name: [[event types of a job] ...] - the jobs an earlier run learned the model from}, "save": bool, "none_map": bool}"""
    import tempfile
    out = _Case()
    out.desc = desc
    out["pv_streams"] = [(nm, _pv_jobs(jobs)) for nm, jobs in desc["streams"]]
    root = tempfile.mkdtemp(prefix="vc04m_", dir="/dev/shm" if os.path.isdir("/dev/shm") else None)
    base._ROOTS.append(root)
    if len(base._ROOTS) == 1:
        import atexit
        import shutil
        atexit.register(lambda: [shutil.rmtree(r, ignore_errors=True) for r in base._ROOTS])
    out["output_file_directory"] = root
    import importlib
    di = importlib.import_module("tel2puml.pv_to_puml.data_ingestion")
    # a loaded model is what an earlier run learned from some jobs (closed: every type it mentions is one of its events)
    out["events_to_jobs_map"] = None if desc.get("none_map") else {
        nm: di.update_and_create_events_from_clustered_pvevents(_pv_jobs(jobs), add_dummy_start=True) for nm, jobs in desc["loaded"].items()}
    out["save_models"] = desc["save"]
    out["out"] = _Rec(made=[], saves=[])
    return out


def _call(nat, a):
    """run the real function with its two callees wrapped: each logs what it was given, then does its real work"""
    import importlib
    m = importlib.import_module("tel2puml.pv_to_puml.pv_to_puml")
    log = a["out"]
    real_file, real_save = m.pv_to_puml_file, m.save_events_to_file

    def w_file(pv_stream, puml_file_path="default.puml", puml_name="default_name", keep_dummy_events=False, events=None):
        jobs = [list(j) for j in pv_stream]
        before = dict(events) if events is not None else {}
        real_file(jobs, puml_file_path, puml_name, keep_dummy_events, events)
        log.made.append(_Rec(path=puml_file_path, name=puml_name, jobs=jobs, model=before, learned=events))

    def w_save(job_name, events, file_path):
        real_save(job_name, events, file_path)
        log.saves.append(_Rec(name=job_name, model=events, path=file_path))
    m.pv_to_puml_file, m.save_events_to_file = w_file, w_save
    try:
        # the callee gets its own copies of the loaded dictionaries (same Event objects): the clauses read the map as it was at entry
        mp_ = a["events_to_jobs_map"]
        return m.pv_streams_to_puml_files(a["pv_streams"], a["output_file_directory"], None if mp_ is None else {k: dict(v) for k, v in mp_.items()}, a["save_models"])
    finally:
        m.pv_to_puml_file, m.save_events_to_file = real_file, real_save


NATIVE_CALL = {"pv_streams_to_puml_files": _call}


def native_old(nat, fname_, args, old):
    snap = _Rec(made=list(args["out"].made), saves=list(args["out"].saves))
    nat.old_overrides["out"] = snap
    old = dict(old)
    old["out"] = snap
    return old


_NAMES = ["wf", "wf two", "wf_two", "a b", "a  b", "x/y", "A", "a"]


def _gen(nat, rng, n):
    # every case runs the whole diagram pipeline once per streamed name: a third of the requested number of cases, at most 400
    # (the thorough tier asks for up to 20000 cases per function, which would be hours here)
    for _ in range(min(400, max(60, n // 3))):
        names = rng.sample(_NAMES, rng.randrange(0, 4))
        streams = [[nm, [[rng.choice("ABCD") for _ in range(rng.randrange(1, 4))] for _ in range(rng.randrange(1, 3))]] for nm in names if "/" not in nm]
        loaded = {nm: [[rng.choice("ABCD") for _ in range(rng.randrange(1, 4))] for _ in range(rng.randrange(1, 3))] for nm in rng.sample(_NAMES, rng.randrange(0, 3))}
        yield _materialise(nat, {"streams": streams, "loaded": loaded, "save": rng.random() < 0.6, "none_map": rng.random() < 0.15})


GEN = {"pv_streams_to_puml_files": _gen}
NO_OLD_COPY = ("pv_streams_to_puml_files",)


class _Enc(dict):
    def __missing__(self, k):
        return lambda args: getattr(args, "desc", None)


class _Dec(dict):
    def __missing__(self, k):
        return lambda nat, e: _materialise(nat, e)


ENCODE = _Enc()
DECODE = _Dec()
