"""C06 (proved part) - what is fed to the miner.

Functions under contract (real source re-read on every run): tel2puml/logic_detection.py
    create_data_from_event_sequence, create_augmented_data_from_reduced_event_set, create_augmented_data_from_event_sets

The inductive miner (external, no contract) is given an event log: rows (case id, activity, time).  What the gate inference needs of
that log is that its *cases* are the orderings of the observed successor sets: one case per (set, ordering), each case the start marker
followed by the ordering.  A log in which two orderings share a case id is a different log (seed C06_g: the case id became the "_"-join
of the ordering; `{a, a_a}` then has one garbled case).  Proved, for every set of sets of event names:
    fresh        every case id of the log was issued during the call (none was in use before),
    contiguous   the rows of one case are adjacent (two different blocks never share a case id),
    starts       the first row of every case is the start marker,
    time_order   inside a case the time stamps go up in steps of one second, in the order yielded,
    from_sets    every other row is an event of the set (of one of the sets).
Decided at run time only (bounded): the cases are *exactly* the orderings (`cases_are_orderings`; needs counting over blocks).

Trusted: str(uuid4()) is a string that was never issued before (ghost set ids.issued); permutations(S, len(S)) yields sequences of
length |S| of pairwise distinct elements of S; datetime is a count of seconds and `+ timedelta(seconds=i)` adds i; generators are read
as the list of what they yield (`yield from g(...)` appends g's list).
"""
MODULE = "tel2puml/logic_detection.py"

RECORDS = {
    "Row": {"struct": True, "dict_display": True, "fields": {"case_id": "str", "activity": "str", "timestamp": "int"}},
    "IdSource": {"fields": {"issued": "set[str]"}, "mutable": ["issued"]},
    "EventSet": {"fields": {}},
}

START = "'|||START|||'"
FIRST = "(i == 0 or {r}[i - 1]['case_id'] != {r}[i]['case_id'])"


def LOG(r, n):
    """the clauses about a log r (a list of rows) of length n"""
    return {
        "contiguous": f"all(implies({r}[a]['case_id'] == {r}[c]['case_id'], {r}[b]['case_id'] == {r}[a]['case_id']) "
                      f"for a in range({n}) for b in range(a, {n}) for c in range(b, {n}))",
        "starts": f"all(implies({FIRST.format(r=r)}, {r}[i]['activity'] == {START}) for i in range({n}))",
        "time_order": f"all(implies(not {FIRST.format(r=r)}, {r}[i]['timestamp'] == after({r}[i - 1]['timestamp'], 1)) for i in range({n}))",
    }


def IDS(r, n):
    return {
        "fresh": f"all({r}[i]['case_id'] not in old(ids.issued) and {r}[i]['case_id'] in ids.issued for i in range({n}))",
        "issued_grows": "all(x in ids.issued for x in old(ids.issued))",
    }


CONTRACTS = {
    "create_data_from_event_sequence": {
        "params": {"event_sequence": "list[str]", "case_id": "str", "start_time": "int"},
        "returns": "list[Row]",
        "generator": True,
        "ensures": {
            "len": "len(result) == len(event_sequence)",
            "rows": "all(result[i]['case_id'] == case_id and result[i]['activity'] == event_sequence[i] "
                    "and result[i]['timestamp'] == after(start_time, i) for i in range(len(event_sequence)))",
        },
        "loops": {0: {"index": "i", "invariant": {
            "len": "len(yielded) == i",
            "rows": "all(yielded[q]['case_id'] == case_id and yielded[q]['activity'] == event_sequence[q] and yielded[q]['timestamp'] == after(start_time, q) "
                    "for q in range(i))",
        }}},
    },
    "create_augmented_data_from_reduced_event_set": {
        "params": {"reduced_event_set": "set[str]"},
        "returns": "list[Row]",
        "generator": True,
        "modifies": ["IdSource.issued"],
        "ensures": {
            **LOG("result", "len(result)"), **IDS("result", "len(result)"),
            "from_set": f"all(implies(not {FIRST.format(r='result')}, result[i]['activity'] in reduced_event_set) for i in range(len(result)))",
            "some_case": "len(result) > 0",
        },
        "runtime_ensures": {
            "cases_are_orderings": "sorted(cases_of(result)) == sorted(orderings(reduced_event_set))",
        },
        "loops": {0: {"index": "k", "seq": "ps", "invariant": {
            **LOG("yielded", "len(yielded)"), **IDS("yielded", "len(yielded)"),
            "from_set": f"all(implies(not {FIRST.format(r='yielded')}, yielded[i]['activity'] in reduced_event_set) for i in range(len(yielded)))",
            "some_case": "implies(k > 0, len(yielded) > 0)",
        }}},
    },
    "create_augmented_data_from_event_sets": {
        "params": {"event_sets": "set[EventSet]"},
        "returns": "list[Row]",
        "generator": True,
        "modifies": ["IdSource.issued"],
        "ensures": {
            **LOG("result", "len(result)"), **IDS("result", "len(result)"),
            "from_sets": f"all(implies(not {FIRST.format(r='result')}, any(result[i]['activity'] in s for s in reduced_sets(event_sets))) for i in range(len(result)))",
        },
        "runtime_ensures": {
            "cases_are_orderings": "sorted(cases_of(result)) == sorted(o for s in reduced_sets(event_sets) for o in orderings(s))",
        },
        "loops": {0: {"index": "k", "seq": "rs", "invariant": {
            **LOG("yielded", "len(yielded)"), **IDS("yielded", "len(yielded)"),
            "src": "all(rs[q] in reduced_sets(event_sets) for q in range(len(rs)))",
            "from_sets": f"all(implies(not {FIRST.format(r='yielded')}, any(yielded[i]['activity'] in s for s in reduced_sets(event_sets))) for i in range(len(yielded)))",
        }}},
    },
}
ORDER = ["create_data_from_event_sequence", "create_augmented_data_from_reduced_event_set", "create_augmented_data_from_event_sets"]


def setup(V):
    import ast
    import z3
    from pyvc.engine import V as Val, Unsupported
    from pyvc.tys import STR, INT, SeqTy, SetTy

    ids_rec = V.tenv.records["IdSource"]
    V.__dict__.setdefault("ghost_globals", {})["ids"] = ids_rec
    V.consts["DUMMY_START_EVENT"] = V.strlit("|||START|||")

    def ids_obj(self):
        return Val(z3.Const("ghost$ids", self.sort(ids_rec)), ids_rec)

    prev_str = V.builtins.get("str")

    def b_str(self, n, st):
        a = n.args[0] if n.args else None
        if isinstance(a, ast.Call) and isinstance(a.func, ast.Name) and a.func.id == "uuid4" and not a.args:
            # str(uuid4()): a string that has not been issued before; it is issued now
            if self.mode_spec:
                raise Unsupported("uuid4() in a clause", n)
            c = self.fresh("uuid", STR)
            issued = self.read_field(st, ids_obj(self), "issued")
            sty = issued.ty
            self.assume(st, z3.Not(self.pre.setf(sty, "mem")(issued.t, c.t)))
            self.write_field(st, ids_obj(self), "issued", Val(self.pre.setf(sty, "add")(issued.t, c.t), sty))
            self.trusted_used.add("str(uuid4()) is a string that was not issued before (ghost set ids.issued; collisions of random UUIDs are not modelled)")
            return c
        if prev_str is None:
            raise Unsupported("str()", n)
        return prev_str(self, n, st)
    V.builtins["str"] = b_str

    def b_after(self, n, st):
        """after(t, k): the instant k seconds after t (datetimes are counts of seconds here)"""
        return Val(self.coerce(self.expr(n.args[0], st), INT).t + self.coerce(self.expr(n.args[1], st), INT).t, INT)
    V.builtins["after"] = b_after

    def b_timedelta(self, n, st):
        kws = {kw.arg: kw.value for kw in n.keywords}
        if n.args or set(kws) != {"seconds"}:
            raise Unsupported("timedelta other than timedelta(seconds=...)", n)
        self.trusted_used.add("datetime values are modelled as a count of seconds; `t + timedelta(seconds=i)` is t + i")
        return Val(self.coerce(self.expr(kws["seconds"], st), INT).t, INT)
    V.builtins["timedelta"] = b_timedelta

    def b_now(self, n, st):
        return self.fresh("now", INT)
    V.builtins["datetime.now"] = b_now

    def b_permutations(self, n, st):
        """permutations(S, len(S)): sequences of length |S| of pairwise distinct elements of S, no two of them equal (completeness - every
        ordering occurs - is not stated: the proved clauses do not need it; the run-time clause checks it on the real itertools)"""
        coll = self.expr(n.args[0], st)
        if not (isinstance(coll.ty, SetTy) and len(n.args) == 2 and ast.unparse(n.args[1]) == f"len({ast.unparse(n.args[0])})"):
            raise Unsupported("permutations other than permutations(S, len(S))", n)
        ety = coll.ty.elem
        pty = SeqTy(SeqTy(ety))
        k = self.site()
        ps = self.fresh(f"perms{k}", pty)
        mem = self.pre.setf(coll.ty, "mem")
        card = self.set_len(coll) if hasattr(self, "set_len") else None
        i, j, j2 = z3.Int(f"pi{k}"), z3.Int(f"pj{k}"), z3.Int(f"pk{k}")
        row = self.seq_idx(ps, i)
        if card is not None:
            self.assume(st, z3.ForAll([i], z3.Implies(z3.And(0 <= i, i < self.seq_len(ps)), self.seq_len(row) == card), patterns=[row.t]))
        at = self.seq_idx(row, j).t
        self.assume(st, z3.ForAll([i, j], z3.Implies(z3.And(0 <= i, i < self.seq_len(ps), 0 <= j, j < self.seq_len(row)), mem(coll.t, at)), patterns=[at]))
        at2 = self.seq_idx(row, j2).t
        self.assume(st, z3.ForAll([i, j, j2], z3.Implies(z3.And(0 <= i, i < self.seq_len(ps), 0 <= j, j < j2, j2 < self.seq_len(row)), at != at2),
                                  patterns=[z3.MultiPattern(at, at2)]))
        self.assume(st, self.seq_len(ps) >= 1)
        self.trusted_used.add("itertools.permutations(S, len(S)) yields at least one sequence, each of length |S|, of pairwise distinct elements of S")
        return ps
    V.builtins["permutations"] = b_permutations

    es = V.tenv.records["EventSet"]
    rty = SetTy(SetTy(STR))
    red = V.pre.func("reduced_sets", V.sort(SetTy(es)), V.sort(rty))

    def b_reduced(self, n, st):
        v = self.expr(n.args[0], st)
        self.trusted_used.add("ev.get_reduced_event_set(event_sets) is a function of the event sets (the set of their sets of event names); not verified here (C04)")
        return Val(red(v.t), rty)
    V.builtins["ev.get_reduced_event_set"] = b_reduced
    V.builtins["reduced_sets"] = b_reduced


# ----------------------------------------------------------------------------- native reading
class _Ids:
    def __init__(self):
        self.issued = set()

    def __deepcopy__(self, memo):
        c = _Ids()
        c.issued = set(self.issued)
        return c

    def __universe__(self):
        return list(self.issued)


def native_env(nat):
    import importlib
    import itertools
    from datetime import timedelta
    importlib.import_module("tel2puml.events")       # (logic_detection and events import each other: events first)

    def after(t, k):
        return t + timedelta(seconds=k)

    def cases_of(rows):
        order, acts = [], {}
        for r in rows:
            if r["case_id"] not in acts:
                order.append(r["case_id"])
                acts[r["case_id"]] = []
            acts[r["case_id"]].append((r["timestamp"], r["activity"]))
        return [tuple(a for _, a in sorted(acts[c], key=lambda x: x[0])) for c in order]      # a case = its activities in time order (what pm4py sees)

    def orderings(s):
        return [("|||START|||",) + p for p in itertools.permutations(sorted(s))]

    def reduced_sets(event_sets):
        import importlib
        return importlib.import_module("tel2puml.events").get_reduced_event_set(event_sets)
    return {"after": after, "cases_of": cases_of, "orderings": orderings, "reduced_sets": reduced_sets}


def _call(name):
    def run(nat, args):
        import importlib
        importlib.import_module("tel2puml.events")
        ld = importlib.import_module("tel2puml.logic_detection")
        a = {k: v for k, v in args.items() if k != "ids"}
        rows = list(getattr(ld, name)(**a))
        args["ids"].issued |= {r["case_id"] for r in rows}
        return rows
    return run


NATIVE_CALL = {n: _call(n) for n in ("create_augmented_data_from_reduced_event_set", "create_augmented_data_from_event_sets")}

NAMES = [["A", "B", "C", "D"], ["get", "cart", "get_cart", "cart_get"], ["a", "a_a", "a_a_a", "_"], ["tau", "", " ", "x,y"], ["1", "11", "1_1", "1 1"]]


def _gen_set(nat, rng, n):
    for _ in range(n):
        pool = rng.choice(NAMES)
        yield {"reduced_event_set": frozenset(rng.sample(pool, rng.randint(0, 4))), "ids": _Ids()}


def _small_set(nat):
    for pool in NAMES:
        import itertools
        for r in range(0, 4):
            for c in itertools.combinations(pool, r):
                yield {"reduced_event_set": frozenset(c), "ids": _Ids()}


def _gen_sets(nat, rng, n):
    import importlib
    ev = importlib.import_module("tel2puml.events")
    for _ in range(n):
        pool = rng.choice(NAMES)
        sets = [rng.sample(pool, rng.randint(1, 3)) for _ in range(rng.randint(0, 4))]
        yield {"event_sets": {ev.EventSet(s + ([s[0]] if rng.random() < 0.2 else [])) for s in sets}, "ids": _Ids(), "$sets": sets}


def _gen_seq(nat, rng, n):
    from datetime import datetime
    for _ in range(n):
        pool = rng.choice(NAMES)
        yield {"event_sequence": [rng.choice(pool) for _ in range(rng.randint(0, 5))], "case_id": rng.choice(["c", "", "a_b"]),
               "start_time": datetime(2024, 1, 1, 0, 0, rng.randint(0, 59))}


GEN = {"create_data_from_event_sequence": _gen_seq, "create_augmented_data_from_reduced_event_set": _gen_set, "create_augmented_data_from_event_sets": _gen_sets}
SMALL = {"create_augmented_data_from_reduced_event_set": _small_set}
NO_OLD_COPY = ()
ENCODE = {
    "create_data_from_event_sequence": lambda a: {"event_sequence": a["event_sequence"], "case_id": a["case_id"], "start_time": a["start_time"].isoformat()},
    "create_augmented_data_from_reduced_event_set": lambda a: {"set": sorted(a["reduced_event_set"])},
    "create_augmented_data_from_event_sets": lambda a: {"sets": a["$sets"]},
}


def _dec_sets(nat, e):
    import importlib
    ev = importlib.import_module("tel2puml.events")
    return {"event_sets": {ev.EventSet(s) for s in e["sets"]}, "ids": _Ids(), "$sets": e["sets"]}


def _dec_seq(nat, e):
    from datetime import datetime
    return {"event_sequence": e["event_sequence"], "case_id": e["case_id"], "start_time": datetime.fromisoformat(e["start_time"])}


DECODE = {
    "create_data_from_event_sequence": _dec_seq,
    "create_augmented_data_from_reduced_event_set": lambda nat, e: {"reduced_event_set": frozenset(e["set"]), "ids": _Ids()},
    "create_augmented_data_from_event_sets": _dec_sets,
}


def native_call_args(nat, fname, args):
    return {k: v for k, v in args.items() if not k.startswith("$")}
