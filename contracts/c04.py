"""C04 - updating a saved model equals learning from all data at once.

Functions under contract (real source re-read on every run), tel2puml/events.py:
  Event.__init__, Event._set_uid, Event.logic_gate_tree (getter and setter), Event.update_event_sets,
  Event.update_in_event_sets, Event.remove_event_type_from_event_sets, Event.remove_event_type_from_in_event_sets,
  event_inputs_to_events, events_to_event_inputs

An `EventSet` is viewed as the multiset it denotes: the abstract function cnt(es, t) (count of type t), with
extensionality (two EventSets with equal counts are the same value - this is what EventSet.__eq__/__hash__ implement;
that link is validated at run time on the real class, see NATIVE below, not proved).

Class invariant of Event (cache coherence of the gate tree, events.py `_update_since_logic_gate_tree`):

    Inv(e) :=  e._update_since_logic_gate_tree  or  e._logic_gate_tree == clg(e.event_sets)

with clg the (pure, external) function calculate_logic_gates.  Every method that touches `event_sets` must
re-establish Inv; the getter then returns clg(event_sets), i.e. the logic learned from *all* evidence so far -
which is what "reloading a model with no new evidence for some events still reproduces their logic" needs.
"""
MODULE = "tel2puml/events.py"
FILES = {"": MODULE, "calculate_logic_gates": "tel2puml/logic_detection.py"}

_EVENT_FIELDS = {
    "event_type": "str", "event_sets": "set[EventSet]", "in_event_sets": "set[EventSet]", "_uid": "Optional[str]",
    "_logic_gate_tree": "Optional[ProcessTree]", "_update_since_logic_gate_tree": "bool",
}
RECORDS = {
    "ProcessTree": {"fields": {}},
    "EventSet": {"fields": {}},
    "EventSetCountInput": {"fields": {"eventType": "str", "count": "int"}},
    "EventInput": {"fields": {"eventType": "str", "outgoingEventSets": "list[list[EventSetCountInput]]",
                              "incomingEventSets": "list[list[EventSetCountInput]]"}},
    "Event": {"fields": _EVENT_FIELDS, "mutable": list(_EVENT_FIELDS)},
}

SPECS = '''
@opaque
def cnt(es: EventSet, t: str) -> int:
    return 0

'''


def INV(o):
    """class invariant of Event as a clause macro (it speaks about the current heap)"""
    return f"({o}._update_since_logic_gate_tree or calculate_logic_gates({o}.event_sets) == {o}._logic_gate_tree)"


ALL = ["Event." + f for f in _EVENT_FIELDS]


def frame(*changed, obj="self"):
    """every field of every *other* Event object, and the unlisted fields of `obj`, keep their values"""
    others = " and ".join(f"e.{f} == old(e.{f})" for f in _EVENT_FIELDS)
    same = " and ".join(f"{obj}.{f} == old({obj}.{f})" for f in _EVENT_FIELDS if f not in changed) or "True"
    return f"forall(lambda e: e is {obj} or ({others}), 'Event', triggers=[e.event_sets, e._logic_gate_tree, e._update_since_logic_gate_tree, e.in_event_sets]) and {same}"


CONTRACTS = {
    "calculate_logic_gates": {"trusted": True, "pure": True, "params": {"event_sets": "set[EventSet]"}, "returns": "Optional[ProcessTree]",
                              "ensures": {"nothing_from_nothing": "implies(len(event_sets) == 0, result is None)"}},
    "Event._set_uid": {
        "modifies": ["Event._uid"],
        "ensures": {"frame": "forall(lambda e: e is self or e._uid == old(e._uid), 'Event', triggers=[e._uid])"},
    },
    "Event.__init__": {
        "modifies": ALL,
        "ensures": {
            "fresh": "len(self.event_sets) == 0 and len(self.in_event_sets) == 0 and self.event_type == event_type",
            "coherent": INV("self"),
            "frame": frame(*_EVENT_FIELDS),
        },
    },
    "Event.logic_gate_tree": {
        "modifies": ["Event._logic_gate_tree", "Event._update_since_logic_gate_tree"],
        "requires": {"coherent": INV("self")},
        "ensures": {
            # the logic returned is that of *all* successor sets recorded so far
            "value": "calculate_logic_gates(self.event_sets) == result",
            "coherent": INV("self") + " and not self._update_since_logic_gate_tree",
            "frame": frame("_logic_gate_tree", "_update_since_logic_gate_tree"),
        },
        "returns": "Optional[ProcessTree]",
    },
    "Event.logic_gate_tree.setter": {
        "source_name": "Event.logic_gate_tree", "decorator": "logic_gate_tree.setter",
        "params": {"value": "Optional[ProcessTree]"},
        "modifies": ["Event._logic_gate_tree", "Event._update_since_logic_gate_tree"],
        "ensures": {
            "value": "self._logic_gate_tree == value and not self._update_since_logic_gate_tree",
            "frame": frame("_logic_gate_tree", "_update_since_logic_gate_tree"),
        },
    },
    "Event.update_event_sets": {
        "modifies": ["Event.event_sets", "Event._update_since_logic_gate_tree"],
        "requires": {"coherent": INV("self")},
        "ensures": {
            # union lemma: S |-> S + {multiset(events)} for a non-empty list, identity otherwise
            "union": "self.event_sets == (old(self.event_sets) | {EventSet(events)} if len(events) > 0 else old(self.event_sets))",
            "coherent": INV("self"),
            "frame": frame("event_sets", "_update_since_logic_gate_tree"),
        },
    },
    "Event.update_in_event_sets": {
        "modifies": ["Event.in_event_sets"],
        "ensures": {
            "union": "self.in_event_sets == (old(self.in_event_sets) | {EventSet(events)} if len(events) > 0 else old(self.in_event_sets))",
            "frame": frame("in_event_sets"),
        },
    },
    "Event.remove_event_type_from_event_sets": {
        "modifies": ["Event.event_sets", "Event._update_since_logic_gate_tree"],
        "ensures": {
            "filtered": "forall(lambda es: (es in self.event_sets) == (es in old(self.event_sets) and event_type not in es), 'EventSet')",
            "coherent": INV("self"),
            "frame": frame("event_sets", "_update_since_logic_gate_tree"),
        },
    },
    "Event.remove_event_type_from_in_event_sets": {
        "modifies": ["Event.in_event_sets"],
        "ensures": {
            "filtered": "forall(lambda es: (es in self.in_event_sets) == (es in old(self.in_event_sets) and event_type not in es), 'EventSet')",
            "frame": frame("in_event_sets"),
        },
    },
    "event_inputs_to_events": {
        "modifies": ALL,
        "raises": {"ValueError": "any(eventInputs[p].eventType == eventInputs[q].eventType for p in range(len(eventInputs)) for q in range(p + 1, len(eventInputs)))"},
        "ensures": {
            "has_all": "all(eventInputs[p].eventType in result for p in range(len(eventInputs)))",
            "only": "all(any(eventInputs[p].eventType == k for p in range(len(eventInputs))) for k in result)",
            "typed": "all(result[k].event_type == k for k in result)",
            # the model file round-trips every successor / predecessor multiset
            "out_sets": "all(forall(lambda es: (es in result[eventInputs[p].eventType].event_sets) == "
                        "any(es == EventSet([x.eventType for x in l for _ in range(x.count)]) for l in eventInputs[p].outgoingEventSets), 'EventSet') "
                        "for p in range(len(eventInputs)))",
            "in_sets": "all(forall(lambda es: (es in result[eventInputs[p].eventType].in_event_sets) == "
                       "any(es == EventSet([x.eventType for x in l for _ in range(x.count)]) for l in eventInputs[p].incomingEventSets), 'EventSet') "
                       "for p in range(len(eventInputs)))",
            # reloading a model: every event's gate tree is (re)computed from the loaded successor sets
            "coherent": "all(" + INV("result[k]") + " for k in result)",
        },
        "loops": {
            0: {"index": "i", "invariant": {
                "has_all": "all(eventInputs[p].eventType in events for p in range(i))",
                "only": "all(any(eventInputs[p].eventType == k for p in range(i)) for k in events)",
                "typed": "all(events[k].event_type == k for k in events)",
                "distinct_objs": "all(events[k1] is not events[k2] for k1 in events for k2 in events if k1 != k2)",
                "out_sets": "all(forall(lambda es: (es in events[eventInputs[p].eventType].event_sets) == "
                            "any(es == EventSet([x.eventType for x in l for _ in range(x.count)]) for l in eventInputs[p].outgoingEventSets), 'EventSet') "
                            "for p in range(i))",
                "in_sets": "all(forall(lambda es: (es in events[eventInputs[p].eventType].in_event_sets) == "
                           "any(es == EventSet([x.eventType for x in l for _ in range(x.count)]) for l in eventInputs[p].incomingEventSets), 'EventSet') "
                           "for p in range(i))",
                "coherent": "all(" + INV("events[k]") + " for k in events)",
                "no_dups": "all(eventInputs[p].eventType != eventInputs[q].eventType for p in range(i) for q in range(p + 1, i))",
            }},
            1: {"index": "j", "invariant": {
                "fresh": "all(events[k] is not event for k in events)",
                "others": "all(" + " and ".join(f"events[k].{f} == pre_loop(events[k].{f})" for f in _EVENT_FIELDS) + " for k in events)",
                "filling": "forall(lambda es: (es in event.event_sets) == any(es == EventSet([x.eventType for x in eventInput.outgoingEventSets[q] "
                           "for _ in range(x.count)]) for q in range(j)), 'EventSet')",
                "rest": "len(event.in_event_sets) == 0 and event.event_type == eventInput.eventType",
            }},
            2: {"index": "j2", "invariant": {
                "fresh": "all(events[k] is not event for k in events)",
                "others": "all(" + " and ".join(f"events[k].{f} == pre_loop(events[k].{f})" for f in _EVENT_FIELDS) + " for k in events)",
                "filling": "forall(lambda es: (es in event.in_event_sets) == any(es == EventSet([x.eventType for x in eventInput.incomingEventSets[q] "
                           "for _ in range(x.count)]) for q in range(j2)), 'EventSet')",
                "rest": "event.event_sets == pre_loop(event.event_sets) and event.event_type == eventInput.eventType "
                        "and event._update_since_logic_gate_tree == pre_loop(event._update_since_logic_gate_tree) "
                        "and event._logic_gate_tree == pre_loop(event._logic_gate_tree)",
            }},
        },
        "locals": {"events": "dict[str, Event]"},
    },
}

ORDER = ["calculate_logic_gates", "Event._set_uid", "Event.__init__", "Event.logic_gate_tree", "Event.logic_gate_tree.setter",
         "Event.update_event_sets", "Event.update_in_event_sets", "Event.remove_event_type_from_event_sets",
         "Event.remove_event_type_from_in_event_sets", "event_inputs_to_events"]


def setup(V):
    import z3
    from pyvc.engine import V as Val
    from pyvc.tys import INT, BOOL, STR, SeqTy

    ES = V.tenv.records["EventSet"]
    S = V.sort(ES)
    Str = V.pre.Str
    cnt = z3.Function("cnt", S, Str, z3.IntSort())     # same symbol as the @opaque spec function `cnt`
    a, b = z3.Consts("esa esb", S)
    t = z3.Const("est", Str)
    seteq = z3.Function("es_same", S, S, z3.BoolSort())
    V.pre.ax("EventSet.cnt_nonneg", z3.ForAll([a, t], cnt(a, t) >= 0, patterns=[cnt(a, t)]))
    V.pre.ax("EventSet.ext", z3.ForAll([a, b], seteq(a, b) == z3.ForAll([t], cnt(a, t) == cnt(b, t), patterns=[cnt(a, t), cnt(b, t)]), patterns=[seteq(a, b)]))
    V.pre.ax("EventSet.ext_eq", z3.ForAll([a, b], z3.Implies(seteq(a, b), a == b), patterns=[seteq(a, b)]))
    V.trusted_used.add("EventSet is viewed as the multiset cnt(es, .); equal counts <=> equal value (what EventSet.__eq__/__hash__ implement; validated at run time)")
    sty = SeqTy(STR)
    mk = z3.Function("mk_es", V.sort(sty), S)
    xs = z3.Const("esxs", V.sort(sty))
    V.pre.ax("EventSet.init", z3.ForAll([xs, t], cnt(mk(xs), t) == V.pre.seqf(sty, "count")(xs, t), patterns=[cnt(mk(xs), t)]))
    V.trusted_used.add("EventSet(events) denotes the multiset of the list `events` (contract of EventSet.__init__; validated at run time)")

    def es_ctor(self, n, st):
        arg = self.coerce(self.as_seq(self.expr(n.args[0], st), st), sty)
        return Val(mk(arg.t), ES)
    V.builtins["EventSet"] = es_ctor

    def b_uuid4(self, n, st):
        from pyvc.tys import ANY
        return self.fresh("uuid", ANY)
    V.builtins["uuid4"] = b_uuid4

    def es_contains(self, coll, x, st):
        return cnt(coll.t, self.coerce(x, STR).t) >= 1
    V.contains_handlers["EventSet"] = es_contains


# ----------------------------------------------------------------------------- native reading
MUTABLE_FIELDS = {"Event": list(_EVENT_FIELDS)}


def native_env(nat):
    import importlib
    ev = importlib.import_module("tel2puml.events")
    ld = importlib.import_module("tel2puml.logic_detection")

    def cnt(es, t):
        return es.get(t, 0)

    def tree_repr(t):
        return None if t is None else repr(t)

    def inv(e):
        if e._update_since_logic_gate_tree:
            return True
        return tree_repr(e._logic_gate_tree) == tree_repr(ld.calculate_logic_gates(e.event_sets))

    def clg(event_sets):
        return _Tree(ld.calculate_logic_gates(event_sets))

    class _Tree:
        """process trees compared by their printed form (pm4py trees have identity equality)"""
        def __init__(self, t):
            self.t = t

        def __eq__(self, o):
            o = o.t if isinstance(o, _Tree) else o
            return tree_repr(self.t) == tree_repr(o)

        def __hash__(self):
            return hash(tree_repr(self.t))
    return {"cnt": cnt, "inv": inv, "calculate_logic_gates": clg, "EventSet": ev.EventSet, "_Tree": _Tree}


NATIVE_CALL = {
    "Event.logic_gate_tree": lambda nat, a: type(a["self"]).logic_gate_tree.fget(a["self"]),
    "Event.logic_gate_tree.setter": lambda nat, a: type(a["self"]).logic_gate_tree.fset(a["self"], a["value"]),
}


def _mod(nat):
    import importlib
    return importlib.import_module("tel2puml.events"), importlib.import_module("tel2puml.logic_detection")


def mk_event(nat, d):
    """d = {"type", "out": [[types]], "in": [[types]], "cache": "none" | "computed" | "stale"}"""
    ev, ld = _mod(nat)
    e = ev.Event(d["type"], uid="uid-" + d["type"])
    e.event_sets = {ev.EventSet(x) for x in d["out"]}
    e.in_event_sets = {ev.EventSet(x) for x in d["in"]}
    if d["cache"] == "computed":
        e._logic_gate_tree = ld.calculate_logic_gates(e.event_sets)
        e._update_since_logic_gate_tree = False
    elif d["cache"] == "stale":
        e._logic_gate_tree = None
        e._update_since_logic_gate_tree = True
    else:
        e._logic_gate_tree = None
        e._update_since_logic_gate_tree = False
    return e


def _rand_event_desc(rng, name="E"):
    types = ["A", "B", "C", "D"]
    def lists(n):
        return [[rng.choice(types) for _ in range(rng.randrange(1, 4))] for _ in range(n)]
    return {"type": name, "out": lists(rng.randrange(0, 4)), "in": lists(rng.randrange(0, 3)), "cache": rng.choice(["computed", "stale", "computed", "none"])}


def _gen_method(extra):
    def g(nat, rng, n):
        for _ in range(n):
            d = _rand_event_desc(rng)
            a = {"self": d}
            a.update(extra(rng))
            yield _materialise(nat, a)
    return g


class _Case(dict):
    """argument dict that remembers its JSON description (for replay files)"""


def _materialise(nat, desc):
    ev, ld = _mod(nat)
    out = _Case()
    out.desc = desc
    for k, v in desc.items():
        if k == "self":
            out[k] = mk_event(nat, v)
        elif k == "eventInputs":
            out[k] = [ev.EventInput(eventType=x["eventType"],
                                    outgoingEventSets=[[ev.EventSetCountInput(eventType=t, count=c) for t, c in l] for l in x["out"]],
                                    incomingEventSets=[[ev.EventSetCountInput(eventType=t, count=c) for t, c in l] for l in x["in"]]) for x in v]
        elif k == "value":
            out[k] = None if v is None else ld.calculate_logic_gates({ev.EventSet(x) for x in v})
        else:
            out[k] = v
    return out


def _gen_inputs(nat, rng, n):
    types = ["A", "B", "C", "D", "E"]
    for _ in range(n):
        k = rng.randrange(0, 5)
        names = [rng.choice(types) for _ in range(k)] if rng.random() < 0.2 else rng.sample(types, k)

        def sets(m):
            return [[[t, rng.randrange(1, 3)] for t in rng.sample(types, rng.randrange(1, 4))] for _ in range(m)]
        yield _materialise(nat, {"eventInputs": [{"eventType": nm, "out": sets(rng.randrange(0, 4)), "in": sets(rng.randrange(0, 3))} for nm in names]})


def _small_inputs(nat):
    """every model over <= 2 event types with <= 2 successor multisets drawn from {A}, {B}, {A,B}, {A,A}"""
    import itertools
    ms = [[["A", 1]], [["B", 1]], [["A", 1], ["B", 1]], [["A", 2]]]
    fam = [[]] + [[m] for m in ms] + [[a, b] for a, b in itertools.combinations(ms, 2)]
    for out1 in fam:
        yield _materialise(nat, {"eventInputs": [{"eventType": "X", "out": out1, "in": []}]})
        for out2 in fam[:6]:
            yield _materialise(nat, {"eventInputs": [{"eventType": "X", "out": out1, "in": out2}, {"eventType": "Y", "out": out2, "in": []}]})
    yield _materialise(nat, {"eventInputs": [{"eventType": "X", "out": [], "in": []}, {"eventType": "X", "out": [], "in": []}]})


_TYPES = ["A", "B", "C", "D"]
GEN = {
    "Event.logic_gate_tree": _gen_method(lambda rng: {}),
    "Event.logic_gate_tree.setter": _gen_method(lambda rng: {"value": rng.choice([None, [["A"], ["B"]], [["A", "B"]]])}),
    "Event.update_event_sets": _gen_method(lambda rng: {"events": [rng.choice(_TYPES) for _ in range(rng.randrange(0, 4))]}),
    "Event.update_in_event_sets": _gen_method(lambda rng: {"events": [rng.choice(_TYPES) for _ in range(rng.randrange(0, 4))]}),
    "Event.remove_event_type_from_event_sets": _gen_method(lambda rng: {"event_type": rng.choice(_TYPES)}),
    "Event.remove_event_type_from_in_event_sets": _gen_method(lambda rng: {"event_type": rng.choice(_TYPES)}),
    "event_inputs_to_events": _gen_inputs,
}
SMALL = {"event_inputs_to_events": _small_inputs}


class _Enc(dict):
    def __missing__(self, k):
        return lambda args: getattr(args, "desc", None)


class _Dec(dict):
    def __missing__(self, k):
        return lambda nat, e: _materialise(nat, e)


ENCODE = _Enc()
DECODE = _Dec()
