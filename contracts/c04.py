"""C04 - updating a saved model equals learning from all data at once.

Functions under contract (real source re-read on every run), tel2puml/events.py:
  Event.__init__, Event._set_uid, Event.logic_gate_tree (getter and setter), Event.update_event_sets,
  Event.update_in_event_sets, Event.remove_event_type_from_event_sets, Event.remove_event_type_from_in_event_sets,
  event_inputs_to_events, events_to_event_inputs

An `EventSet` is viewed as the multiset it denotes: the abstract function cnt(es, t) (count of type t), with
extensionality (two EventSets with equal counts are the same value - this is what EventSet.__eq__/__hash__ implement;
that link is validated at run time on the real class, see NATIVE below, not proved).

Class invariant of Event (cache coherence of the gate tree, events.py `_update_since_logic_gate_tree`):

    Inv(e) :=  e._update_since_logic_gate_tree  or  e._logic_gate_tree == clg(e.event_sets)

with clg the (pure, external) function calculate_logic_gates.  Every method that touches `event_sets` must
re-establish Inv; the getter then returns clg(event_sets), i.e. the logic learned from *all* evidence so far -
which is what "reloading a model with no new evidence for some events still reproduces their logic" needs.
"""
MODULE = "tel2puml/events.py"
FILES = {"": MODULE, "calculate_logic_gates": "tel2puml/logic_detection.py"}

_EVENT_FIELDS = {
    "event_type": "str", "event_sets": "set[EventSet]", "in_event_sets": "set[EventSet]", "_uid": "Optional[str]",
    "_logic_gate_tree": "Optional[ProcessTree]", "_update_since_logic_gate_tree": "bool",
}
USES_FS = True
RECORDS = {
    # a model file holds the validated value of EventInputsFile (pydantic's model_dump / model_validate are trusted to be inverse)
    "EventInputsFile": {"fields": {"job_name": "str", "events": "list[EventInput]"}},
    "FS": {"fields": {"files": "dict[str, EventInputsFile]"}, "mutable": ["files"]},
    "ProcessTree": {"fields": {}},
    "EventSet": {"fields": {}},
    "EventSetCountInput": {"fields": {"eventType": "str", "count": "int"}},
    "EventInput": {"fields": {"eventType": "str", "outgoingEventSets": "list[list[EventSetCountInput]]",
                              "incomingEventSets": "list[list[EventSetCountInput]]"}},
    "Event": {"fields": _EVENT_FIELDS, "mutable": list(_EVENT_FIELDS)},
}

SPECS = '''
@opaque
def cnt(es: EventSet, t: str) -> int:
    return 0

def rep(l: list[EventSetCountInput]) -> list[str]:
    return [x.eventType for x in l for _ in range(x.count)]

def entries_of(l: list[EventSetCountInput], es: EventSet) -> bool:
    return (all(l[p].count == cnt(es, l[p].eventType) and l[p].count >= 1 for p in range(len(l)))
            and all(l[p].eventType != l[q].eventType for p in range(len(l)) for q in range(p + 1, len(l)))
            and forall(lambda t: implies(cnt(es, t) >= 1, any(l[p].eventType == t for p in range(len(l)))), 'str'))

def lists_of(ls: list[list[EventSetCountInput]], s: set[EventSet]) -> bool:
    return (forall(lambda es: implies(es in s, any(entries_of(ls[p], es) for p in range(len(ls)))), 'EventSet')
            and all(exists(lambda es: es in s and entries_of(ls[p], es), 'EventSet') for p in range(len(ls))))

def denotes(ls: list[list[EventSetCountInput]], s: set[EventSet]) -> bool:
    return forall(lambda es: (es in s) == any(es == EventSet(rep(l)) for l in ls), 'EventSet')
'''


def INV(o):
    """class invariant of Event as a clause macro (it speaks about the current heap)"""
    return f"({o}._update_since_logic_gate_tree or calculate_logic_gates({o}.event_sets) == {o}._logic_gate_tree)"


ALL = ["Event." + f for f in _EVENT_FIELDS]


def frame(*changed, obj="self"):
    """every field of every *other* Event object, and the unlisted fields of `obj`, keep their values"""
    others = " and ".join(f"e.{f} == old(e.{f})" for f in _EVENT_FIELDS)
    same = " and ".join(f"{obj}.{f} == old({obj}.{f})" for f in _EVENT_FIELDS if f not in changed) or "True"
    return f"forall(lambda e: e is {obj} or ({others}), 'Event', triggers=[e.event_sets, e._logic_gate_tree, e._update_since_logic_gate_tree, e.in_event_sets, e.event_type]) and {same}"


CONTRACTS = {
    "calculate_logic_gates": {"trusted": True, "pure": True, "params": {"event_sets": "set[EventSet]"}, "returns": "Optional[ProcessTree]",
                              "ensures": {"nothing_from_nothing": "implies(len(event_sets) == 0, result is None)"}},
    "Event._set_uid": {
        "modifies": ["Event._uid"],
        "ensures": {"frame": "forall(lambda e: e is self or e._uid == old(e._uid), 'Event', triggers=[e._uid])"},
    },
    "Event.__init__": {
        "modifies": ALL,
        "ensures": {
            "fresh": "len(self.event_sets) == 0 and len(self.in_event_sets) == 0 and self.event_type == event_type",
            "coherent": INV("self"),
            "frame": frame(*_EVENT_FIELDS),
        },
    },
    "Event.logic_gate_tree": {
        "modifies": ["Event._logic_gate_tree", "Event._update_since_logic_gate_tree"],
        "requires": {"coherent": INV("self")},
        "ensures": {
            # the logic returned is that of *all* successor sets recorded so far
            "value": "calculate_logic_gates(self.event_sets) == result",
            "coherent": INV("self") + " and not self._update_since_logic_gate_tree",
            "frame": frame("_logic_gate_tree", "_update_since_logic_gate_tree"),
        },
        "returns": "Optional[ProcessTree]",
    },
    "Event.logic_gate_tree.setter": {
        "source_name": "Event.logic_gate_tree", "decorator": "logic_gate_tree.setter",
        "params": {"value": "Optional[ProcessTree]"},
        "modifies": ["Event._logic_gate_tree", "Event._update_since_logic_gate_tree"],
        "ensures": {
            "value": "self._logic_gate_tree == value and not self._update_since_logic_gate_tree",
            "frame": frame("_logic_gate_tree", "_update_since_logic_gate_tree"),
        },
    },
    "Event.update_event_sets": {
        "modifies": ["Event.event_sets", "Event._update_since_logic_gate_tree"],
        "requires": {"coherent": INV("self")},
        "ensures": {
            # union lemma: S |-> S + {multiset(events)} for a non-empty list, identity otherwise
            "union": "self.event_sets == (old(self.event_sets) | {EventSet(events)} if len(events) > 0 else old(self.event_sets))",
            "coherent": INV("self"),
            "frame": frame("event_sets", "_update_since_logic_gate_tree"),
        },
    },
    "Event.update_in_event_sets": {
        "modifies": ["Event.in_event_sets"],
        "ensures": {
            "union": "self.in_event_sets == (old(self.in_event_sets) | {EventSet(events)} if len(events) > 0 else old(self.in_event_sets))",
            "frame": frame("in_event_sets"),
        },
    },
    "Event.remove_event_type_from_event_sets": {
        "modifies": ["Event.event_sets", "Event._update_since_logic_gate_tree"],
        "ensures": {
            "filtered": "forall(lambda es: (es in self.event_sets) == (es in old(self.event_sets) and event_type not in es), 'EventSet')",
            "coherent": INV("self"),
            "frame": frame("event_sets", "_update_since_logic_gate_tree"),
        },
    },
    "Event.remove_event_type_from_in_event_sets": {
        "modifies": ["Event.in_event_sets"],
        "ensures": {
            "filtered": "forall(lambda es: (es in self.in_event_sets) == (es in old(self.in_event_sets) and event_type not in es), 'EventSet')",
            "frame": frame("in_event_sets"),
        },
    },
    # the abstract reading of what contracts/c04_eventset.py proves under the dict view: one entry per distinct type, with its count
    "EventSet.to_event_set_count_input_list": {"trusted": True, "pure": True, "ensures": {"entries": "entries_of(result, self)"}},
    "Event.to_event_input": {
        "ensures": {
            "type": "result.eventType == self.event_type",
            # one list of (type, count) entries per successor / predecessor multiset, and no other list
            "out": "lists_of(result.outgoingEventSets, self.event_sets)",
            "in": "lists_of(result.incomingEventSets, self.in_event_sets)",
        },
    },
    "events_to_event_inputs": {
        "loops": {0: {"index": "i", "seq": "vs", "invariant": {
            "src": "vs == list(events.values())",
            "count": "len(eventInputs) == i",
            "each": "all(eventInputs[p].eventType == vs[p].event_type and lists_of(eventInputs[p].outgoingEventSets, vs[p].event_sets) "
                    "and lists_of(eventInputs[p].incomingEventSets, vs[p].in_event_sets) for p in range(i))",
        }}},
        "ensures": {
            # the model file holds one entry per event, in the order of the dict, with all its successor / predecessor multisets
            "one_per_event": "len(result) == len(events)",
            "each": "all(result[p].eventType == list(events.values())[p].event_type "
                    "and lists_of(result[p].outgoingEventSets, list(events.values())[p].event_sets) "
                    "and lists_of(result[p].incomingEventSets, list(events.values())[p].in_event_sets) for p in range(len(events)))",
        },
    },
    "save_events_to_file": {
        "modifies": ["FS.files"],
        "raises": {"OSError": "not writable(file_path)"},
        "ensures": {
            "written": "file_path in fs.files and fs.files[file_path].job_name == job_name and len(fs.files[file_path].events) == len(events)",
            "each": "all(fs.files[file_path].events[p].eventType == list(events.values())[p].event_type "
                    "and lists_of(fs.files[file_path].events[p].outgoingEventSets, list(events.values())[p].event_sets) "
                    "and lists_of(fs.files[file_path].events[p].incomingEventSets, list(events.values())[p].in_event_sets) for p in range(len(events)))",
            "other_files": "forall(lambda p: implies(p != file_path, (p in fs.files) == (p in old(fs.files)) and implies(p in fs.files, fs.files[p] == old(fs.files)[p])), "
                           "'str', triggers=[p in fs.files, p in old(fs.files)])",
        },
    },
    "load_events_from_file": {
        "modifies": ALL,
        "raises": {"FileNotFoundError": "file_path not in fs.files",
                   "ValueError": "file_path in fs.files and any(fs.files[file_path].events[p].eventType == fs.files[file_path].events[q].eventType "
                                 "for p in range(len(fs.files[file_path].events)) for q in range(p + 1, len(fs.files[file_path].events)))"},
        "ensures": {
            "name": "result[0] == fs.files[file_path].job_name",
            "keys": "all(fs.files[file_path].events[p].eventType in result[1] for p in range(len(fs.files[file_path].events))) and "
                    "all(any(fs.files[file_path].events[p].eventType == k for p in range(len(fs.files[file_path].events))) for k in result[1])",
            "sets": "all(denotes(fs.files[file_path].events[p].outgoingEventSets, result[1][fs.files[file_path].events[p].eventType].event_sets) and "
                    "denotes(fs.files[file_path].events[p].incomingEventSets, result[1][fs.files[file_path].events[p].eventType].in_event_sets) "
                    "for p in range(len(fs.files[file_path].events)))",
            "coherent": "all(" + INV("result[1][k]") + " for k in result[1])",
        },
    },
    "event_inputs_to_events": {
        "modifies": ALL,
        "raises": {"ValueError": "any(eventInputs[p].eventType == eventInputs[q].eventType for p in range(len(eventInputs)) for q in range(p + 1, len(eventInputs)))"},
        "ensures": {
            "has_all": "all(eventInputs[p].eventType in result for p in range(len(eventInputs)))",
            "only": "all(any(eventInputs[p].eventType == k for p in range(len(eventInputs))) for k in result)",
            "typed": "all(result[k].event_type == k for k in result)",
            # the model file round-trips every successor / predecessor multiset
            "out_sets": "all(forall(lambda es: (es in result[eventInputs[p].eventType].event_sets) == "
                        "any(es == EventSet([x.eventType for x in l for _ in range(x.count)]) for l in eventInputs[p].outgoingEventSets), 'EventSet') "
                        "for p in range(len(eventInputs)))",
            "in_sets": "all(forall(lambda es: (es in result[eventInputs[p].eventType].in_event_sets) == "
                       "any(es == EventSet([x.eventType for x in l for _ in range(x.count)]) for l in eventInputs[p].incomingEventSets), 'EventSet') "
                       "for p in range(len(eventInputs)))",
            # the same, with the spec predicate the round-trip lemma uses
            "denotes": "all(denotes(eventInputs[p].outgoingEventSets, result[eventInputs[p].eventType].event_sets) and "
                       "denotes(eventInputs[p].incomingEventSets, result[eventInputs[p].eventType].in_event_sets) for p in range(len(eventInputs)))",
            # reloading a model: every event's gate tree is (re)computed from the loaded successor sets
            "coherent": "all(" + INV("result[k]") + " for k in result)",
        },
        "loops": {
            0: {"index": "i", "invariant": {
                "has_all": "all(eventInputs[p].eventType in events for p in range(i))",
                "only": "all(any(eventInputs[p].eventType == k for p in range(i)) for k in events)",
                "typed": "all(events[k].event_type == k for k in events)",
                "distinct_objs": "all(events[k1] is not events[k2] for k1 in events for k2 in events if k1 != k2)",
                "out_sets": "all(forall(lambda es: (es in events[eventInputs[p].eventType].event_sets) == "
                            "any(es == EventSet([x.eventType for x in l for _ in range(x.count)]) for l in eventInputs[p].outgoingEventSets), 'EventSet') "
                            "for p in range(i))",
                "in_sets": "all(forall(lambda es: (es in events[eventInputs[p].eventType].in_event_sets) == "
                           "any(es == EventSet([x.eventType for x in l for _ in range(x.count)]) for l in eventInputs[p].incomingEventSets), 'EventSet') "
                           "for p in range(i))",
                "coherent": "all(" + INV("events[k]") + " for k in events)",
                "no_dups": "all(eventInputs[p].eventType != eventInputs[q].eventType for p in range(i) for q in range(p + 1, i))",
            }},
            1: {"index": "j", "invariant": {
                "fresh": "all(events[k] is not event for k in events)",
                "others": "all(" + " and ".join(f"events[k].{f} == pre_loop(events[k].{f})" for f in _EVENT_FIELDS) + " for k in events)",
                "filling": "forall(lambda es: (es in event.event_sets) == any(es == EventSet([x.eventType for x in eventInput.outgoingEventSets[q] "
                           "for _ in range(x.count)]) for q in range(j)), 'EventSet')",
                "rest": "len(event.in_event_sets) == 0 and event.event_type == eventInput.eventType",
            }},
            2: {"index": "j2", "invariant": {
                "fresh": "all(events[k] is not event for k in events)",
                "others": "all(" + " and ".join(f"events[k].{f} == pre_loop(events[k].{f})" for f in _EVENT_FIELDS) + " for k in events)",
                "filling": "forall(lambda es: (es in event.in_event_sets) == any(es == EventSet([x.eventType for x in eventInput.incomingEventSets[q] "
                           "for _ in range(x.count)]) for q in range(j2)), 'EventSet')",
                "rest": "event.event_sets == pre_loop(event.event_sets) and event.event_type == eventInput.eventType "
                        "and event._update_since_logic_gate_tree == pre_loop(event._update_since_logic_gate_tree) "
                        "and event._logic_gate_tree == pre_loop(event._logic_gate_tree)",
            }},
        },
        "locals": {"events": "dict[str, Event]"},
    },
}

ORDER = ["calculate_logic_gates", "Event._set_uid", "Event.__init__", "Event.logic_gate_tree", "Event.logic_gate_tree.setter",
         "Event.update_event_sets", "Event.update_in_event_sets", "Event.remove_event_type_from_event_sets",
         "Event.remove_event_type_from_in_event_sets", "event_inputs_to_events",
         "EventSet.to_event_set_count_input_list", "Event.to_event_input", "events_to_event_inputs", "save_events_to_file", "load_events_from_file",
         # expanding the (type, count) entries of a multiset gives the multiset back ...
         {"name": "rep_count", "forall": {"l": "list[EventSetCountInput]", "t": "str"},
          "requires": ["all(l[p].count >= 0 for p in range(len(l)))", "all(l[p].eventType != l[q].eventType for p in range(len(l)) for q in range(p + 1, len(l)))"],
          "ensures": "all(implies(l[p].eventType == t, count(rep(l), t) == l[p].count) for p in range(len(l))) and "
                     "implies(not any(l[p].eventType == t for p in range(len(l))), count(rep(l), t) == 0)",
          "induction": "l", "triggers": ["count(rep(l), t)"],
          "hints": ["len(l) == 0 or l == l[:-1] + [l[-1]]",
                    "len(l) == 0 or rep(l) == rep(l[:-1]) + rep([l[-1]])",
                    "len(l) == 0 or count(rep(l), t) == count(rep(l[:-1]), t) + count(rep([l[-1]]), t)",
                    "len(l) == 0 or count(rep([l[-1]]), t) == (l[-1].count if l[-1].eventType == t else 0)",
                    "len(l) == 0 or all(l[:-1][p] is l[p] for p in range(len(l) - 1))",
                    "use rep_count(l[:-1], t) if len(l) >= 1 else True"]},
         {"name": "entries_denote", "forall": {"l": "list[EventSetCountInput]", "es": "EventSet"},
          "requires": ["entries_of(l, es)"], "ensures": "EventSet(rep(l)) == es",
          "hints": ["forall(lambda t: cnt(EventSet(rep(l)), t) == cnt(es, t), 'str')", "same_multiset(EventSet(rep(l)), es)"]},
         # ... so what is written for an event denotes exactly its successor / predecessor multisets, which is what the loader reads
         {"name": "written_lists_denote", "forall": {"ls": "list[list[EventSetCountInput]]", "s": "set[EventSet]"},
          "requires": ["lists_of(ls, s)"], "ensures": "denotes(ls, s)"},
         {"name": "same_denotation_same_sets", "forall": {"ls": "list[list[EventSetCountInput]]", "s1": "set[EventSet]", "s2": "set[EventSet]"},
          "requires": ["denotes(ls, s1)", "denotes(ls, s2)"], "ensures": "s1 == s2"},
         # "The model file round-trips every event, successor/predecessor set and count without loss": I written from the events E
         # (postcondition of events_to_event_inputs), R loaded from I (postcondition of event_inputs_to_events)
         {"name": "model_round_trip", "forall": {"E": "dict[str, Event]", "I": "list[EventInput]", "R": "dict[str, Event]"},
          "requires": ["all(E[k].event_type == k for k in E)",
                       "len(I) == len(E)",
                       "all(I[p].eventType == list(E.values())[p].event_type and lists_of(I[p].outgoingEventSets, list(E.values())[p].event_sets) "
                       "and lists_of(I[p].incomingEventSets, list(E.values())[p].in_event_sets) for p in range(len(E)))",
                       "all(I[p].eventType in R for p in range(len(I)))",
                       "all(any(I[p].eventType == k for p in range(len(I))) for k in R)",
                       "all(denotes(I[p].outgoingEventSets, R[I[p].eventType].event_sets) and denotes(I[p].incomingEventSets, R[I[p].eventType].in_event_sets) "
                       "for p in range(len(I)))"],
          "ensures": "all(k in R and R[k].event_sets == E[k].event_sets and R[k].in_event_sets == E[k].in_event_sets for k in E) and all(k in E for k in R)"},
         ]


def setup(V):
    import z3
    from pyvc.engine import V as Val
    from pyvc.tys import INT, BOOL, STR, SeqTy

    ES = V.tenv.records["EventSet"]
    S = V.sort(ES)
    Str = V.pre.Str
    cnt = z3.Function("cnt", S, Str, z3.IntSort())     # same symbol as the @opaque spec function `cnt`
    a, b = z3.Consts("esa esb", S)
    t = z3.Const("est", Str)
    seteq = z3.Function("es_same", S, S, z3.BoolSort())
    V.pre.ax("EventSet.cnt_nonneg", z3.ForAll([a, t], cnt(a, t) >= 0, patterns=[cnt(a, t)]))
    V.pre.ax("EventSet.ext", z3.ForAll([a, b], seteq(a, b) == z3.ForAll([t], cnt(a, t) == cnt(b, t), patterns=[cnt(a, t), cnt(b, t)]), patterns=[seteq(a, b)]))
    V.pre.ax("EventSet.ext_eq", z3.ForAll([a, b], z3.Implies(seteq(a, b), a == b), patterns=[seteq(a, b)]))
    V.trusted_used.add("EventSet is viewed as the multiset cnt(es, .); equal counts <=> equal value (what EventSet.__eq__/__hash__ implement; validated at run time)")
    sty = SeqTy(STR)
    mk = z3.Function("mk_es", V.sort(sty), S)
    xs = z3.Const("esxs", V.sort(sty))
    V.pre.ax("EventSet.init", z3.ForAll([xs, t], cnt(mk(xs), t) == V.pre.seqf(sty, "count")(xs, t), patterns=[cnt(mk(xs), t)]))
    V.trusted_used.add("EventSet(events) denotes the multiset of the list `events` (contract of EventSet.__init__; validated at run time)")

    V.kw_ctor_records = {"EventInput", "EventInputsFile"}
    EIF = V.tenv.records["EventInputsFile"]

    def m_model_dump(self, obj, n, st):
        self.trusted_used.add("EventInputsFile.model_dump() / model_validate(): the JSON value of a model file is identified with the validated model object")
        return obj
    V.methods["EventInputsFile.model_dump"] = m_model_dump

    def b_model_validate(self, n, st):
        return self.coerce(self.expr(n.args[0], st), EIF)
    V.builtins["EventInputsFile.model_validate"] = b_model_validate

    def b_count(self, n, st):
        xs_ = self.as_seq(self.expr(n.args[0], st), st)
        x_ = self.coerce(self.expr(n.args[1], st), xs_.ty.elem)
        return Val(self.pre.seqf(xs_.ty, "count")(xs_.t, x_.t), INT)
    V.builtins["count"] = b_count

    def b_same_multiset(self, n, st):
        a_, b_ = self.coerce(self.expr(n.args[0], st), ES), self.coerce(self.expr(n.args[1], st), ES)
        return Val(seteq(a_.t, b_.t), BOOL)
    V.builtins["same_multiset"] = b_same_multiset

    def es_ctor(self, n, st):
        arg = self.coerce(self.as_seq(self.expr(n.args[0], st), st), sty)
        return Val(mk(arg.t), ES)
    V.builtins["EventSet"] = es_ctor

    def b_uuid4(self, n, st):
        from pyvc.tys import ANY
        return self.fresh("uuid", ANY)
    V.builtins["uuid4"] = b_uuid4

    def es_contains(self, coll, x, st):
        return cnt(coll.t, self.coerce(x, STR).t) >= 1
    V.contains_handlers["EventSet"] = es_contains


# ----------------------------------------------------------------------------- native reading
MUTABLE_FIELDS = {"Event": list(_EVENT_FIELDS)}


def native_env(nat):
    import importlib
    ev = importlib.import_module("tel2puml.events")
    ld = importlib.import_module("tel2puml.logic_detection")

    def cnt(es, t):
        return es.get(t, 0)

    def same_multiset(a, b):
        return a == b

    def writable(path):
        import os
        return os.path.isdir(os.path.dirname(path))

    def tree_repr(t):
        return None if t is None else repr(t)

    def inv(e):
        if e._update_since_logic_gate_tree:
            return True
        return tree_repr(e._logic_gate_tree) == tree_repr(ld.calculate_logic_gates(e.event_sets))

    def clg(event_sets):
        return _Tree(ld.calculate_logic_gates(event_sets))

    class _Tree:
        """process trees compared by their printed form (pm4py trees have identity equality)"""
        def __init__(self, t):
            self.t = t

        def __eq__(self, o):
            o = o.t if isinstance(o, _Tree) else o
            return tree_repr(self.t) == tree_repr(o)

        def __hash__(self):
            return hash(tree_repr(self.t))
    return {"cnt": cnt, "same_multiset": same_multiset, "writable": writable, "inv": inv, "calculate_logic_gates": clg, "EventSet": ev.EventSet, "_Tree": _Tree}


NATIVE_CALL = {
    "Event.logic_gate_tree": lambda nat, a: type(a["self"]).logic_gate_tree.fget(a["self"]),
    "Event.logic_gate_tree.setter": lambda nat, a: type(a["self"]).logic_gate_tree.fset(a["self"], a["value"]),
}


def _mod(nat):
    import importlib
    return importlib.import_module("tel2puml.events"), importlib.import_module("tel2puml.logic_detection")


def mk_event(nat, d):
    """d = {"type", "out": [[types]], "in": [[types]], "cache": "none" | "computed" | "stale"}"""
    ev, ld = _mod(nat)
    e = ev.Event(d["type"], uid="uid-" + d["type"])
    e.event_sets = {ev.EventSet(x) for x in d["out"]}
    e.in_event_sets = {ev.EventSet(x) for x in d["in"]}
    if d["cache"] == "computed":
        e._logic_gate_tree = ld.calculate_logic_gates(e.event_sets)
        e._update_since_logic_gate_tree = False
    elif d["cache"] == "stale":
        e._logic_gate_tree = None
        e._update_since_logic_gate_tree = True
    else:
        e._logic_gate_tree = None
        e._update_since_logic_gate_tree = False
    return e


def _rand_event_desc(rng, name="E"):
    types = ["A", "B", "C", "D"]
    def lists(n):
        return [[rng.choice(types) for _ in range(rng.randrange(1, 4))] for _ in range(n)]
    return {"type": name, "out": lists(rng.randrange(0, 4)), "in": lists(rng.randrange(0, 3)), "cache": rng.choice(["computed", "stale", "computed", "none"])}


def _gen_method(extra):
    def g(nat, rng, n):
        for _ in range(n):
            d = _rand_event_desc(rng)
            a = {"self": d}
            a.update(extra(rng))
            yield _materialise(nat, a)
    return g


class _Case(dict):
    """argument dict that remembers its JSON description (for replay files)"""


def _materialise(nat, desc):
    ev, ld = _mod(nat)
    out = _Case()
    out.desc = desc
    for k, v in desc.items():
        if k == "self":
            out[k] = mk_event(nat, v)
        elif k == "eventInputs":
            out[k] = [ev.EventInput(eventType=x["eventType"],
                                    outgoingEventSets=[[ev.EventSetCountInput(eventType=t, count=c) for t, c in l] for l in x["out"]],
                                    incomingEventSets=[[ev.EventSetCountInput(eventType=t, count=c) for t, c in l] for l in x["in"]]) for x in v]
        elif k == "events":
            out[k] = {d["type"]: mk_event(nat, d) for d in v} if isinstance(v, list) and v and isinstance(v[0], dict) or v == [] and desc.get("_model") else v
        elif k == "_model":
            continue
        elif k == "self_es":
            out["self"] = ev.EventSet(v)
        elif k == "value":
            out[k] = None if v is None else ld.calculate_logic_gates({ev.EventSet(x) for x in v})
        else:
            out[k] = v
    return out


def _gen_inputs(nat, rng, n):
    types = ["A", "B", "C", "D", "E"]
    for _ in range(n):
        k = rng.randrange(0, 5)
        names = [rng.choice(types) for _ in range(k)] if rng.random() < 0.2 else rng.sample(types, k)

        def sets(m):
            return [[[t, rng.randrange(1, 3)] for t in rng.sample(types, rng.randrange(1, 4))] for _ in range(m)]
        yield _materialise(nat, {"eventInputs": [{"eventType": nm, "out": sets(rng.randrange(0, 4)), "in": sets(rng.randrange(0, 3))} for nm in names]})


def _small_inputs(nat):
    """every model over <= 2 event types with <= 2 successor multisets drawn from {A}, {B}, {A,B}, {A,A}"""
    import itertools
    ms = [[["A", 1]], [["B", 1]], [["A", 1], ["B", 1]], [["A", 2]]]
    fam = [[]] + [[m] for m in ms] + [[a, b] for a, b in itertools.combinations(ms, 2)]
    for out1 in fam:
        yield _materialise(nat, {"eventInputs": [{"eventType": "X", "out": out1, "in": []}]})
        for out2 in fam[:6]:
            yield _materialise(nat, {"eventInputs": [{"eventType": "X", "out": out1, "in": out2}, {"eventType": "Y", "out": out2, "in": []}]})
    yield _materialise(nat, {"eventInputs": [{"eventType": "X", "out": [], "in": []}, {"eventType": "X", "out": [], "in": []}]})


def _gen_model(nat, rng, n):
    for _ in range(n):
        names = rng.sample(["A", "B", "C", "D", "E", "|||START|||"], rng.randrange(0, 4))
        yield _materialise(nat, {"events": [_rand_event_desc(rng, nm) for nm in names], "_model": True})


class _FSView:
    """fs.files natively: every model file under the scratch root, validated into EventInputsFile"""
    __slots__ = ("root",)          # nothing but the path: the universe walk of the runtime checker follows instance attributes

    def __init__(self, root, nat):
        self.root = root

    @property
    def files(self):
        import importlib
        import json
        import os
        ev = importlib.import_module("tel2puml.events")
        out = {}
        for dp, _d, fns in os.walk(self.root):
            for fn in fns:
                out[f"{dp}/{fn}"] = ev.EventInputsFile.model_validate(json.load(open(f"{dp}/{fn}")))
        return out

    def __deepcopy__(self, memo):
        snap = _FSSnap()
        snap.files = self.files
        return snap

    def __universe__(self):
        return list(self.files)


class _FSSnap:
    files = None


_ROOTS = []


def _scratch():
    import atexit
    import os
    import shutil
    import tempfile
    root = tempfile.mkdtemp(prefix="vc04_", dir="/dev/shm" if os.path.isdir("/dev/shm") else None)
    _ROOTS.append(root)
    if len(_ROOTS) == 1:
        atexit.register(lambda: [shutil.rmtree(r, ignore_errors=True) for r in _ROOTS])
    return root


def native_call_args(nat, fname, args):
    return {k: v for k, v in args.items() if k != "fs"}


def _model_file_case(nat, desc):
    """desc: {"model_file": "save" | "load", "events": [event descriptions], "existing": {relative path: [event descriptions]}, "path": relative path}"""
    import json
    import os
    ev, _ = _mod(nat)
    root = _scratch()
    for rel, evs in desc.get("existing", {}).items():
        os.makedirs(os.path.dirname(f"{root}/{rel}"), exist_ok=True)
        raw = ev.events_to_raw_input({d["type"]: mk_event(nat, d) for d in evs})
        if desc.get("dup") and raw:
            raw.append(raw[0])
        json.dump({"job_name": "job " + rel, "events": raw}, open(f"{root}/{rel}", "w"))
    out = _Case()
    out.desc = desc
    out["fs"] = _FSView(root, nat)
    out["file_path"] = f"{root}/{desc['path']}"
    if desc["model_file"] == "save":
        out["job_name"] = desc.get("job_name", "wf one")
        out["events"] = {d["type"]: mk_event(nat, d) for d in desc["events"]}
    return out


def _gen_save_file(nat, rng, n):
    for _ in range(n):
        names = rng.sample(["A", "B", "C", "D", "E", "|||START|||"], rng.randrange(0, 4))
        yield _model_file_case(nat, {"model_file": "save", "events": [_rand_event_desc(rng, nm) for nm in names],
                                     "existing": {"models/old_model.json": [_rand_event_desc(rng, "Z")], "models/other.json": []},
                                     "path": rng.choice(["models/new_model.json", "models/old_model.json", "missing_dir/m.json"])})


def _gen_load_file(nat, rng, n):
    for _ in range(n):
        names = rng.sample(["A", "B", "C", "D", "E"], rng.randrange(0, 4))
        yield _model_file_case(nat, {"model_file": "load", "existing": {"models/m.json": [_rand_event_desc(rng, nm) for nm in names]},
                                     "dup": rng.random() < 0.1, "path": "models/m.json" if rng.random() > 0.1 else "models/none.json"})


def _gen_es(nat, rng, n):
    for _ in range(n):
        yield _materialise(nat, {"self_es": [rng.choice(["A", "B", "C"]) for _ in range(rng.randrange(0, 6))]})


_TYPES = ["A", "B", "C", "D"]
GEN = {
    "EventSet.to_event_set_count_input_list": _gen_es,
    "Event.to_event_input": _gen_method(lambda rng: {}),
    "events_to_event_inputs": _gen_model,
    "save_events_to_file": _gen_save_file,
    "load_events_from_file": _gen_load_file,
    "Event.logic_gate_tree": _gen_method(lambda rng: {}),
    "Event.logic_gate_tree.setter": _gen_method(lambda rng: {"value": rng.choice([None, [["A"], ["B"]], [["A", "B"]]])}),
    "Event.update_event_sets": _gen_method(lambda rng: {"events": [rng.choice(_TYPES) for _ in range(rng.randrange(0, 4))]}),
    "Event.update_in_event_sets": _gen_method(lambda rng: {"events": [rng.choice(_TYPES) for _ in range(rng.randrange(0, 4))]}),
    "Event.remove_event_type_from_event_sets": _gen_method(lambda rng: {"event_type": rng.choice(_TYPES)}),
    "Event.remove_event_type_from_in_event_sets": _gen_method(lambda rng: {"event_type": rng.choice(_TYPES)}),
    "event_inputs_to_events": _gen_inputs,
}
SMALL = {"event_inputs_to_events": _small_inputs}


class _Enc(dict):
    def __missing__(self, k):
        return lambda args: getattr(args, "desc", None)


class _Dec(dict):
    def __missing__(self, k):
        return lambda nat, e: _model_file_case(nat, e) if isinstance(e, dict) and "model_file" in e else _materialise(nat, e)


ENCODE = _Enc()
DECODE = _Dec()
