"""C06 (proved part) - the weighted cover used to put AND gates under an OR.

Function under contract (real source re-read on every run): tel2puml/utils.py get_weighted_cover

What the gate inference relies on (process_missing_and_gates rewrites a flat OR into an OR of AND groups taken from the
cover): when a cover is returned it consists of observed sets, covers the universe, its members are pairwise disjoint,
and **every observed set is a union of whole members** - the fact that makes "AND under OR" admit every observed set.
The inductive miner and the tree rewriting are external / mutable pm4py structures: bounded harness only.
"""
MODULE = "tel2puml/utils.py"
RECORDS = {}

CONTRACTS = {
    "get_weighted_cover": {
        "params": {"event_sets": "set[set[Any]]", "universe": "set[Any]"}, "returns": "Optional[set[set[Any]]]",
        "mutable_params": ["event_sets"],
        "ensures": {
            "members": "implies(result is not None, forall(lambda c: implies(c in result, c in old(event_sets) and c != old(universe)), 'set[Any]'))",
            "covers": "implies(result is not None, forall(lambda x: implies(x in old(universe), exists(lambda c: c in result and x in c, 'set[Any]')), 'Any'))",
            "disjoint": "implies(result is not None, forall(lambda c, d: implies(c in result and d in result and c != d, forall(lambda x: not (x in c and x in d), 'Any')), "
                        "'set[Any]', 'set[Any]'))",
            "decomposes": "implies(result is not None, forall(lambda es, x: implies(es in old(event_sets) and es != old(universe) and x in es, "
                          "exists(lambda c: c in result and x in c and c <= es, 'set[Any]')), 'set[Any]', 'Any'))",
        },
        "loops": {
            0: {"invariant": {
                "members": "forall(lambda c: implies(c in weighted_cover, c in event_sets), 'set[Any]')",
                "covered": "forall(lambda x: implies(x in old(universe), x in universe or exists(lambda c: c in weighted_cover and x in c, 'set[Any]')), 'Any')",
                "sets_fixed": "event_sets == pre_loop(event_sets)",
            }},
            1: {"index": "i", "seq": "all_sets", "invariant": {
                "done": "all(forall(lambda x: implies(x in all_sets[p], exists(lambda c: c in weighted_cover and x in c and c <= all_sets[p], 'set[Any]')), 'Any') for p in range(i))",
                "fixed": "weighted_cover == pre_loop(weighted_cover) and event_sets == pre_loop(event_sets)",
            }},
            3: {"index": "j", "seq": "covers", "invariant": {
                "shrinks": "event_set <= all_sets[i]",
                "accounted": "forall(lambda x: implies(x in all_sets[i], x in event_set or any(x in covers[q] and covers[q] <= all_sets[i] for q in range(j))), 'Any')",
                "fixed": "weighted_cover == pre_loop(weighted_cover) and event_sets == pre_loop(event_sets)",
            }},
            2: {"index": "k", "seq": "pairs", "invariant": {
                "disjoint_so_far": "all(forall(lambda x: not (x in pairs[p][0] and x in pairs[p][1]), 'Any') for p in range(k))",
            }},
        },
        "locals": {"weighted_cover": "set[set[Any]]"},
    },
}
ORDER = ["get_weighted_cover"]


def setup(V):
    import ast
    import z3
    from pyvc.engine import V as Val, Unsupported
    from pyvc.tys import SetTy, SeqTy, TupleTy, ANY, BOOL

    def b_max_key(self, n, st):
        """max(S, key=...) over a set: some element of S (the key only chooses *which*; every choice must be handled)"""
        coll = self.expr(n.args[0], st)
        if not isinstance(coll.ty, SetTy) or not any(kw.arg == "key" for kw in n.keywords):
            raise Unsupported("max() other than max(<set>, key=...)", n)
        mem = self.pre.setf(coll.ty, "mem")
        emp = self.pre.fn[f"empty_{coll.ty.name}"]
        self.check(st, coll.t != emp, "ValueError", "max() of an empty set")
        m = self.fresh("maxelem", coll.ty.elem)
        self.assume(st, mem(coll.t, m.t))
        self.trusted_used.add("max(<set>, key=k) returns an element of the set (which one is left open: the key - a float ratio - is not modelled)")
        return m
    prev_max = V.builtins["max"]

    def b_max(self, n, st):
        if any(kw.arg == "key" for kw in n.keywords):
            return b_max_key(self, n, st)
        return prev_max(self, n, st)
    V.builtins["max"] = b_max

    def b_permutations(self, n, st):
        """permutations(S, 2): a sequence containing exactly the ordered pairs of distinct elements of S"""
        coll = self.expr(n.args[0], st)
        if not (isinstance(coll.ty, SetTy) and isinstance(n.args[1], ast.Constant) and n.args[1].value == 2):
            raise Unsupported("permutations other than permutations(<set>, 2)", n)
        tty = TupleTy([coll.ty.elem, coll.ty.elem])
        sty = SeqTy(tty)
        k = self.site()
        ps = self.fresh(f"perms{k}", sty)
        mem = self.pre.setf(coll.ty, "mem")
        i = z3.Int(f"pi{k}")
        a, b = z3.Const(f"pa{k}", self.sort(coll.ty.elem)), z3.Const(f"pb{k}", self.sort(coll.ty.elem))
        at = self.seq_idx(ps, i).t
        fst, snd = self.pre.tup_get(tty, at, 0), self.pre.tup_get(tty, at, 1)
        self.assume(st, z3.ForAll([i], z3.Implies(z3.And(0 <= i, i < self.seq_len(ps)), z3.And(mem(coll.t, fst), mem(coll.t, snd), fst != snd)), patterns=[at]))
        pos = z3.Function(f"ppos{k}", self.sort(coll.ty.elem), self.sort(coll.ty.elem), z3.IntSort())
        self.assume(st, z3.ForAll([a, b], z3.Implies(z3.And(mem(coll.t, a), mem(coll.t, b), a != b), z3.And(
            0 <= pos(a, b), pos(a, b) < self.seq_len(ps), self.seq_idx(ps, pos(a, b)).t == self.pre.tup_mk(tty, [a, b]))),
            patterns=[z3.MultiPattern(mem(coll.t, a), mem(coll.t, b))]))
        self.trusted_used.add("itertools.permutations(S, 2) yields exactly the ordered pairs of distinct elements of S")
        return ps
    V.builtins["permutations"] = b_permutations


# ----------------------------------------------------------------------------- native reading
def _families(n):
    import itertools
    ev = "ABCD"[:n]
    subs = [frozenset(c) for r in range(1, n + 1) for c in itertools.combinations(ev, r)]
    for r in range(1, len(subs) + 1):
        for f in itertools.combinations(subs, r):
            yield f


def _small(nat):
    for fam in _families(3):
        uni = frozenset().union(*fam)
        yield {"event_sets": set(fam), "universe": uni}


def _gen(nat, rng, n):
    fams = list(_families(4))
    for _ in range(n):
        fam = rng.choice(fams)
        uni = frozenset().union(*fam)
        if rng.random() < 0.2:
            uni = uni | {"Z"}
        yield {"event_sets": set(fam), "universe": uni}


GEN = {"get_weighted_cover": _gen}
SMALL = {"get_weighted_cover": _small}
ENCODE = {"get_weighted_cover": lambda a: {"event_sets": sorted(sorted(s) for s in a["event_sets"]), "universe": sorted(a["universe"])}}
DECODE = {"get_weighted_cover": lambda nat, e: {"event_sets": {frozenset(s) for s in e["event_sets"]}, "universe": frozenset(e["universe"])}}
