"""C14 (proved part) - the file boundary between otel2pv and pv2puml: saving a PV event stream under a field-name mapping and
loading it back under the same mapping.

Functions under contract (real source re-read on every run):
  tel2puml/otel_to_pv/otel_to_pv.py      save_pv_event_stream_to_file      (the key renaming + json.dump)
  tel2puml/pv_event_simulator.py         transform_dict_into_pv_event      (the inverse renaming + validation)
  tel2puml/pv_to_puml/pv_to_puml.py      pv_job_file_to_event_sequence     (json.load + the loader on every entry)
Lemmas over these contracts: loading what was saved (same mapping, pairwise distinct field names) gives the events back.

A PVEvent is modelled as what it is at run time - a dict[str, Any].  Files are modelled by the ghost map fs.files
(pyvc/fsmodel.py; trusted: json.dump / json.load are inverse on these values).  The composition of the two *routes* and the
diagrams are checked by the bounded round-trip harness through the real entry point; nothing of them is counted as proved.
"""
MODULE = "tel2puml/pv_event_simulator.py"
FILES = {"": "tel2puml/pv_event_simulator.py", "save_pv_event_stream_to_file": "tel2puml/otel_to_pv/otel_to_pv.py",
         "handle_save_events": "tel2puml/otel_to_pv/otel_to_pv.py",
         "pv_job_file_to_event_sequence": "tel2puml/pv_to_puml/pv_to_puml.py",
         "pv_job_files_to_event_sequence_streams": "tel2puml/pv_to_puml/pv_to_puml.py",
         "pv_event_files_to_job_id_streams": "tel2puml/pv_to_puml/pv_to_puml.py",
         "pv_files_to_pv_streams": "tel2puml/pv_to_puml/pv_to_puml.py"}
USES_FS = True
# the saved file's path determines the file number (the template ends in "_{count}.json" and a decimal number contains no "_")
FSTRING_INJECTIVE = {"{}/{}/pv_event_sequence_{}.json": [2]}
_F = ["jobId", "eventId", "timestamp", "previousEventIds", "applicationName", "jobName", "eventType"]   # declaration order of PVEventMappingConfig
_MANDATORY = [f for f in _F if f != "previousEventIds"]

RECORDS = {
    "PVEventMappingConfig": {"fields": {f: "str" for f in _F}},
    "PVEventModel": {"fields": {**{f: "str" for f in _MANDATORY}, "previousEventIds": "list[str]"}},
    "FS": {"fields": {"files": "dict[str, list[dict[str, Any]]]"}, "mutable": ["files"]},
}


def _name(f):          # the key a field is saved under: its own name without a mapping, the mapped name otherwise
    return f"('{f}' if mapping_config is None else mapping_config.{f})"


_PATH = 'f"{output_file_directory}/{job_name}/pv_event_sequence_{count}.json"'
_PATHN = _PATH.replace("{count}", "{n}")


# a file that loads: it exists and every entry has the mandatory (renamed) keys
_OKF = "({p} in fs.files and all(" + " and ".join(f"mapping_config.{f} in d" for f in _MANDATORY) + " for d in fs.files[{p}]))"


def _frame(pre, untouched):
    """every path p satisfying `untouched` is stored exactly when it was before, with the same content"""
    return (f"forall(lambda p: implies({untouched}, (p in fs.files) == (p in {pre}(fs.files)) and "
            f"implies(p in fs.files, fs.files[p] == {pre}(fs.files)[p])), 'str', triggers=[p in fs.files, p in {pre}(fs.files)])")

SPECS = '''
def valid_pv_values(pv_dict: dict[str, Any], mapping_config: PVEventMappingConfig) -> bool:
    return (''' + " and ".join(f"implies(mapping_config.{f} in pv_dict, is_str(pv_dict[mapping_config.{f}]))" for f in _MANDATORY) + '''
            and implies(mapping_config.previousEventIds in pv_dict, is_id_list(pv_dict[mapping_config.previousEventIds])
                        or (is_str(pv_dict[mapping_config.previousEventIds]) and pv_dict[mapping_config.previousEventIds] != "")))

def distinct_names(c: PVEventMappingConfig) -> bool:
    return ''' + " and ".join(f"c.{a} != c.{b}" for i, a in enumerate(_F) for b in _F[i + 1:]) + '''

def pv_event(e: dict[str, Any]) -> bool:
    return (all(''' + " or ".join(f"k == '{f}'" for f in _F) + ''' for k in e) and ''' + " and ".join(f"'{f}' in e and is_str(e['{f}'])" for f in _MANDATORY) + '''
            and 'previousEventIds' in e and is_id_list(e['previousEventIds']))

def default_names(c: PVEventMappingConfig) -> bool:
    return ''' + " and ".join(f"c.{f} == '{f}'" for f in _F) + '''

def saved_file(ds: list[dict[str, Any]], es: list[dict[str, Any]], c: PVEventMappingConfig | None) -> bool:
    return len(ds) == len(es) and all(saved_as_opt(ds[i], es[i], c) for i in range(len(es)))

def saved_as_opt(d: dict[str, Any], e: dict[str, Any], c: PVEventMappingConfig | None) -> bool:
    return ((c is None and ''' + " and ".join(f"'{f}' in d and d['{f}'] == e['{f}']" for f in _F) + '''
             and all(''' + " or ".join(f"k == '{f}'" for f in _F) + ''' for k in d))
            or (c is not None and saved_as(d, e, c)))

def saved_as(d: dict[str, Any], e: dict[str, Any], c: PVEventMappingConfig) -> bool:
    return (''' + " and ".join(f"c.{f} in d and d[c.{f}] == e['{f}']" for f in _F) + '''
            and all(''' + " or ".join(f"k == c.{f}" for f in _F) + ''' for k in d))
'''

CONTRACTS = {
    "transform_dict_into_pv_event": {
        "params": {"pv_dict": "dict[str, Any]"},
        "pure": True,
        # the values are of the PV format's types (strings; previousEventIds a list of strings or one non-empty string): pydantic
        # rejects anything else with a ValidationError, which is outside this contract
        "requires": {"pv_typed": "valid_pv_values(pv_dict, mapping_config)"},
        # "raises ValueError iff a mandatory renamed key is missing"
        "raises": {"ValueError": "not (" + " and ".join(f"mapping_config.{f} in pv_dict" for f in _MANDATORY) + ")"},
        "ensures": {
            # every field is read under the key the mapping gives it
            "fields": " and ".join(f"result['{f}'] == pv_dict[mapping_config.{f}]" for f in _MANDATORY),
            "links": "as_id_list(result['previousEventIds']) == as_id_list(pv_dict.get(mapping_config.previousEventIds, [])) "
                     "and is_id_list(result['previousEventIds'])",
            "keys": "all(" + " or ".join(f"k == '{f}'" for f in _F) + " for k in result) and " + " and ".join(f"'{f}' in result" for f in _F),
        },
    },
    "save_pv_event_stream_to_file": {
        "params": {"pv_event_stream": "list[dict[str, Any]]"},
        "modifies": ["FS.files"],
        "requires": {
            # the stream holds PV events (the seven keys): getattr(mapping_config, key) is defined for these keys only
            "events": "all(" + " and ".join(f"'{f}' in e" for f in _F) + " and all(" + " or ".join(f"k == '{f}'" for f in _F) + " for k in e) for e in pv_event_stream)",
            "distinct": "implies(mapping_config is not None, distinct_names(mapping_config))",
        },
        "raises": {"OSError": f"not writable({_PATH})"},
        "ensures": {
            "one_entry_per_event": f"{_PATH} in fs.files and len(fs.files[{_PATH}]) == len(pv_event_stream)",
            # every field value is stored under the field's (re)name ...
            "values": f"all(" + " and ".join(f"{_name(f)} in fs.files[{_PATH}][i] and fs.files[{_PATH}][i][{_name(f)}] == pv_event_stream[i]['{f}']"
                                             for f in _F) + " for i in range(len(pv_event_stream)))",
            # ... and nothing else is
            "no_other_keys": f"all(all(" + " or ".join(f"k == {_name(f)}" for f in _F) + f" for k in fs.files[{_PATH}][i]) for i in range(len(pv_event_stream)))",
            # the same, as one spec predicate (what callers and the lemmas use)
            "saved_file": f"saved_file(fs.files[{_PATH}], pv_event_stream, mapping_config)",
            # frame: every other file is as it was
            "other_paths": _frame("old", f"p != {_PATH}"),
            "other_files": f"all(p in fs.files and fs.files[p] == old(fs.files)[p] for p in old(fs.files) if p != {_PATH}) and "
                           f"all(p in old(fs.files) or p == {_PATH} for p in fs.files)",
        },
    },
    "handle_save_events": {
        "params": {"pv_event_streams": "list[list[dict[str, Any]]]"},
        "modifies": ["FS.files"],
        "requires": {
            "events": "all(all(" + " and ".join(f"'{f}' in e" for f in _F) + " and all(" + " or ".join(f"k == '{f}'" for f in _F) + " for k in e) for e in s) for s in pv_event_streams)",
            "distinct": "implies(mapping_config is not None, distinct_names(mapping_config))",
        },
        "raises": {"OSError": 'not creatable(f"{output_file_directory}/{job_name}") or any(not writable(' + _PATHN + ") for n in range(1, len(pv_event_streams) + 1))"},
        "loops": {0: {"index": "i", "seq": "ss", "invariant": {
            "src": "ss == pv_event_streams",
            "file_no": "file_no == i + 1",
            "written": f"all({_PATHN} in fs.files and saved_file(fs.files[{_PATHN}], ss[n - 1], mapping_config) for n in range(1, i + 1))",
            "writable": f"all(writable({_PATHN}) for n in range(1, i + 1))",
            "others": _frame("pre_loop", f"all(p != {_PATHN} for n in range(1, i + 1))"),
        }}},
        "ensures": {
            # the n-th trace of the workflow is saved, whole, as file number n of the workflow's folder
            "one_file_per_trace": f"all({_PATHN} in fs.files and saved_file(fs.files[{_PATHN}], pv_event_streams[n - 1], mapping_config) "
                                  "for n in range(1, len(pv_event_streams) + 1))",
            "other_files": _frame("old", f"all(p != {_PATHN} for n in range(1, len(pv_event_streams) + 1))"),
        },
    },
    "pv_job_file_to_event_sequence": {
        "requires": {"typed": "implies(file_path in fs.files, all(valid_pv_values(d, mapping_config) for d in fs.files[file_path]))"},
        "raises": {"FileNotFoundError": "file_path not in fs.files",
                   "ValueError": "file_path in fs.files and any(not (" + " and ".join(f"mapping_config.{f} in d" for f in _MANDATORY) + ") for d in fs.files[file_path])"},
        "loops": {0: {"index": "i", "seq": "ds", "invariant": {
            "prefix": "out_data == [transform_dict_into_pv_event(d, mapping_config) for d in ds[:i]]",
            "ok": "all(" + " and ".join(f"mapping_config.{f} in d" for f in _MANDATORY) + " for d in ds[:i])",
            "src": "ds == fs.files[file_path]"}}},
        "ensures": {"loads_every_entry": "result == [transform_dict_into_pv_event(d, mapping_config) for d in fs.files[file_path]]"},
    },
    # the loader's side of "one file = one trace": the k-th file of the list becomes, whole and alone, the k-th event sequence
    "pv_job_files_to_event_sequence_streams": {
        "params": {"file_paths": "list[str]"},
        "returns": "list[list[dict[str, Any]]]",
        "generator": True,
        "requires": {"typed": "all(implies(p in fs.files, all(valid_pv_values(d, mapping_config) for d in fs.files[p])) for p in file_paths)"},
        # the first file that cannot be loaded decides (generators are read as lists: everything is consumed)
        "raises": {"FileNotFoundError": "any(file_paths[i] not in fs.files and all(" + _OKF.format(p="file_paths[j]") + " for j in range(i)) for i in range(len(file_paths)))",
                   "ValueError": "any(file_paths[i] in fs.files and not " + _OKF.format(p="file_paths[i]") + " and all(" + _OKF.format(p="file_paths[j]") + " for j in range(i)) "
                                 "for i in range(len(file_paths)))"},
        "loops": {0: {"index": "i", "seq": "ps", "invariant": {
            "src": "ps == file_paths",
            "count": "len(yielded) == i",
            "ok": "all(" + _OKF.format(p="ps[j]") + " for j in range(i))",
            "each": "all(yielded[j] == [transform_dict_into_pv_event(d, mapping_config) for d in fs.files[ps[j]]] for j in range(i))",
        }}},
        "ensures": {
            "one_sequence_per_file": "len(result) == len(file_paths) and "
                                     "all(result[j] == [transform_dict_into_pv_event(d, mapping_config) for d in fs.files[file_paths[j]]] for j in range(len(file_paths)))",
        },
    },
    # ... and pv2puml hands exactly that to the learner, under the workflow name it was given (job files, not grouped by job id: the
    # route of C14; the grouping of single-event files by job id goes through another module and is not covered here)
    # (never reached under the precondition of pv_files_to_pv_streams below; nothing is assumed of it)
    "pv_event_files_to_job_id_streams": {"trusted": True, "params": {"file_list": "list[str] | None"}, "returns": "list[list[dict[str, Any]]]", "ensures": {}},
    "pv_files_to_pv_streams": {
        "params": {"file_list": "list[str] | None", "group_by_job_id": "bool"},
        "returns": "list[tuple[str, list[list[dict[str, Any]]]]]",
        "generator": True,
        "requires": {"job_files": "not group_by_job_id",
                     "typed": "implies(file_list is not None, all(implies(p in fs.files, all(valid_pv_values(d, mapping_config) for d in fs.files[p])) for p in file_list))"},
        "raises": {"FileNotFoundError": "file_list is not None and any(file_list[i] not in fs.files and all(" + _OKF.format(p="file_list[j]") + " for j in range(i)) for i in range(len(file_list)))",
                   "ValueError": "file_list is not None and any(file_list[i] in fs.files and not " + _OKF.format(p="file_list[i]") + " and all(" + _OKF.format(p="file_list[j]") + " for j in range(i)) "
                                 "for i in range(len(file_list)))"},
        "ensures": {
            "one_workflow": "len(result) == 1 and result[0][0] == job_name",
            "one_sequence_per_file": "implies(file_list is None, len(result[0][1]) == 0) and implies(file_list is not None, len(result[0][1]) == len(file_list) and "
                                     "all(result[0][1][j] == [transform_dict_into_pv_event(d, mapping_config) for d in fs.files[file_list[j]]] for j in range(len(file_list))))",
        },
    },
}
ORDER = [
    "transform_dict_into_pv_event",
    "save_pv_event_stream_to_file",
    "handle_save_events",
    "pv_job_file_to_event_sequence",
    "pv_job_files_to_event_sequence_streams",
    "pv_event_files_to_job_id_streams",
    "pv_files_to_pv_streams",
    # loading a dict that was saved from a PV event under a mapping with distinct names gives the event back
    {"name": "load_inverts_save_event",
     "forall": {"e": "dict[str, Any]", "d": "dict[str, Any]", "c": "PVEventMappingConfig"},
     "requires": ["pv_event(e)", "distinct_names(c)", "saved_as(d, e, c)"],
     "ensures": "valid_pv_values(d, c) and maps_agree(transform_dict_into_pv_event(d, c), e)"},
    # ... and so loading a saved file (the mapping used for saving, or the default names when none was used) gives the stream back
    {"name": "load_inverts_save_file",
     "forall": {"es": "list[dict[str, Any]]", "ds": "list[dict[str, Any]]", "c": "PVEventMappingConfig | None", "c2": "PVEventMappingConfig"},
     "requires": ["all(pv_event(e) for e in es)", "saved_file(ds, es, c)",
                  "implies(c is None, default_names(c2))", "implies(c is not None, c2 == c and distinct_names(c2))"],
     "ensures": "len([transform_dict_into_pv_event(d, c2) for d in ds]) == len(es) and all(valid_pv_values(ds[i], c2) and "
                "maps_agree([transform_dict_into_pv_event(d, c2) for d in ds][i], es[i]) for i in range(len(es)))"},
]


def setup(V):
    import ast
    import z3
    from pyvc.engine import V as Val, Unsupported
    from pyvc.tys import STR, ANY, BOOL, SeqTy, MapTy

    cfg = V.tenv.records["PVEventMappingConfig"]
    model = V.tenv.records["PVEventModel"]
    lst = SeqTy(STR)
    as_list = V.pre.func("as_id_list", V.pre.AnyS, V.sort(lst))

    V.tenv.aliases["PVEvent"] = MapTy(STR, ANY)      # a TypedDict is a dict at run time
    V.sort(MapTy(STR, ANY))
    box_s, unbox_s = V.pre.func("box_str", V.pre.Str, V.pre.AnyS), V.pre.func("unbox_str", V.pre.AnyS, V.pre.Str)
    box_l, unbox_l = V.pre.func(f"box_{lst.name}", V.sort(lst), V.pre.AnyS), V.pre.func(f"unbox_{lst.name}", V.pre.AnyS, V.sort(lst))
    a = z3.Const("a", V.pre.AnyS)
    xs_, xl_ = z3.Const("xs", V.pre.Str), z3.Const("xl", V.sort(lst))
    V.pre.ax("box.str.inj", z3.ForAll([xs_], unbox_s(box_s(xs_)) == xs_, patterns=[box_s(xs_)]))
    V.pre.ax(f"box.{lst.name}.inj", z3.ForAll([xl_], unbox_l(box_l(xl_)) == xl_, patterns=[box_l(xl_)]))
    V.pre._done.update({"box.str", f"box.{lst.name}"})
    # the pydantic validator of previousEventIds (trusted, cross-checked by the runtime contracts): a list of strings is kept,
    # a non-empty string becomes the one-element list
    V.pre.ax("as_id_list.list", z3.ForAll([a], z3.Implies(box_l(unbox_l(a)) == a, as_list(a) == unbox_l(a)), patterns=[as_list(a)]))
    V.pre.ax("as_id_list.str", z3.ForAll([a], z3.Implies(z3.And(box_s(unbox_s(a)) == a, unbox_s(a) != V.strlit("").t),
                                                       as_list(a) == V.pre.seqf(lst, "unit")(unbox_s(a))), patterns=[as_list(a)]))

    def b_is_str(self, n, st):
        v = self.coerce(self.expr(n.args[0], st), ANY)
        return Val(box_s(unbox_s(v.t)) == v.t, BOOL)
    V.builtins["is_str"] = b_is_str

    def b_is_id_list(self, n, st):
        v = self.coerce(self.expr(n.args[0], st), ANY)
        return Val(box_l(unbox_l(v.t)) == v.t, BOOL)
    V.builtins["is_id_list"] = b_is_id_list

    def b_as_str(self, n, st):
        return self.coerce(self.expr(n.args[0], st), STR)
    V.builtins["as_str"] = b_as_str

    def b_as_id_list(self, n, st):
        v = self.expr(n.args[0], st)
        if getattr(v, "empty_lit", False):
            v = Val(self.seq_empty(lst).t, lst)
        return Val(as_list(self.coerce(v, ANY).t), lst)
    V.builtins["as_id_list"] = b_as_id_list

    def m_model_dump(self, obj, n, st):
        """mapping_config.model_dump(): the seven field names mapped to their values, in declaration order"""
        mty = MapTy(STR, STR)
        self.sort(mty)
        m = self.pre.fn[f"empty_{mty.name}"]
        for f in _F:
            m = self.pre.mapf(mty, "store")(m, self.strlit(f).t, self.read_field(st, obj, f).t)
        self.trusted_used.add("PVEventMappingConfig.model_dump() = {field name: field value} for the seven declared fields")
        r = Val(m, mty)
        r.lit_items = [(self.strlit(f), self.read_field(st, obj, f)) for f in _F]
        return r
    V.methods["PVEventMappingConfig.model_dump"] = m_model_dump

    def ctor_model(self, n, st):
        """PVEventModel(field=value, ...): pydantic validation is trusted - the six string fields hold the given values (which must
        be strings), previousEventIds holds the normalised id list as_id_list(value) (a non-empty string becomes [string])"""
        if n.args or {kw.arg for kw in n.keywords} != set(model.fields):
            raise Unsupported("PVEventModel(...) must give exactly its seven fields by keyword", n)
        r = self.fresh("new.PVEventModel", model)
        for kw in n.keywords:
            v = self.expr(kw.value, st)
            if kw.arg == "previousEventIds":
                if getattr(v, "empty_lit", False):
                    v = Val(self.seq_empty(lst).t, lst)
                val = as_list(self.coerce(v, ANY).t)
            else:
                val = self.coerce(v, STR).t
            self.assume(st, z3.Select(self.heap_arr(st, model, kw.arg), r.t) == val)
        self.trusted_used.add("PVEventModel(...) stores its string fields unchanged and normalises previousEventIds (pydantic validation trusted; "
                              "model options such as whitespace stripping are NOT modelled - the bounded round-trip harness covers them)")
        return r
    V.ctor_handlers["PVEventModel"] = ctor_model


# ----------------------------------------------------------------------------- native reading
class _FSView:
    """fs.files natively: every JSON file under the scratch root, keyed by its path"""
    def __init__(self, root):
        self.root = root

    @property
    def files(self):
        import json
        import os
        out = {}
        for dp, _, fns in os.walk(self.root):
            for fn in fns:
                path = f"{dp}/{fn}"
                try:
                    out[path] = json.load(open(path))
                except Exception:  # noqa: BLE001
                    out[path] = None
        return out

    def __deepcopy__(self, memo):
        snap = _FSSnap()
        snap.files = self.files
        return snap

    def __universe__(self):
        return list(self.files)


class _FSSnap:
    files = None


def native_env(nat):
    import os

    def as_str(x):
        return x

    def as_id_list(x):
        if x and isinstance(x, str):
            return [x]
        return list(x)

    def is_str(x):
        return isinstance(x, str)

    def is_id_list(x):
        return isinstance(x, list) and all(isinstance(v, str) for v in x)

    def writable(path):
        return os.path.isdir(os.path.dirname(path))

    def creatable(path):
        parts = path.split("/")
        return not any(os.path.isfile("/".join(parts[:k])) for k in range(2, len(parts) + 1))
    return {"as_str": as_str, "as_id_list": as_id_list, "is_str": is_str, "is_id_list": is_id_list, "writable": writable, "creatable": creatable}


def native_call_args(nat, fname, args):
    return {k: v for k, v in args.items() if k != "fs"}


def _cfgs(nat):
    yield {}                                                                      # default names
    yield {f: "x_" + f for f in _F}                                               # all fresh names
    yield {"jobName": "eventType", "eventType": "eventName"}                      # chained: a custom name is another field's standard name
    yield {"jobId": "eventId", "eventId": "jobId"}                                # swapped
    yield {"timestamp": "applicationName", "applicationName": "timestamp", "previousEventIds": "prev"}


class _Case(dict):
    pass


_ROOTS = []


def _scratch():
    import atexit
    import os
    import shutil
    import tempfile
    root = tempfile.mkdtemp(prefix="vc14_", dir="/dev/shm" if os.path.isdir("/dev/shm") else None)
    _ROOTS.append(root)
    if len(_ROOTS) == 1:
        atexit.register(lambda: [shutil.rmtree(r, ignore_errors=True) for r in _ROOTS])
    return root


def _mat(nat, d):
    import importlib
    import json
    import os
    t = importlib.import_module("tel2puml.tel2puml_types")
    out = _Case()
    out.desc = d
    cfg = None if d.get("cfg") is None else t.PVEventMappingConfig(**d["cfg"])
    if d["fn"] == "transform_dict_into_pv_event":
        out["mapping_config"] = cfg
        out["pv_dict"] = dict(d["pv_dict"])
        return out
    root = _scratch()
    for rel, content in d.get("files", {}).items():
        os.makedirs(os.path.dirname(f"{root}/{rel}"), exist_ok=True)
        json.dump(content, open(f"{root}/{rel}", "w"))
    out["fs"] = _FSView(root)
    if d["fn"] == "save_pv_event_stream_to_file":
        if d.get("mkdir", True):
            os.makedirs(f"{root}/out/{d['job_name']}", exist_ok=True)
        out.update({"job_name": d["job_name"], "pv_event_stream": [dict(e) for e in d["stream"]], "output_file_directory": f"{root}/out",
                    "count": d["count"], "mapping_config": cfg})
    elif d["fn"] == "handle_save_events":
        out.update({"job_name": d["job_name"], "pv_event_streams": [[dict(e) for e in st] for st in d["streams"]],
                    "output_file_directory": f"{root}/{d.get('outdir', 'out')}", "mapping_config": cfg})
    elif d["fn"] == "pv_job_files_to_event_sequence_streams":
        out.update({"file_paths": [f"{root}/{f}" for f in d["paths"]], "mapping_config": cfg})
    elif d["fn"] == "pv_files_to_pv_streams":
        out.update({"file_list": None if d["paths"] is None else [f"{root}/{f}" for f in d["paths"]], "job_name": d["job_name"], "group_by_job_id": False,
                    "mapping_config": cfg})
    else:
        out.update({"file_path": f"{root}/{d['file']}", "mapping_config": cfg})
    return out


_VALS = ["a", "b b", " c", "d ", "", "läuft", "eventType", "jobName"]


def _event(rng):
    e = {f: f"{f}:{rng.choice(_VALS)}" for f in _MANDATORY}
    e["previousEventIds"] = [rng.choice(_VALS) for _ in range(rng.randrange(0, 3))]
    keys = list(e)
    rng.shuffle(keys)
    return {k: e[k] for k in keys}


def _gen_load(nat, rng, n):
    import importlib
    t = importlib.import_module("tel2puml.tel2puml_types")
    cfgs = list(_cfgs(nat))
    for i in range(n):
        cfgd = cfgs[i % len(cfgs)]
        cfg = t.PVEventMappingConfig(**cfgd)
        d = {getattr(cfg, f): f"{f}:{rng.choice(_VALS)}" for f in _MANDATORY}
        r = rng.random()
        if r < 0.4:
            d[cfg.previousEventIds] = [rng.choice(_VALS) for _ in range(rng.randrange(0, 3))]
        elif r < 0.6:
            d[cfg.previousEventIds] = rng.choice(["p1", "q"])
        if rng.random() < 0.15:
            d.pop(getattr(cfg, rng.choice(_MANDATORY)))
        if rng.random() < 0.3:
            d["unrelated"] = "zzz"
        yield _mat(nat, {"fn": "transform_dict_into_pv_event", "cfg": cfgd, "pv_dict": d})


def _gen_save(nat, rng, n):
    cfgs = [None] + list(_cfgs(nat))
    for i in range(n):
        cfgd = cfgs[i % len(cfgs)]
        stream = [_event(rng) for _ in range(rng.randrange(0, 4))]
        yield _mat(nat, {"fn": "save_pv_event_stream_to_file", "cfg": cfgd, "stream": stream, "job_name": rng.choice(["wf", "wf one"]),
                         "count": rng.randrange(1, 4), "mkdir": rng.random() > 0.1,
                         "files": {"out/wf/pv_event_sequence_1.json": [{"old": "x"}], "out/other/keep.json": [{"k": "v"}]}})


def _gen_handle(nat, rng, n):
    cfgs = [None] + list(_cfgs(nat))
    for i in range(n):
        streams = [[_event(rng) for _ in range(rng.randrange(0, 3))] for _ in range(rng.randrange(0, 4))]
        yield _mat(nat, {"fn": "handle_save_events", "cfg": cfgs[i % len(cfgs)], "streams": streams, "job_name": rng.choice(["wf", "wf one"]),
                         "outdir": "out" if rng.random() > 0.1 else "blocked/x",      # "blocked" is a regular file: the folder cannot be created
                         "files": {"out/wf/pv_event_sequence_2.json": [{"old": "x"}], "out/wf/pv_event_sequence_9.json": [{"k": "9"}],
                                   "out/other/keep.json": [{"k": "v"}], "blocked": []}})


def _gen_file(nat, rng, n):
    import importlib
    t = importlib.import_module("tel2puml.tel2puml_types")
    cfgs = list(_cfgs(nat))
    for i in range(n):
        cfgd = cfgs[i % len(cfgs)]
        cfg = t.PVEventMappingConfig(**cfgd)
        content = []
        for _ in range(rng.randrange(0, 4)):
            e = _event(rng)
            d = {getattr(cfg, k): v for k, v in e.items()}
            if rng.random() < 0.1:
                d.pop(getattr(cfg, rng.choice(_MANDATORY)))
            if rng.random() < 0.2:
                d.pop(cfg.previousEventIds, None)
            content.append(d)
        yield _mat(nat, {"fn": "pv_job_file_to_event_sequence", "cfg": cfgd, "files": {"in/job.json": content},
                         "file": "in/job.json" if rng.random() > 0.1 else "in/missing.json"})


def _gen_files(fn):
    def gen(nat, rng, n):
        import importlib
        t = importlib.import_module("tel2puml.tel2puml_types")
        cfgs = list(_cfgs(nat))
        for i in range(n):
            cfgd = cfgs[i % len(cfgs)]
            cfg = t.PVEventMappingConfig(**cfgd)
            files = {}
            for k in range(rng.randrange(0, 4)):
                content = []
                for _ in range(rng.randrange(0, 3)):
                    e = _event(rng)
                    d = {getattr(cfg, kk): v for kk, v in e.items()}
                    if rng.random() < 0.07:
                        d.pop(getattr(cfg, rng.choice(_MANDATORY)))
                    content.append(d)
                files[f"in/job{k}.json"] = content
            paths = list(files)
            rng.shuffle(paths)
            if rng.random() < 0.1:
                paths.insert(rng.randrange(len(paths) + 1), "in/missing.json")
            if paths and rng.random() < 0.15:
                paths.append(paths[0])                 # the same file twice in the list
            d = {"fn": fn, "cfg": cfgd, "files": files, "paths": paths}
            if fn == "pv_files_to_pv_streams":
                d["job_name"] = rng.choice(["wf", "wf one", ""])
                if rng.random() < 0.1:
                    d["paths"] = None
            yield _mat(nat, d)
    return gen


def _listed(fn):
    """the real generators, consumed (list reading): the inner generator of pv_files_to_pv_streams too"""
    def run(nat, args):
        import importlib
        m = importlib.import_module("tel2puml.pv_to_puml.pv_to_puml")
        out = list(getattr(m, fn)(**args))
        return [(name, list(seqs)) for name, seqs in out] if fn == "pv_files_to_pv_streams" else out
    return run


NATIVE_CALL = {fn: _listed(fn) for fn in ("pv_job_files_to_event_sequence_streams", "pv_files_to_pv_streams")}
GEN = {"transform_dict_into_pv_event": _gen_load, "save_pv_event_stream_to_file": _gen_save, "handle_save_events": _gen_handle,
       "pv_job_file_to_event_sequence": _gen_file, "pv_job_files_to_event_sequence_streams": _gen_files("pv_job_files_to_event_sequence_streams"),
       "pv_files_to_pv_streams": _gen_files("pv_files_to_pv_streams")}


class _Enc(dict):
    def __missing__(self, k):
        return lambda args: getattr(args, "desc", None)


class _Dec(dict):
    def __missing__(self, k):
        return lambda nat, e: _mat(nat, e)


ENCODE = _Enc()
DECODE = _Dec()
