"""C14 (proved part) - loading a saved PV event: which key feeds which field.

Function under contract (real source re-read on every run): tel2puml/pv_event_simulator.py transform_dict_into_pv_event

The saving side (a nested comprehension with getattr inside `with open(...)`/json.dump) and the composition of the two
routes are checked by the bounded round-trip harness through the real entry point; nothing of them is counted as proved.
"""
MODULE = "tel2puml/pv_event_simulator.py"
_F = ["jobId", "eventId", "timestamp", "previousEventIds", "applicationName", "jobName", "eventType"]   # declaration order of PVEventMappingConfig
_MANDATORY = [f for f in _F if f != "previousEventIds"]

RECORDS = {
    "PVEventMappingConfig": {"fields": {f: "str" for f in _F}},
    "PVEventModel": {"fields": {**{f: "str" for f in _MANDATORY}, "previousEventIds": "list[str]"}},
    "PVEvent": {"struct": True, "fields": {"eventId": "str", "eventType": "str", "jobId": "str", "timestamp": "str", "applicationName": "str",
                                           "jobName": "str", "previousEventIds": "list[str]"}},
}

SPECS = '''
@opaque
def valid_pv_values(pv_dict: dict[str, Any], mapping_config: PVEventMappingConfig) -> bool:
    return True
'''

CONTRACTS = {
    "transform_dict_into_pv_event": {
        "params": {"pv_dict": "dict[str, Any]"},
        # the values are of the PV format's types (strings; previousEventIds a list of strings or one non-empty string): pydantic
        # rejects anything else with a ValidationError, which is outside this contract
        "requires": {"pv_typed": "valid_pv_values(pv_dict, mapping_config)"},
        # "raises ValueError iff a mandatory renamed key is missing"
        "raises": {"ValueError": "not (" + " and ".join(f"mapping_config.{f} in pv_dict" for f in _MANDATORY) + ")"},
        "ensures": {
            # every field is read under the key the mapping gives it
            "fields": " and ".join(f"result['{f}'] == as_str(pv_dict[mapping_config.{f}])" for f in _MANDATORY),
            "links": "result['previousEventIds'] == as_id_list(pv_dict.get(mapping_config.previousEventIds, []))",
        },
    },
}
ORDER = ["transform_dict_into_pv_event"]


def setup(V):
    import ast
    import z3
    from pyvc.engine import V as Val, Unsupported
    from pyvc.tys import STR, ANY, SeqTy, MapTy

    cfg = V.tenv.records["PVEventMappingConfig"]
    model = V.tenv.records["PVEventModel"]
    lst = SeqTy(STR)
    as_list = V.pre.func("as_id_list", V.pre.AnyS, V.sort(lst))

    def b_as_str(self, n, st):
        return self.coerce(self.expr(n.args[0], st), STR)
    V.builtins["as_str"] = b_as_str

    def b_as_id_list(self, n, st):
        v = self.expr(n.args[0], st)
        if getattr(v, "empty_lit", False):
            v = Val(self.seq_empty(lst).t, lst)
        return Val(as_list(self.coerce(v, ANY).t), lst)
    V.builtins["as_id_list"] = b_as_id_list

    def m_model_dump(self, obj, n, st):
        """mapping_config.model_dump(): the seven field names mapped to their values, in declaration order"""
        mty = MapTy(STR, STR)
        self.sort(mty)
        m = self.pre.fn[f"empty_{mty.name}"]
        for f in _F:
            m = self.pre.mapf(mty, "store")(m, self.strlit(f).t, self.read_field(st, obj, f).t)
        self.trusted_used.add("PVEventMappingConfig.model_dump() = {field name: field value} for the seven declared fields")
        r = Val(m, mty)
        r.lit_items = [(self.strlit(f), self.read_field(st, obj, f)) for f in _F]
        return r
    V.methods["PVEventMappingConfig.model_dump"] = m_model_dump

    def ctor_model(self, n, st):
        """PVEventModel(field=value, ...): pydantic validation is trusted - the six string fields hold the given values (which must
        be strings), previousEventIds holds the normalised id list as_id_list(value) (a non-empty string becomes [string])"""
        if n.args or {kw.arg for kw in n.keywords} != set(model.fields):
            raise Unsupported("PVEventModel(...) must give exactly its seven fields by keyword", n)
        r = self.fresh("new.PVEventModel", model)
        for kw in n.keywords:
            v = self.expr(kw.value, st)
            if kw.arg == "previousEventIds":
                if getattr(v, "empty_lit", False):
                    v = Val(self.seq_empty(lst).t, lst)
                val = as_list(self.coerce(v, ANY).t)
            else:
                val = self.coerce(v, STR).t
            self.assume(st, z3.Select(self.heap_arr(st, model, kw.arg), r.t) == val)
        self.trusted_used.add("PVEventModel(...) stores its string fields unchanged and normalises previousEventIds (pydantic validation trusted; "
                              "model options such as whitespace stripping are NOT modelled - the bounded round-trip harness covers them)")
        return r
    V.ctor_handlers["PVEventModel"] = ctor_model


# ----------------------------------------------------------------------------- native reading
def native_env(nat):
    def as_str(x):
        return x

    def as_id_list(x):
        if x and isinstance(x, str):
            return [x]
        return list(x)
    def valid_pv_values(pv_dict, cfg):
        for f in _MANDATORY:
            k = getattr(cfg, f)
            if k in pv_dict and not isinstance(pv_dict[k], str):
                return False
        p = pv_dict.get(cfg.previousEventIds, [])
        return (isinstance(p, str) and p != "") or (isinstance(p, list) and all(isinstance(x, str) for x in p))
    return {"as_str": as_str, "as_id_list": as_id_list, "valid_pv_values": valid_pv_values}


def _cfgs(nat):
    import importlib
    t = importlib.import_module("tel2puml.tel2puml_types")
    std = _F
    yield {}                                                                      # default names
    yield {f: "x_" + f for f in std}                                              # all fresh names
    yield {"jobName": "eventType", "eventType": "eventName"}                      # chained: a custom name is another field's standard name
    yield {"jobId": "eventId", "eventId": "jobId"}                                # swapped
    yield {"timestamp": "applicationName", "applicationName": "timestamp", "previousEventIds": "prev"}


class _Case(dict):
    pass


def _mat(nat, d):
    import importlib
    t = importlib.import_module("tel2puml.tel2puml_types")
    out = _Case()
    out.desc = d
    out["mapping_config"] = t.PVEventMappingConfig(**d["cfg"])
    out["pv_dict"] = dict(d["pv_dict"])
    return out


def _gen(nat, rng, n):
    import importlib
    t = importlib.import_module("tel2puml.tel2puml_types")
    cfgs = list(_cfgs(nat))
    vals = ["a", "b b", " c", "d ", "", "läuft", "eventType", "jobName"]
    for i in range(n):
        cfgd = cfgs[i % len(cfgs)]
        cfg = t.PVEventMappingConfig(**cfgd)
        d = {getattr(cfg, f): f"{f}:{rng.choice(vals)}" for f in _MANDATORY}
        r = rng.random()
        if r < 0.4:
            d[cfg.previousEventIds] = [rng.choice(vals) for _ in range(rng.randrange(0, 3))]
        elif r < 0.6:
            d[cfg.previousEventIds] = rng.choice(["p1", ""])
        if rng.random() < 0.15:
            d.pop(getattr(cfg, rng.choice(_MANDATORY)))
        if rng.random() < 0.3:
            d["unrelated"] = "zzz"
        yield _mat(nat, {"cfg": cfgd, "pv_dict": d})


GEN = {"transform_dict_into_pv_event": _gen}


class _Enc(dict):
    def __missing__(self, k):
        return lambda args: getattr(args, "desc", None)


class _Dec(dict):
    def __missing__(self, k):
        return lambda nat, e: _mat(nat, e)


ENCODE = _Enc()
DECODE = _Dec()
