"""C08 (proved part) - the job-level composition: `sequence_otel_jobs`, `sequence_otel_job_id_streams`.

Functions under contract (real source re-read on every run): tel2puml/otel_to_pv/sequence_otel.py
    sequence_otel_jobs, sequence_otel_job_id_streams

The trace-level functions are proved in contracts/c08.py (`update_event_types_based_on_children`: a span is renamed when a listed child
type is present; `sequence_otel_event_job`: the PV job of one trace is the documented rule LINKS applied to it) and contracts/c12.py
(`job_ids_to_eventid_to_otelevent_map`: one id -> span map per connected trace, in order).  What the property observes is the stream of
`sequence_otel_job_id_streams`; between it and those functions sits this composition.  Here the three callees are **trusted leaves named by
uninterpreted functions** - `renamed(job, rules)`, `pv_job(job, async_flag, groups)`, `trace_maps(streams)` - and traces are values (the
rename step, which mutates the spans of a trace in place, returns the renamed trace: sound as long as traces share no span object, which
is how `stream_data` builds them).  Proved for every list of traces and every configuration:

    one_job_per_trace   the k-th job of the stream is  pv_job(renamed(trace k, rules) if rules are given (non-empty) else trace k,
                        async_flag, groups)  - the rename step runs *before* the trace is sequenced, on that trace, with the rules; the
                        async flag and the prior information reach the sequencer unchanged and in their own positions
    streams             sequence_otel_job_id_streams is that, applied to the id -> span maps of the connected traces of its input

Generators are read as lists (the jobs are lazy generators at run time: a job is sequenced when it is consumed, the rename step of the
next trace runs when the next job is requested; with traces that share no span the order of these steps is not observable - that
reading is what the runtime-only contract of contracts/c08.py checks on the real generators).
"""
MODULE = "tel2puml/otel_to_pv/sequence_otel.py"

_GROUPS = "Optional[dict[str, dict[str, str]]]"
_RULES = "Optional[dict[str, OTelEventTypeMap]]"
_JOB = "dict[str, OTelEvent]"
RECORDS = {
    "OTelEvent": {"fields": {}},
    "PVEvent": {"fields": {}},
    "OTelEventTypeMap": {"fields": {}},
}

SPECS = f'''
@opaque
def renamed(job: {_JOB}, rules: dict[str, OTelEventTypeMap]) -> {_JOB}:
    return job

@opaque
def pv_job(job: {_JOB}, async_flag: bool, groups: {_GROUPS}) -> list[PVEvent]:
    return []

@opaque
def trace_maps(streams: list[list[OTelEvent]]) -> list[{_JOB}]:
    return []

def prepared(job: {_JOB}, rules: {_RULES}) -> {_JOB}:
    return renamed(job, rules) if rules is not None and len(rules) > 0 else job
'''

CONTRACTS = {
    # proved in contracts/c08.py (heap reading: the spans of the job are renamed in place); here: the renamed trace as a value
    "update_event_types_based_on_children": {
        "trusted": True, "mutable_params": ["otel_events_job"],
        "params": {"otel_events_job": _JOB, "event_types_map_information": "dict[str, OTelEventTypeMap]"},
        "ensures": {"renamed": "otel_events_job == renamed(old(otel_events_job), event_types_map_information)"},
    },
    # proved in contracts/c08.py against the documented rule LINKS
    "sequence_otel_event_job": {
        "trusted": True, "params": {"event_id_to_event_map": _JOB, "event_to_async_group_map": _GROUPS}, "returns": "list[PVEvent]",
        "ensures": {"the_job": "result == pv_job(event_id_to_event_map, async_flag, event_to_async_group_map)"},
    },
    # proved in contracts/c12.py
    "job_ids_to_eventid_to_otelevent_map": {
        "trusted": True, "params": {"job_id_streams": "list[list[OTelEvent]]"}, "returns": f"list[{_JOB}]",
        "ensures": {"maps": "result == trace_maps(job_id_streams)"},
    },
    "sequence_otel_jobs": {
        "generator": True,
        "params": {"jobs": f"list[{_JOB}]", "event_to_async_group_map": _GROUPS, "event_types_map_information": _RULES},
        "returns": "list[list[PVEvent]]",
        "ensures": {
            "one_job_per_trace": "len(result) == len(jobs) and all(result[k] == pv_job(prepared(jobs[k], event_types_map_information), async_flag, "
                                 "event_to_async_group_map) for k in range(len(jobs)))",
        },
        "loops": {0: {"index": "i", "seq": "js", "invariant": {
            "src": "js == jobs",
            "count": "len(yielded) == i",
            "each": "all(yielded[k] == pv_job(prepared(js[k], event_types_map_information), async_flag, event_to_async_group_map) for k in range(i))",
        }}},
    },
    "sequence_otel_job_id_streams": {
        "generator": True,
        "params": {"job_id_streams": "list[list[OTelEvent]]", "event_to_async_group_map": _GROUPS, "event_types_map_information": _RULES},
        "returns": "list[list[PVEvent]]",
        "ensures": {
            "streams": "len(result) == len(trace_maps(job_id_streams)) and all(result[k] == pv_job(prepared(trace_maps(job_id_streams)[k], "
                       "event_types_map_information), async_flag, event_to_async_group_map) for k in range(len(trace_maps(job_id_streams))))",
        },
    },
}
ORDER = ["update_event_types_based_on_children", "sequence_otel_event_job", "job_ids_to_eventid_to_otelevent_map",
         "sequence_otel_jobs", "sequence_otel_job_id_streams"]


def setup(V):
    def b_tqdm(self, n, st):
        # tqdm(iterable, ...) yields the items of its iterable, in order
        self.trusted_used.add("tqdm(iterable, ...) iterates its iterable unchanged")
        return self.expr(n.args[0], st)
    V.builtins["tqdm"] = b_tqdm
