"""C04 (second sidecar) - the concrete EventSet class (a dict subclass) against its abstract view, the multiset of events.

contracts/c04.py treats an EventSet as the multiset cnt(es, .) and assumes that EventSet(events) denotes the multiset of
the list `events`.  Here that assumption is *proved* for the real constructor, together with the methods the model
file is written with:  tel2puml/events.py  EventSet.__init__, .is_subset, .get_repeated_events, .to_frozenset,
.to_event_set_count_input_list.   `self` is the underlying dict[str, int].
Not covered: __eq__/__hash__/__key (need "sorted is canonical on sets of keys"), to_list (nested generator over items).
"""
MODULE = "tel2puml/events.py"
KW_CTOR: list = []
# EventSetCountInput is a pydantic value model: treated as a value struct (its identity is never observed)
RECORDS = {"EventSetCountInput": {"struct": True, "fields": {"eventType": "str", "count": "int"}}}

CONTRACTS = {
    "EventSet.__init__": {
        "params": {"self": "dict[str, int]"}, "mutable_params": ["self"],
        "requires": {"fresh": "len(self) == 0"},
        "ensures": {
            # the abstract view: every event type is counted as often as it occurs, and nothing else is a key
            "counts": "forall(lambda t: (t in self) == (count(events, t) >= 1) and implies(t in self, self[t] == count(events, t)), 'str')",
        },
        "loops": {0: {"index": "i", "invariant": {
            "counts": "forall(lambda t: (t in self) == (count(events[:i], t) >= 1) and implies(t in self, self[t] == count(events[:i], t)), 'str')",
        }, "hints_end": ["events[:i] == events[:i - 1] + [events[i - 1]]"]}},
    },
    "EventSet.is_subset": {
        "params": {"self": "dict[str, int]", "other": "dict[str, int]"},
        "requires": {"counts_positive": "all(other[k] >= 1 for k in other) and all(self[k] >= 1 for k in self)"},
        "ensures": {"same_counts": "result == all(k in other and other[k] == self[k] for k in self)"},
    },
    "EventSet.get_repeated_events": {
        "params": {"self": "dict[str, int]"},
        "ensures": {"repeated": "forall(lambda t: (t in result) == (t in self and self[t] > 1) and implies(t in result, result[t] == self[t]), 'str')"},
    },
    "EventSet.to_frozenset": {
        "params": {"self": "dict[str, int]"}, "returns": "set[str]",
        "ensures": {"keys": "forall(lambda t: (t in result) == (t in self), 'str')"},
    },
    "EventSet.to_event_set_count_input_list": {
        "params": {"self": "dict[str, int]"}, "returns": "list[EventSetCountInput]",
        # what goes into the model file: one (type, count) entry per distinct type, in key order
        "ensures": {"entries": "len(result) == len(self) and all(result[p].eventType == list(self)[p] and result[p].count == self[list(self)[p]] for p in range(len(self)))"},
    },
}
ORDER = ["EventSet.__init__", "EventSet.is_subset", "EventSet.get_repeated_events", "EventSet.to_frozenset", "EventSet.to_event_set_count_input_list"]


def setup(V):
    import z3
    from pyvc.engine import V as Val
    from pyvc.tys import INT
    V.kw_ctor_records = set(KW_CTOR)

    def b_count(self, n, st):
        xs = self.as_seq(self.expr(n.args[0], st), st)
        x = self.coerce(self.expr(n.args[1], st), xs.ty.elem)
        return Val(self.pre.seqf(xs.ty, "count")(xs.t, x.t), INT)
    V.builtins["count"] = b_count
