"""C04 (second sidecar) - the concrete EventSet class (a dict subclass) against its abstract view, the multiset of events.

contracts/c04.py treats an EventSet as the multiset cnt(es, .) and assumes that EventSet(events) denotes the multiset of
the list `events`.  Here that assumption is *proved* for the real constructor, together with the methods the model
file is written with:  tel2puml/events.py  EventSet.__init__, .is_subset, .get_repeated_events, .to_frozenset,
.to_event_set_count_input_list.   `self` is the underlying dict[str, int].
Not covered: __eq__/__hash__/__key (need "sorted is canonical on sets of keys"), to_list (nested generator over items).
"""
MODULE = "tel2puml/events.py"
KW_CTOR: list = []
# EventSetCountInput is a pydantic value model: treated as a value struct (its identity is never observed)
RECORDS = {"EventSetCountInput": {"struct": True, "fields": {"eventType": "str", "count": "int"}}}

CONTRACTS = {
    "EventSet.__init__": {
        "params": {"self": "dict[str, int]"}, "mutable_params": ["self"],
        "requires": {"fresh": "len(self) == 0"},
        "ensures": {
            # the abstract view: every event type is counted as often as it occurs, and nothing else is a key
            "counts": "forall(lambda t: (t in self) == (count(events, t) >= 1) and implies(t in self, self[t] == count(events, t)), 'str')",
        },
        "loops": {0: {"index": "i", "invariant": {
            "counts": "forall(lambda t: (t in self) == (count(events[:i], t) >= 1) and implies(t in self, self[t] == count(events[:i], t)), 'str')",
        }, "hints_end": ["events[:i] == events[:i - 1] + [events[i - 1]]"]}},
    },
    "EventSet.is_subset": {
        "params": {"self": "dict[str, int]", "other": "dict[str, int]"},
        "requires": {"counts_positive": "all(other[k] >= 1 for k in other) and all(self[k] >= 1 for k in self)"},
        "ensures": {"same_counts": "result == all(k in other and other[k] == self[k] for k in self)"},
    },
    "EventSet.get_repeated_events": {
        "params": {"self": "dict[str, int]"},
        "ensures": {"repeated": "forall(lambda t: (t in result) == (t in self and self[t] > 1) and implies(t in result, result[t] == self[t]), 'str')"},
    },
    "EventSet.to_frozenset": {
        "params": {"self": "dict[str, int]"}, "returns": "set[str]",
        "ensures": {"keys": "forall(lambda t: (t in result) == (t in self), 'str')"},
    },
    "EventSet.to_event_set_count_input_list": {
        "params": {"self": "dict[str, int]"}, "returns": "list[EventSetCountInput]",
        # what goes into the model file: one (type, count) entry per distinct type, in key order
        "ensures": {"entries": "len(result) == len(self) and all(result[p].eventType == list(self)[p] and result[p].count == self[list(self)[p]] for p in range(len(self)))"},
    },
    # the counts each successor type was seen with (what the branch / repeat logic of the gate tree is computed from)
    "get_event_set_counts": {
        "params": {"event_sets": "set[dict[str, int]]"},
        "locals": {"event_set_counts": "dict[str, set[int]]"},
        "ensures": {
            "types": "forall(lambda t: (t in result) == any(t in es for es in event_sets), 'str')",
            "counts": "forall(lambda t, c: implies(t in result, (c in result[t]) == any(t in es and es[t] == c for es in event_sets)), 'str', 'int')",
        },
        "loops": {
            0: {"index": "i", "seq": "ess", "invariant": {
                "types": "forall(lambda t: (t in event_set_counts) == any(t in ess[p] for p in range(i)), 'str')",
                "counts": "forall(lambda t, c: implies(t in event_set_counts, (c in event_set_counts[t]) == any(t in ess[p] and ess[p][t] == c for p in range(i))), 'str', 'int')",
            }},
            1: {"index": "j", "seq": "its", "invariant": {
                "src": "its == list(event_set.items())",
                "types": "forall(lambda t: (t in event_set_counts) == (any(t in ess[p] for p in range(i)) or any(its[q][0] == t for q in range(j))), 'str')",
                "counts": "forall(lambda t, c: implies(t in event_set_counts, (c in event_set_counts[t]) == (any(t in ess[p] and ess[p][t] == c for p in range(i)) "
                          "or any(its[q][0] == t and its[q][1] == c for q in range(j)))), 'str', 'int')",
            }},
        },
    },
}
ORDER = ["get_event_set_counts", "EventSet.__init__", "EventSet.is_subset", "EventSet.get_repeated_events", "EventSet.to_frozenset", "EventSet.to_event_set_count_input_list"]


def setup(V):
    import z3
    from pyvc.engine import V as Val
    from pyvc.tys import INT
    V.kw_ctor_records = set(KW_CTOR)

    def b_count(self, n, st):
        xs = self.as_seq(self.expr(n.args[0], st), st)
        x = self.coerce(self.expr(n.args[1], st), xs.ty.elem)
        return Val(self.pre.seqf(xs.ty, "count")(xs.t, x.t), INT)
    V.builtins["count"] = b_count


# ----------------------------------------------------------------------------- native reading (runtime contracts on the real class)
def native_env(nat):
    def count(xs, x):
        return sum(1 for y in xs if y == x)
    return {"count": count}


def _es(nat, rng, allow_empty=True):
    import importlib
    ev = importlib.import_module("tel2puml.events")
    return ev.EventSet([rng.choice("ABCD") for _ in range(rng.randrange(0 if allow_empty else 1, 6))])


def _gen_init(nat, rng, n):
    import importlib
    ev = importlib.import_module("tel2puml.events")
    for _ in range(n):
        yield {"self": ev.EventSet([]), "events": [rng.choice("ABCD") for _ in range(rng.randrange(0, 7))]}


def _gen_self(nat, rng, n):
    for _ in range(n):
        yield {"self": _es(nat, rng)}


def _gen_two(nat, rng, n):
    for _ in range(n):
        yield {"self": _es(nat, rng), "other": _es(nat, rng)}


def _gen_sets(nat, rng, n):
    for _ in range(n):
        yield {"event_sets": {_es(nat, rng) for _ in range(rng.randrange(0, 5))}}


GEN = {"EventSet.__init__": _gen_init, "EventSet.is_subset": _gen_two, "EventSet.get_repeated_events": _gen_self, "EventSet.to_frozenset": _gen_self,
       "EventSet.to_event_set_count_input_list": _gen_self, "get_event_set_counts": _gen_sets}
ENCODE = {f: (lambda a: {k: (sorted(map(dict, v), key=str) if isinstance(v, set) else (dict(v) if isinstance(v, dict) else v)) for k, v in a.items()}) for f in GEN}


def _dec(nat, e):
    import importlib
    ev = importlib.import_module("tel2puml.events")

    def mk(d):
        return ev.EventSet([t for t, c in d.items() for _ in range(c)])
    return {k: ({mk(x) for x in v} if k == "event_sets" else (mk(v) if isinstance(v, dict) else v)) for k, v in e.items()}


DECODE = {f: _dec for f in GEN}
