"""Bounded stand-in for the SQL store (labelled *bounded*, never counted as proved).

Contracts over an **abstract view** of the store are checked at run time on the
real `SQLDataHolder` (real sqlite) over stated finite domains:

    view(store) = (nodes: span id -> row, assoc: set of (parent, child), hashes: trace id -> (name, hash))
    WF(view)    = (W1) every assoc row's child is a stored span with that parent
                  (W2) every stored span with a parent has its assoc row
(job_hashes is scratch space of find_unique_graphs: its content must never influence a later operation - that is
checked through the histories of mode c15, not through WF.)

Every public operation has `requires WF(old)`, `ensures WF(new)` and a
postcondition over the *whole* view (what is added / removed / renamed, and that
every other row is unchanged).

usage (under /venv/bin/python, PYTHONPATH = stubs : repo : /verif):
    store_harness.py --mode c10|c11|c12|c09|c15 --tier quick|thorough --seed N --repo /repo
    store_harness.py --mode ... --replay file.json
Prints one line  BOUNDED-RESULT {json}.
"""
from __future__ import annotations

import argparse
import itertools
import json
import os
import random
import shutil
import sys
import tempfile
import time
import traceback
from collections import namedtuple
from multiprocessing import Pool
from typing import Any, Iterable

Span = namedtuple("Span", "job_name job_id event_type event_id start end app parent")
MIN = 60 * 10**9  # one grid unit = one minute in ns (time_buffer is given in minutes)
T0 = 1_700_000_000 * 10**9


# ----------------------------------------------------------------------------- real code access
def _imports() -> Any:
    from tel2puml.otel_to_pv.data_holders.sql_data_holder.sql_dataholder import SQLDataHolder
    from tel2puml.otel_to_pv.data_holders.sql_data_holder import data_model
    from tel2puml.otel_to_pv.config import SQLDataHolderConfig
    from tel2puml.otel_to_pv.otel_to_pv_types import OTelEvent
    return SQLDataHolder, SQLDataHolderConfig, OTelEvent, data_model


def mk_event(s: Span) -> Any:
    _, _, OTelEvent, _ = _imports()
    return OTelEvent(job_name=s.job_name, job_id=s.job_id, event_type=s.event_type, event_id=s.event_id, start_timestamp=s.start,
                     end_timestamp=s.end, application_name=s.app, parent_event_id=s.parent, child_event_ids=None)


def new_holder(uri: str, batch_size: int, time_buffer: int) -> Any:
    """A fresh SQLDataHolder as a new run of the tool would create it.  A new process has a fresh
    `Base.metadata`; in-process emulation has to forget the temporary table a previous
    find_unique_graphs registered there (an artefact of emulation, not of the tool)."""
    SQLDataHolder, SQLDataHolderConfig, _, dm = _imports()
    if "temp_root_nodes" in dm.Base.metadata.tables:
        dm.Base.metadata.remove(dm.Base.metadata.tables["temp_root_nodes"])
    return SQLDataHolder(SQLDataHolderConfig(db_uri=uri, batch_size=batch_size, time_buffer=time_buffer))


def ingest(dh: Any, spans: Iterable[Span]) -> None:
    """exactly IngestData.load_to_data_holder"""
    with dh:
        for s in spans:
            dh.save_data(mk_event(s))


def dispose(dh: Any) -> None:
    try:
        dh.session.close()
    except Exception:  # noqa: BLE001
        pass
    try:
        dh.engine.dispose()
    except Exception:  # noqa: BLE001
        pass


# ----------------------------------------------------------------------------- abstract view
def view(dh: Any) -> dict[str, Any]:
    import sqlalchemy as sa
    with dh.engine.connect() as c:
        rows = c.execute(sa.text("SELECT job_name, job_id, event_type, event_id, start_timestamp, end_timestamp, application_name, "
                                 "parent_event_id FROM nodes")).fetchall()
        assoc = c.execute(sa.text("SELECT parent_id, child_id FROM NODE_ASSOCIATION")).fetchall()
        hashes = c.execute(sa.text("SELECT job_id, job_name, job_hash FROM job_hashes")).fetchall()
    nodes: dict[str, Span] = {}
    dup = []
    for r in rows:
        s = Span(*r)
        if s.event_id in nodes:
            dup.append(s.event_id)
        nodes[s.event_id] = s
    return {"nodes": nodes, "assoc": {(a, b) for a, b in assoc}, "hashes": {h[0]: (h[1], h[2]) for h in hashes}, "dup_rows": dup,
            "n_assoc_rows": len(assoc)}


def wf(v: dict[str, Any]) -> list[str]:
    bad = []
    if v["dup_rows"]:
        bad.append(f"duplicate node rows {v['dup_rows']}")
    if v["n_assoc_rows"] != len(v["assoc"]):
        bad.append("duplicate association rows")
    for (p, c) in v["assoc"]:
        if c not in v["nodes"] or v["nodes"][c].parent != p:
            bad.append(f"W1: association row ({p},{c}) without a stored child span having that parent")
            break
    for s in v["nodes"].values():
        if s.parent is not None and (s.parent, s.event_id) not in v["assoc"]:
            bad.append(f"W2: span {s.event_id} has parent {s.parent} but no association row")
            break
    return bad


def traces(nodes: dict[str, Span]) -> dict[str, list[Span]]:
    out: dict[str, list[Span]] = {}
    for s in nodes.values():
        out.setdefault(s.job_id, []).append(s)
    return out


# ----------------------------------------------------------------------------- specifications (abstract view level)
def spec_first_occurrence(before: dict[str, Span], stream: list[Span]) -> dict[str, Span]:
    out = dict(before)
    for s in stream:
        if s.event_id not in out:
            # the store keeps "no parent" for an empty parent id (convert_otel_event_to_node_model)
            out[s.event_id] = s._replace(parent=s.parent or None)
    return out


def spec_assoc(nodes: dict[str, Span]) -> set[tuple[str, str]]:
    return {(s.parent, s.event_id) for s in nodes.values() if s.parent is not None}


def spec_remove_inconsistent(nodes: dict[str, Span]) -> dict[str, Span]:
    broken = {s.job_id for s in nodes.values() if s.parent is not None and s.parent not in nodes}
    return {k: s for k, s in nodes.items() if s.job_id not in broken}


def spec_window(lo: int, hi: int, b: int) -> tuple[int, int] | None:
    w0, w1 = lo + b, hi - b
    return None if w0 > w1 else (w0, w1)


def spec_remove_outside(nodes: dict[str, Span], w: tuple[int, int]) -> dict[str, Span]:
    keep = {s.job_id for s in nodes.values() if (w[0] <= s.start <= w[1]) or (w[0] <= s.end <= w[1])}
    return {k: s for k, s in nodes.items() if s.job_id in keep}


def spec_rename(nodes: dict[str, Span]) -> dict[str, Span] | None:
    """every span carries the workflow name of its trace's root span; None when some trace has several roots with
    different names (the documented operation is then ambiguous: such stores are outside the domain)"""
    out = {}
    for tid, spans in traces(nodes).items():
        roots = [s for s in spans if s.parent is None]
        names = {r.job_name for r in roots}
        if len(names) > 1:
            return None
        for s in spans:
            out[s.event_id] = s._replace(job_name=next(iter(names))) if names else s
    return out


def shape(tid: str, nodes: dict[str, Span]) -> Any:
    spans = [s for s in nodes.values() if s.job_id == tid]
    kids: dict[str, list[Span]] = {}
    for s in spans:
        if s.parent is not None:
            kids.setdefault(s.parent, []).append(s)
    roots = [s for s in spans if s.parent is None]

    def canon(s: Span, depth: int = 0) -> Any:
        if depth > 50:
            return ("cycle",)
        return (s.event_type, tuple(sorted(canon(c, depth + 1) for c in kids.get(s.event_id, []))))
    return tuple(sorted(canon(r) for r in roots))


# ----------------------------------------------------------------------------- domains
def span(tid: str, i: int, parent: str | None, start: int, end: int, etype: str | None = None, name: str = "W1", eid: str | None = None) -> Span:
    return Span(name, tid, etype or f"t{i}", eid or f"{tid}.s{i}", T0 + start * MIN, T0 + end * MIN, "app", parent)


def pool_c10() -> list[Span]:
    """two traces; one id occurs twice with different content (so 'the first occurrence' is observable), and a third time
    under *another trace id*; one span's parent is the duplicated id; one span has a parent that never arrives"""
    return [
        span("A", 0, None, 0, 4),
        span("A", 1, "A.s0", 1, 2),
        span("A", 1, "A.s0", 2, 3, etype="other", eid="A.s1"),          # duplicate id, different type/times
        span("A", 2, "A.s1", 2, 2),
        span("B", 0, None, 1, 1, name="W2"),
        span("B", 1, "ghost", 3, 4, name="W2"),
        span("B", 2, "B.s0", 2, 2, name="W2", eid="A.s1"),              # the same span id re-used by another trace
        span("C", 0, "", 0, 1, name="W2"),                               # a root whose parent id is the empty string (OTLP/JSON)
    ]


# ----------------------------------------------------------------------------- result plumbing
class Bag:
    def __init__(self) -> None:
        self.evaluations = 0
        self.nontrivial: set[str] = set()
        self.violations: dict[str, dict[str, Any]] = {}
        self.samples: list[Any] = []

    def add(self, res: dict[str, Any]) -> None:
        self.evaluations += res.get("evaluations", 1)
        for k in res.get("nontrivial", []):
            self.nontrivial.add(k)
        for v in res.get("violations", []):
            self.violations.setdefault(v["key"], v)
        if res.get("sample") is not None and len(self.samples) < 4:
            self.samples.append(res["sample"])


def enc_spans(spans: Iterable[Span]) -> list[list[Any]]:
    return [list(s) for s in spans]


def dec_spans(xs: list[list[Any]]) -> list[Span]:
    return [Span(*x) for x in xs]


def guard(fn: Any, case: dict[str, Any]) -> dict[str, Any]:
    try:
        return fn(case)
    except Exception as e:  # noqa: BLE001  the harness itself failed
        return {"violations": [], "harness_error": f"{type(e).__name__}: {e}\n{traceback.format_exc()[-1500:]}", "case": case}


# ============================================================================= C10: ingestion
def run_c10(case: dict[str, Any]) -> dict[str, Any]:
    """case: {"runs": [[span,...], ...], "batch": b}   each run is a fresh holder on the same store"""
    runs = [dec_spans(r) for r in case["runs"]]
    b = case["batch"]
    tmpdir = None
    uri = "sqlite:///:memory:"
    if len(runs) > 1:
        tmpdir = tempfile.mkdtemp(prefix="vstore_", dir="/dev/shm" if os.path.isdir("/dev/shm") else None)
        uri = f"sqlite:///{tmpdir}/store.db"
    viol: list[dict[str, Any]] = []
    nontrivial = []
    try:
        before: dict[str, Span] = {}
        for ri, stream in enumerate(runs):
            dh = new_holder(uri, b, 0)
            try:
                try:
                    ingest(dh, stream)
                except Exception as e:  # noqa: BLE001
                    viol.append({"key": f"ingest/no_raise.{type(e).__name__}", "what": f"ingestion run {ri} raised {type(e).__name__}: {str(e)[:200]}",
                                 "case": case})
                    break
                v = view(dh)
                cleaned = None
                if case.get("clean_between") and ri < len(runs) - 1 and stream:
                    # the rest of a run of the tool: the three cleaning steps, on the holder that ingested
                    try:
                        dh.remove_inconsistent_jobs()
                        dh.remove_jobs_outside_of_time_window()
                        dh.update_job_names_by_root_span()
                        cleaned = view(dh)
                    except ValueError:
                        cleaned = None
            finally:
                dispose(dh)
            want = spec_first_occurrence(before, stream)
            if v["nodes"] != want:
                missing = sorted(set(want) - set(v["nodes"]))
                extra = sorted(set(v["nodes"]) - set(want))
                diff = sorted(k for k in set(want) & set(v["nodes"]) if want[k] != v["nodes"][k])
                viol.append({"key": "ingest/ensures.first_occurrence", "what": f"run {ri}: missing {missing} extra {extra} not-first {diff}", "case": case})
            elif v["assoc"] != spec_assoc(want):
                viol.append({"key": "ingest/ensures.parent_links", "what": f"run {ri}: association rows {sorted(v['assoc'])} != {sorted(spec_assoc(want))}",
                             "case": case})
            elif v["dup_rows"] or v["n_assoc_rows"] != len(v["assoc"]):
                viol.append({"key": "ingest/ensures.one_record_per_id", "what": "duplicate rows", "case": case})
            before = want
            if cleaned is not None:
                if wf(cleaned):
                    viol.append({"key": "run_with_cleaning/ensures.WF", "what": f"after the cleaning steps of run {ri}: " + "; ".join(wf(cleaned)), "case": case})
                    break
                before = cleaned["nodes"]   # what the next ingestion finds in the store
                nontrivial.append("cleaned")
            ids = [s.event_id for s in stream]
            if len(set(ids)) < len(ids):
                nontrivial.append("dup-in-run")
            if ri > 0 and set(ids) & set(spec_first_occurrence({}, [s for r in runs[:ri] for s in r])):
                nontrivial.append("dup-across-runs")
    finally:
        if tmpdir:
            shutil.rmtree(tmpdir, ignore_errors=True)
    key = json.dumps([[s.event_id + "/" + s.event_type for s in r] for r in runs]) + f"|b{b}"
    return {"violations": viol, "nontrivial": [key] if nontrivial else [], "sample": case if nontrivial else None}


def domain_c10(tier: str, rng: random.Random) -> Iterable[dict[str, Any]]:
    pool = pool_c10()
    maxlen = 4 if tier == "quick" else 5
    batches = [1, 2, 3, 100]
    for n in range(0, maxlen + 1):
        for seq in itertools.product(range(len(pool)), repeat=n):
            stream = [pool[i] for i in seq]
            for b in batches:
                yield {"runs": [enc_spans(stream)], "batch": b}
    # realistic batch sizes (the default is 1000): ~1100 spans in 10-span traces, one duplicate id whose second occurrence
    # (different content) sits early / deep inside the first batch / in the second batch; also the duplicate arriving in a second run
    big = [s for k in range(110) for s in chain(f"T{k}", 10, "W1", bool(k % 2))]
    for pos in (15, 620, 990, 1050):
        for first in (3, 501, 777):
            if first >= pos:
                continue
            dup = big[first]._replace(event_type="dup", parent=big[first - 1].event_id if big[first].parent else big[first + 1].event_id)
            stream = big[:pos] + [dup] + big[pos:]
            for b in (1000, 700):
                yield {"runs": [enc_spans(stream)], "batch": b}
    yield {"runs": [enc_spans(big[:600]), enc_spans(big[300:])], "batch": 1000}
    # a whole run (ingest + the three cleaning steps) followed by a run that ingests the same spans again
    cpool = [span("A", 0, None, 0, 4), span("A", 1, "A.s0", 1, 2), span("B", 0, None, 1, 1), span("B", 1, "ghost", 3, 4), span("B", 3, "A.s0", 2, 2),
             span("C", 0, None, 2, 3, name="W2")]
    for n in range(1, 4 if tier == "quick" else 5):
        for seq in itertools.product(range(len(cpool)), repeat=n):
            if len(set(seq)) < n:
                continue
            stream = [cpool[i] for i in seq]
            for b in (1, 2, 100):
                yield {"runs": [enc_spans(stream), enc_spans(stream)], "batch": b, "clean_between": True}
    # duplicates across runs: every split point of every stream of length <= 3 (quick) / 4 (thorough)
    m = 3 if tier == "quick" else 4
    for n in range(2, m + 1):
        for seq in itertools.product(range(len(pool)), repeat=n):
            stream = [pool[i] for i in seq]
            for cut in range(1, n):
                for b in (1, 2, 100):
                    yield {"runs": [enc_spans(stream[:cut]), enc_spans(stream[cut:])], "batch": b}


# ============================================================================= C11: cleaning
def store_from(stream: list[Span], batch: int, tb: int, uri: str = "sqlite:///:memory:") -> Any:
    dh = new_holder(uri, batch, tb)
    ingest(dh, stream)
    return dh


def pv_sequences(dh: Any, filt: Any = None) -> dict[str, dict[str, list[Any]]]:
    """PV sequences per workflow name and trace, through the real streaming + sequencing code"""
    from tel2puml.otel_to_pv.sequence_otel import sequence_otel_job_id_streams
    out: dict[str, dict[str, list[Any]]] = {}
    for job_name, job_streams in dh.stream_data(filt):
        for pv_stream in sequence_otel_job_id_streams(job_streams):
            evs = list(pv_stream)
            if evs:
                out.setdefault(job_name, {})[evs[0]["jobId"]] = sorted(
                    (e["eventId"], e["eventType"], e["timestamp"], tuple(sorted(e["previousEventIds"])), e["jobName"], e["applicationName"]) for e in evs)
    return out


def run_c11(case: dict[str, Any]) -> dict[str, Any]:
    """case: {"spans": [...], "batch": b, "time_buffer": tb}"""
    if "rounds" in case:
        return run_c11_rounds(case)
    if case.get("entry"):
        return run_c11_entry(case)
    stream = dec_spans(case["spans"])
    b, tb = case["batch"], case["time_buffer"]
    viol: list[dict[str, Any]] = []
    nontrivial: list[str] = []
    dh = store_from(stream, b, tb)
    try:
        v0 = view(dh)
        if wf(v0):
            return {"violations": [{"key": "ingest/ensures.WF", "what": "; ".join(wf(v0)), "case": case}]}
        # --- remove_inconsistent_jobs (skipped in the cases that exercise the window step alone on a store with dangling parents)
        if not case.get("skip_inconsistent"):
            try:
                dh.remove_inconsistent_jobs()
            except Exception as e:  # noqa: BLE001
                return {"violations": [{"key": f"remove_inconsistent_jobs/no_raise.{type(e).__name__}", "what": str(e)[:300], "case": case}]}
        v1 = view(dh)
        want1 = v0["nodes"] if case.get("skip_inconsistent") else spec_remove_inconsistent(v0["nodes"])
        if v1["nodes"] != want1:
            viol.append({"key": "remove_inconsistent_jobs/ensures.exactly_broken_traces",
                         "what": f"left {sorted(v1['nodes'])} expected {sorted(want1)}", "case": case})
        if wf(v1):
            viol.append({"key": "remove_inconsistent_jobs/ensures.WF", "what": "; ".join(wf(v1)), "case": case})
        if len(want1) < len(v0["nodes"]):
            nontrivial.append("broken")
        # --- remove_jobs_outside_of_time_window
        if stream:
            lo, hi = min(s.start for s in stream), max(s.end for s in stream)
        else:
            lo, hi = 0, 9223372036854775807
        w = spec_window(lo, hi, tb * MIN)
        raised = None
        try:
            dh.remove_jobs_outside_of_time_window()
        except ValueError as e:
            raised = e
        except Exception as e:  # noqa: BLE001
            return {"violations": viol + [{"key": f"remove_jobs_outside_of_time_window/no_raise.{type(e).__name__}", "what": str(e)[:300], "case": case}]}
        if raised is not None:
            if w is not None:
                kind = "degenerate" if w[0] == w[1] else "nonempty"
                viol.append({"key": f"remove_jobs_outside_of_time_window/raises.only_if_window_empty.{kind}",
                             "what": f"ValueError although the buffered window [{w[0]}, {w[1]}] is not empty", "case": case})
            return {"violations": viol, "nontrivial": [json.dumps(case["spans"]) + f"|{b}|{tb}"] if nontrivial else []}
        if w is None:
            viol.append({"key": "remove_jobs_outside_of_time_window/raises.whenever_window_empty", "what": "no ValueError for an empty window", "case": case})
            return {"violations": viol}
        v2 = view(dh)
        want2 = spec_remove_outside(v1["nodes"], w)
        if v2["nodes"] != want2:
            viol.append({"key": "remove_jobs_outside_of_time_window/ensures.exactly_outside_traces",
                         "what": f"window {w}: left {sorted(v2['nodes'])} expected {sorted(want2)}", "case": case})
        if wf(v2):
            viol.append({"key": "remove_jobs_outside_of_time_window/ensures.WF", "what": "; ".join(wf(v2)), "case": case})
        if len(want2) < len(v1["nodes"]):
            nontrivial.append("outside")
        # --- update_job_names_by_root_span
        want3 = spec_rename(v2["nodes"])
        try:
            dh.update_job_names_by_root_span()
        except Exception as e:  # noqa: BLE001
            return {"violations": viol + [{"key": f"update_job_names_by_root_span/no_raise.{type(e).__name__}", "what": str(e)[:300], "case": case}]}
        v3 = view(dh)
        if want3 is not None:
            if v3["nodes"] != want3:
                d = sorted(k for k in want3 if v3["nodes"].get(k) != want3[k])
                viol.append({"key": "update_job_names_by_root_span/ensures.root_name_everywhere", "what": f"differs at {d}", "case": case})
            if want3 != v2["nodes"]:
                nontrivial.append("renamed")
        if v3["assoc"] != v2["assoc"]:
            viol.append({"key": "update_job_names_by_root_span/frame.assoc", "what": "association rows changed", "case": case})
        # --- differential clause: PV sequences of the untouched traces == those had the removed traces never been ingested
        # (a parent link that crosses traces is outside the property's domain - complete / dangling / misnamed traces - and makes the
        #  sequencer fail with KeyError on the parent's trace: observed, DESIGN I.3; such stores are used for the view-level clauses only)
        cross = any(s.parent in v0["nodes"] and v0["nodes"][s.parent].job_id != s.job_id for s in v0["nodes"].values() if s.parent is not None)
        if want3 is not None and not viol and not cross:
            try:
                got = pv_sequences(dh)
            except Exception as e:  # noqa: BLE001
                return {"violations": [{"key": f"stream_after_cleaning/no_raise.{type(e).__name__}", "what": str(e)[:300], "case": case}]}
            kept_ids = {s.job_id for s in v3["nodes"].values()}
            dh2 = store_from([s for s in stream if s.job_id in kept_ids], b, 0)
            try:
                dh2.update_job_names_by_root_span()
                ref = pv_sequences(dh2)
            finally:
                dispose(dh2)
            if got != ref:
                viol.append({"key": "cleaning/ensures.untouched_traces_sequence_as_if_alone", "what": f"{got} != {ref}"[:600], "case": case})
    finally:
        dispose(dh)
    key = json.dumps(case["spans"]) + f"|{b}|{tb}"
    return {"violations": viol, "nontrivial": [key] if nontrivial else [], "sample": case if len(nontrivial) >= 2 else None}


def run_c11_entry(case: dict[str, Any]) -> dict[str, Any]:
    """case: {"entry": True, "spans": [...], "batch": b, "time_buffer": tb, "unique": bool}: one run of the real entry point
    `otel_to_pv(config, ingest_data=True, find_unique_graphs=unique)` on a file-backed store; afterwards table `nodes` must be what the
    three cleaning operations give in the documented order - whatever the other options of the run are - and what is streamed must be
    traces of that table (all of them without the unique-graph filter)."""
    from tel2puml.otel_to_pv.otel_to_pv import otel_to_pv
    _, _, _, dm = _imports()
    stream = dec_spans(case["spans"])
    b, tb, unique = case["batch"], case["time_buffer"], bool(case.get("unique"))
    viol: list[dict[str, Any]] = []
    # what ingestion alone stores (the same real ingestion code, in memory)
    dh0 = store_from(stream, b, tb)
    try:
        v0 = view(dh0)
    finally:
        dispose(dh0)
    want = spec_remove_inconsistent(v0["nodes"])
    w = spec_window(min(s.start for s in stream), max(s.end for s in stream), tb * MIN) if stream else None
    want = spec_remove_outside(want, w) if w is not None else None
    want = spec_rename(want) if want is not None else None
    tmpdir = tempfile.mkdtemp(prefix="vstore_", dir="/dev/shm" if os.path.isdir("/dev/shm") else None)
    uri = f"sqlite:///{tmpdir}/store.db"
    try:
        os.makedirs(os.path.join(tmpdir, "data"))
        json.dump({"spans": [{"job_name": s.job_name, "job_id": s.job_id, "event_type": s.event_type, "event_id": s.event_id,
                              "start_timestamp": s.start, "end_timestamp": s.end, "application_name": s.app, "parent_event_id": s.parent}
                             for s in stream]}, open(os.path.join(tmpdir, "data", "spans.json"), "w"))
        if "temp_root_nodes" in dm.Base.metadata.tables:
            dm.Base.metadata.remove(dm.Base.metadata.tables["temp_root_nodes"])
        streamed: set[str] = set()
        try:
            for job_name, pv_streams in otel_to_pv(c15_config(tmpdir, uri, b, tb), ingest_data=True, find_unique_graphs=unique):
                for pv_stream in pv_streams:
                    streamed |= {e["jobId"] for e in pv_stream}
        except ValueError as e:
            if w is not None:
                viol.append({"key": "run/raises.only_if_window_empty", "what": f"ValueError although the window {w} is not empty: {e}"[:300], "case": case})
            return {"violations": viol}
        except Exception as e:  # noqa: BLE001
            return {"violations": [{"key": f"run/no_raise.{type(e).__name__}", "what": str(e)[:300], "case": case}]}
        v = view_of_uri(uri)
        if want is not None:
            if v["nodes"] != want:
                viol.append({"key": "run/ensures.nodes_cleaned_in_documented_order",
                             "what": f"unique={unique}, window {w}: table nodes holds {sorted(v['nodes'])}, cleaning prescribes {sorted(want)}"[:600], "case": case})
            kept = {s_.job_id for s_ in want.values()}
            if not streamed <= kept or (not unique and streamed != kept):
                viol.append({"key": "run/ensures.streams_the_cleaned_store", "what": f"unique={unique}: streamed {sorted(streamed)}, kept {sorted(kept)}", "case": case})
        if wf(v):
            viol.append({"key": "run/ensures.WF", "what": "; ".join(wf(v)), "case": case})
    finally:
        shutil.rmtree(tmpdir, ignore_errors=True)
    removed = want is not None and len(want) < len(v0["nodes"])
    key = "entry|" + json.dumps(case["spans"])[:300] + f"|{b}|{tb}|{unique}"
    return {"violations": viol, "nontrivial": [key] if removed else [], "sample": case if removed and unique else None}


def run_c11_rounds(case: dict[str, Any]) -> dict[str, Any]:
    """case: {"rounds": [[span, ...], [span, ...]], "batch": b, "time_buffer": tb}: ingest + clean, then ingest more into the SAME holder and
    clean again (the window of a cleaning is derived from everything this holder has saved so far)"""
    rounds = [dec_spans(r) for r in case["rounds"]]
    b, tb = case["batch"], case["time_buffer"]
    viol: list[dict[str, Any]] = []
    fresh = bool(case.get("fresh_holder"))      # a new run of the tool per round: a new holder on the same file-backed store
    tmpdir = tempfile.mkdtemp(prefix="vstore_", dir="/dev/shm" if os.path.isdir("/dev/shm") else None) if fresh else None
    uri = f"sqlite:///{tmpdir}/store.db" if fresh else "sqlite:///:memory:"
    dh = new_holder(uri, b, tb)
    saved: list[Span] = []
    try:
        for ri, stream in enumerate(rounds):
            if fresh and ri > 0:
                dispose(dh)
                dh = new_holder(uri, b, tb)
                saved = []                      # the window of a run is derived from what *this* run ingested
            ingest(dh, stream)
            saved += stream
            v0 = view(dh)
            try:
                dh.remove_inconsistent_jobs()
                v1 = view(dh)
                want1 = spec_remove_inconsistent(v0["nodes"])
                if v1["nodes"] != want1:
                    viol.append({"key": "remove_inconsistent_jobs/ensures.exactly_broken_traces",
                                 "what": f"round {ri}: left {sorted(v1['nodes'])} expected {sorted(want1)}", "case": case})
                w = spec_window(min(s.start for s in saved), max(s.end for s in saved), tb * MIN) if saved else None
                try:
                    dh.remove_jobs_outside_of_time_window()
                except ValueError:
                    if w is not None and w[0] < w[1]:
                        viol.append({"key": "remove_jobs_outside_of_time_window/raises.only_if_window_empty.nonempty",
                                     "what": f"round {ri}: ValueError although the window {w} is not empty", "case": case})
                    break
                if w is None:
                    break
                v2 = view(dh)
                want2 = spec_remove_outside(v1["nodes"], w)
                if v2["nodes"] != want2:
                    viol.append({"key": "remove_jobs_outside_of_time_window/ensures.exactly_outside_traces",
                                 "what": f"round {ri}, window {w}: left {sorted(v2['nodes'])} expected {sorted(want2)}", "case": case})
                if wf(v2):
                    viol.append({"key": "remove_jobs_outside_of_time_window/ensures.WF", "what": f"round {ri}: " + "; ".join(wf(v2)), "case": case})
                dh.update_job_names_by_root_span()
            except Exception as e:  # noqa: BLE001
                viol.append({"key": f"cleaning/no_raise.{type(e).__name__}", "what": f"round {ri}: {str(e)[:300]}", "case": case})
                break
            if viol:
                break
    finally:
        dispose(dh)
        if tmpdir:
            shutil.rmtree(tmpdir, ignore_errors=True)
    return {"violations": viol, "nontrivial": [json.dumps(case["rounds"]) + f"|{b}|{tb}|{fresh}"], "sample": None}


def trace_variants(tid: str, name: str) -> list[list[Span]]:
    """small traces: complete / dangling parent / inconsistent names, at several positions on the time grid"""
    out = []
    for (s0, e0) in [(0, 1), (2, 3), (4, 5), (0, 5), (1, 1), (3, 3)]:
        out.append([span(tid, 0, None, s0, e0, name=name)])
        out.append([span(tid, 0, None, s0, e0, name=name), span(tid, 1, f"{tid}.s0", s0, s0, name=name)])
    out.append([span(tid, 0, None, 1, 4, name=name), span(tid, 1, f"{tid}.s0", 2, 3, name="OTHER"), span(tid, 2, f"{tid}.s1", 2, 2, name="OTHER2")])
    out.append([span(tid, 0, None, 2, 3, name=name), span(tid, 1, f"{tid}.missing", 2, 3, name=name)])
    out.append([span(tid, 1, f"{tid}.missing", 0, 5, name=name)])
    out.append([span(tid, 0, None, 0, 0, name=name), span(tid, 1, f"{tid}.s0", 5, 5, name=name)])
    # a complete trace whose root carries the empty string as parent id (OTLP/JSON writes "parentSpanId": ""): it has no parent
    out.append([span(tid, 0, "", 2, 3, name=name), span(tid, 1, f"{tid}.s0", 2, 3, name=name)])
    # a broken trace whose spans carry several workflow names (names are only unified after the removal steps)
    out.append([span(tid, 0, None, 2, 3, name=name), span(tid, 1, f"{tid}.missing", 2, 3, name="OTHER"), span(tid, 2, f"{tid}.s0", 2, 2, name="OTHER2")])
    if tid != "A":
        # a span whose parent belongs to *another* trace (the parent id resolves in the store, not in the trace)
        for (s0, e0) in [(0, 0), (2, 3), (5, 5)]:
            out.append([span(tid, 0, None, s0, e0, name=name), span(tid, 1, "A.s0", s0, e0, name=name)])
    return out


def domain_c11(tier: str, rng: random.Random) -> Iterable[dict[str, Any]]:
    A, B, C = trace_variants("A", "W1"), trace_variants("B", "W1"), trace_variants("C", "W2")
    combos: list[list[Span]] = []
    for a in A:
        combos.append(a)
        for bb in B:
            combos.append(a + bb)
    if tier == "thorough":
        for a in A:
            for bb in B:
                for c in C:
                    combos.append(a + bb + c)
    else:
        for _ in range(150):
            combos.append(rng.choice(A) + rng.choice(B) + rng.choice(C))
    for spans in combos:
        order = list(spans)
        for tb in (0, 1, 2):
            yield {"spans": enc_spans(order), "batch": 100, "time_buffer": tb}
        rng.shuffle(order)
        yield {"spans": enc_spans(order), "batch": 2, "time_buffer": 1}
        if any(s.parent is not None and s.parent not in {t.event_id for t in spans} for s in spans):
            yield {"spans": enc_spans(spans), "batch": 100, "time_buffer": 1, "skip_inconsistent": True}
    # the same through the real entry point: every option combination of a run must leave the documented cleaning behind
    for spans in combos[::6]:
        cross = any(s.parent is not None and s.parent in {t.event_id for t in spans} and s.job_id != next(t.job_id for t in spans if t.event_id == s.parent) for s in spans)
        if cross or not spans:
            continue    # the sequencer fails on parent links that cross traces (outside the domain, DESIGN I.3)
        for tb in (0, 1, 2):
            for unique in (False, True):
                yield {"entry": True, "spans": enc_spans(spans), "batch": 100, "time_buffer": tb, "unique": unique}
    # ... with data at both ends of the time axis only (nothing inside the buffered window) and one trace inside
    ends = [span("E", 0, None, 0, 0, name="W1"), span("E", 1, "E.s0", 0, 0, name="W1"), span("L", 0, None, 9, 9, name="W1")]
    for extra in ([], [span("M", 0, None, 4, 5, name="W1"), span("M", 1, "M.s0", 4, 5, name="W1")]):
        for unique in (False, True):
            yield {"entry": True, "spans": enc_spans(ends + extra), "batch": 100, "time_buffer": 2, "unique": unique}
    # two rounds on one holder: the second round's spans lie later (or earlier) than everything of the first round
    later = [s._replace(job_id="L" + s.job_id, event_id="L" + s.event_id, parent=None if s.parent is None else "L" + s.parent,
                        start=s.start + 10 * MIN, end=s.end + 10 * MIN) for s in chain("A", 2, "W1") + chain("B", 3, "W1", True)]
    earlier = [s._replace(job_id="E" + s.job_id, event_id="E" + s.event_id, parent=None if s.parent is None else "E" + s.parent,
                          start=s.start - 10 * MIN, end=s.end - 10 * MIN) for s in chain("A", 2, "W2")]
    for first in combos[:40:4]:
        for second in (later, earlier, later + earlier):
            for tb in (0, 1):
                yield {"rounds": [enc_spans(first), enc_spans(second)], "batch": 100, "time_buffer": tb}
                yield {"rounds": [enc_spans(first), enc_spans(second)], "batch": 100, "time_buffer": tb, "fresh_holder": True}


# ============================================================================= C12: streaming
def run_c12(case: dict[str, Any]) -> dict[str, Any]:
    """case: {"spans": [...], "batch": b, "filter": None | {name: [trace ids]}}"""
    stream = dec_spans(case["spans"])
    b = case["batch"]
    filt = None if case.get("filter") is None else {k: set(v) for k, v in case["filter"].items()}
    viol: list[dict[str, Any]] = []
    dh = store_from(stream, b, 0)
    try:
        v = view(dh)
        names_seen: list[str] = []
        traces_seen: list[tuple[str, str]] = []
        got: dict[tuple[str, str], list[Any]] = {}
        try:
            for job_name, job_streams in dh.stream_data(filt):
                names_seen.append(job_name)
                for job_stream in job_streams:
                    evs = list(job_stream)
                    tids = {e.job_id for e in evs}
                    if len(tids) != 1:
                        viol.append({"key": "stream_data/ensures.one_trace_per_group", "what": f"group mixes traces {sorted(tids)}", "case": case})
                        continue
                    tid = next(iter(tids))
                    traces_seen.append((job_name, tid))
                    got.setdefault((job_name, tid), []).extend(evs)
        except Exception as e:  # noqa: BLE001
            return {"violations": [{"key": f"stream_data/no_raise.{type(e).__name__}", "what": str(e)[:300], "case": case}]}
        # expected partition of the view: by workflow name, then trace
        want: dict[tuple[str, str], list[Span]] = {}
        for s in v["nodes"].values():
            if filt is not None and filt and not (s.job_name in filt and s.job_id in filt[s.job_name]):
                continue
            want.setdefault((s.job_name, s.job_id), []).append(s)
        if len(set(names_seen)) != len(names_seen):
            viol.append({"key": "stream_data/ensures.each_name_once", "what": f"names {names_seen}", "case": case})
        if len(set(traces_seen)) != len(traces_seen):
            viol.append({"key": "stream_data/ensures.each_trace_once", "what": f"traces {traces_seen}", "case": case})
        if set(got) != set(want):
            viol.append({"key": "stream_data/ensures.exactly_the_stored_traces", "what": f"streamed {sorted(got)} stored {sorted(want)}", "case": case})
        kids: dict[str, set[str]] = {}
        for (p, c) in v["assoc"]:
            kids.setdefault(p, set()).add(c)
        for k in set(got) & set(want):
            g = sorted((e.event_id, e.job_name, e.job_id, e.event_type, e.start_timestamp, e.end_timestamp, e.application_name, e.parent_event_id,
                        tuple(sorted(e.child_event_ids or []))) for e in got[k])
            w = sorted((s.event_id, s.job_name, s.job_id, s.event_type, s.start, s.end, s.app, s.parent, tuple(sorted(kids.get(s.event_id, set()))))
                       for s in want[k])
            if [x[:8] for x in g] != [x[:8] for x in w]:
                viol.append({"key": "stream_data/ensures.all_spans_of_the_trace", "what": f"trace {k}: {[x[0] for x in g]} vs {[x[0] for x in w]}", "case": case})
            elif g != w:
                viol.append({"key": "stream_data/ensures.child_links", "what": f"trace {k}: {[(x[0], x[8]) for x in g]} vs {[(x[0], x[8]) for x in w]}",
                             "case": case})
    finally:
        dispose(dh)
    key = json.dumps(case["spans"]) + f"|{b}|{json.dumps(case.get('filter'), sort_keys=True)}"
    multi = len({s.job_id for s in stream}) > 1
    return {"violations": viol, "nontrivial": [key] if multi else [], "sample": case if multi and len(stream) >= 6 else None}


def chain(tid: str, n: int, name: str, bushy: bool = False) -> list[Span]:
    out = [span(tid, 0, None, 0, n, name=name)]
    for i in range(1, n):
        parent = f"{tid}.s0" if bushy else f"{tid}.s{i - 1}"
        out.append(span(tid, i, parent, i, i, name=name))
    return out


def domain_c12(tier: str, rng: random.Random) -> Iterable[dict[str, Any]]:
    sizes = [1, 2, 3, 4, 7] if tier == "quick" else [1, 2, 3, 4, 5, 7, 9]
    batches = [1, 2, 3, 4, 5, 1000]
    layouts = []
    for na in sizes:
        for nb in sizes[:4]:
            layouts.append([("A", na, "W1", False), ("B", nb, "W1", True)])
            layouts.append([("A", na, "W2", True), ("B", nb, "W1", False), ("C", 1, "W1", False)])
    if tier == "quick":
        layouts = layouts[::2]
    # one trace id occurring under two workflow names (span ids differ): the unit of streaming is the (name, trace id) pair
    shared = []
    for n1, n2 in [(1, 1), (2, 3), (3, 2)]:
        sp = chain("A", n1, "W1") + [s._replace(job_id="A", event_id="x" + s.event_id, parent=None if s.parent is None else "x" + s.parent)
                                     for s in chain("A", n2, "W2", True)] + chain("B", 2, "W2")
        shared.append(sp)
    # workflow names that differ only in capitalisation, with interleaving trace ids (any collation of the ORDER BY other than the one
    # the grouping compares with breaks the runs)
    shared.append(chain("A", 2, "Checkout") + chain("B", 2, "checkout") + chain("C", 3, "Checkout", True) + chain("D", 1, "checkout") + chain("E", 2, "payment"))
    # span ids that contain separators (comma, space, empty-looking)
    shared.append([s._replace(event_id=s.event_id.replace(".", ","), parent=None if s.parent is None else s.parent.replace(".", ","))
                   for s in chain("A", 4, "W1", True) + chain("B", 3, "W1")] + chain("C", 2, "W2"))
    for sp in shared:
        for b in batches:
            yield {"spans": enc_spans(sp), "batch": b, "filter": None}
            for f in ({"W1": ["A"], "W2": ["A"]}, {"W1": ["A"]}, {"W2": ["A"]}, {"W1": ["A"], "W2": ["A", "B"]}, {"W2": ["B"], "W1": ["A"]}):
                yield {"spans": enc_spans(sp), "batch": b, "filter": f}
    for lay in layouts:
        spans = [s for (tid, n, name, bushy) in lay for s in chain(tid, n, name, bushy)]
        inter = list(spans)
        rng.shuffle(inter)
        for order in (spans, inter):
            for b in batches:
                yield {"spans": enc_spans(order), "batch": b, "filter": None}
            names = sorted({s.job_name for s in spans})
            by_name = {n: sorted({s.job_id for s in spans if s.job_name == n}) for n in names}
            filters = [dict(by_name),                                            # everything, keyed correctly (total = number of traces)
                       {names[0]: by_name[names[0]][:1]},                        # one trace of the first name
                       {n: ids[:1] for n, ids in by_name.items()},               # one trace per name
                       {names[0]: by_name[names[0]], **{n: [] for n in names[1:]}},  # an empty id set for the other names
                       {names[0]: ["A", "B", "C", "nope"]}]                      # ids that are not stored / belong to another name
            for b in batches[:-1] if order is spans else (2, 3):
                for f in filters:
                    yield {"spans": enc_spans(order), "batch": b, "filter": f}


# ============================================================================= C09: unique graph selection
def run_c09(case: dict[str, Any]) -> dict[str, Any]:
    """case: {"spans": [...], "batch": b, "time_buffer": tb (optional; with it the window step of the cleaning runs first, as in otel_to_pv)}"""
    stream = dec_spans(case["spans"])
    b = case["batch"]
    viol: list[dict[str, Any]] = []
    dh = store_from(stream, b, case.get("time_buffer", 0))
    try:
        if case.get("time_buffer"):
            # "among the stored traces": the selection runs on what the cleaning left, with the same buffered window
            try:
                dh.remove_jobs_outside_of_time_window()
            except Exception as e:  # noqa: BLE001
                return {"violations": [{"key": f"remove_jobs_outside_of_time_window/no_raise.{type(e).__name__}", "what": str(e)[:300], "case": case}]}
        if case.get("spans2"):
            # the selection was already run once on an earlier state of the store; spans that arrive afterwards must count
            try:
                dh.find_unique_graphs()
                _, _, _, dm = _imports()
                if "temp_root_nodes" in dm.Base.metadata.tables:   # a later run is a new process: it would not have the table object (emulation artefact)
                    dm.Base.metadata.remove(dm.Base.metadata.tables["temp_root_nodes"])
                ingest(dh, dec_spans(case["spans2"]))
            except Exception as e:  # noqa: BLE001
                return {"violations": [{"key": f"find_unique_graphs/no_raise.{type(e).__name__}", "what": "first selection / late ingestion: " + str(e)[:300],
                                        "case": case}]}
        v = view(dh)
        try:
            sel = dh.find_unique_graphs()
        except Exception as e:  # noqa: BLE001
            return {"violations": [{"key": f"find_unique_graphs/no_raise.{type(e).__name__}", "what": str(e)[:300], "case": case}]}
        # shape classes per workflow name (name of the root span), over traces that have a root
        classes: dict[str, dict[Any, list[str]]] = {}
        for tid, spans in traces(v["nodes"]).items():
            roots = [s for s in spans if s.parent is None]
            for r in roots:
                classes.setdefault(r.job_name, {}).setdefault(shape_of_root(r, v["nodes"]), []).append(tid)
        for name, cl in classes.items():
            chosen = sel.get(name, set())
            for shp, tids in cl.items():
                hit = [t for t in tids if t in chosen]
                if len(hit) == 0:
                    fam = "concat-collision" if looks_like_hash_suffix(shp) else "plain"
                    viol.append({"key": f"find_unique_graphs/ensures.every_shape_represented.{fam}", "what": f"{name}: shape {shp} (traces {tids}) has no selected trace; "
                                 f"selected {sorted(chosen)}", "case": case})
                elif len(hit) > 1:
                    viol.append({"key": "find_unique_graphs/ensures.one_per_shape", "what": f"{name}: traces {hit} of one shape all selected", "case": case})
        for name, chosen in sel.items():
            allowed = {t for tids in classes.get(name, {}).values() for t in tids}
            if not set(chosen) <= allowed:
                viol.append({"key": "find_unique_graphs/ensures.only_stored_traces", "what": f"{name}: {sorted(set(chosen) - allowed)}", "case": case})
    finally:
        dispose(dh)
    nshapes = len({shape(t, v["nodes"]) for t in traces(v["nodes"])})
    key = json.dumps(sorted(str(shape(t, v["nodes"])) for t in traces(v["nodes"]))) + f"|{b}"
    return {"violations": viol, "nontrivial": [key] if len(traces(v["nodes"])) > nshapes or nshapes > 1 else [],
            "sample": case if len(traces(v["nodes"])) > nshapes > 1 else None}


def shape_of_root(r: Span, nodes: dict[str, Span]) -> Any:
    spans = [s for s in nodes.values() if s.job_id == r.job_id]
    kids: dict[str, list[Span]] = {}
    for s in spans:
        if s.parent is not None:
            kids.setdefault(s.parent, []).append(s)

    def canon(s: Span, depth: int = 0) -> Any:
        return (s.event_type, tuple(sorted(canon(c, depth + 1) for c in kids.get(s.event_id, []))) if depth < 50 else ())
    return canon(r)


def looks_like_hash_suffix(shp: Any) -> bool:
    """the known-finding family D6: an event type that ends in 16 lower-case hex characters (= a child digest glued on)"""
    import re

    def walk(x: Any) -> bool:
        t, kids = x
        return bool(re.search(r"[0-9a-f]{16}$", t)) or any(walk(k) for k in kids)
    return walk(shp)


def tree_shapes(n: int, labels: str) -> Iterable[tuple[tuple[int | None, ...], tuple[str, ...]]]:
    for par in itertools.product(*[range(i) for i in range(1, n)]):
        for lab in itertools.product(labels, repeat=n):
            yield (None,) + tuple(par), lab


def tree_spans(tid: str, par: tuple[int | None, ...], lab: tuple[str, ...], name: str, order: list[int] | None = None) -> list[Span]:
    n = len(par)
    out = [span(tid, i, None if par[i] is None else f"{tid}.s{par[i]}", i, i + 1, etype=lab[i], name=name) for i in range(n)]
    return [out[i] for i in order] if order else out


def domain_c09(tier: str, rng: random.Random) -> Iterable[dict[str, Any]]:
    import xxhash
    shapes = [t for n in (1, 2, 3) for t in tree_shapes(n, "AB")]
    if tier == "thorough":
        shapes += [t for t in tree_shapes(4, "AB")][::3]
    batches = [1, 2, 3, 1000]
    # all pairs of small shapes under one name (same / different shape), in both ingestion orders
    pairs = list(itertools.combinations_with_replacement(range(len(shapes)), 2))
    if tier == "quick":
        rng.shuffle(pairs)
        pairs = pairs[:400]
    for (i, j) in pairs:
        a = tree_spans("T1", *shapes[i], name="W1")
        perm = list(range(len(shapes[j][0])))
        rng.shuffle(perm)
        bsp = tree_spans("T2", *shapes[j], name="W1", order=perm)
        c = tree_spans("T3", *shapes[rng.randrange(len(shapes))], name="W2")
        for b in batches:
            yield {"spans": enc_spans(a + bsp + c), "batch": b}
        mixed = a + bsp + c
        rng.shuffle(mixed)
        yield {"spans": enc_spans(mixed), "batch": 2}
        if len(a) >= 2:   # the last span of T1 (a leaf) arrives after a first selection has been made
            for b in (2, 1000):
                yield {"spans": enc_spans(a[:-1] + bsp + c), "spans2": enc_spans(a[-1:]), "batch": b}
    # repeated identical sub-trees (multiplicity must count) and deeper random trees
    for k in range(60 if tier == "quick" else 400):
        n = rng.randrange(3, 7)
        par = (None,) + tuple(rng.randrange(0, i) for i in range(1, n))
        lab = tuple(rng.choice("AB") for _ in range(n))
        a = tree_spans("T1", par, lab, "W1")
        # same shape with siblings listed in another order and other ids / a variant with one leaf duplicated
        perm = list(range(n))
        rng.shuffle(perm)
        bsp = tree_spans("T2", par, lab, "W1", order=perm)
        leaf = max(range(n), key=lambda i: (i not in par, i))
        par2, lab2 = par + (par[leaf] if par[leaf] is not None else 0,), lab + (lab[leaf],)
        c = tree_spans("T3", par2, lab2, "W1")
        yield {"spans": enc_spans(a + bsp + c), "batch": rng.choice(batches)}
    # instantaneous single-span traces that are the first / the last event of the data (they sit exactly on the bounds of the window)
    mid = tree_spans("T1", (None, 0), ("A", "B"), "W1") + tree_spans("T2", (None, 0, 0), ("A", "B", "B"), "W1")
    first = [span("Z0", 0, None, 0, 0, etype="Startup", name="W1")]
    last = [span("Z9", 0, None, 9, 9, etype="Shutdown", name="W1"), span("Z9", 1, "Z9.s0", 9, 9, etype="Flush", name="W1")]
    for b in (1, 2, 1000):
        yield {"spans": enc_spans(first + mid + last), "batch": b}
        yield {"spans": enc_spans(first), "batch": b}
    # a buffered window (time_buffer 1 minute over data spread over 0..9): traces that the cleaning keeps because *some* span starts or
    # ends inside the window although the trace itself starts in the leading buffer zone and / or ends in the trailing one - each
    # with a shape of its own: root over everything with a child inside, root and first child early with a late grandchild inside, ...
    inside = tree_spans("T1", (None, 0), ("A", "B"), "W1") + tree_spans("T2", (None, 0, 0), ("A", "B", "B"), "W1")
    inside = [s_._replace(start=T0 + 4 * MIN, end=T0 + 5 * MIN) for s_ in inside]
    edge = [span("E0", 0, None, 0, 0, etype="first", name="W1"), span("E9", 0, None, 9, 9, etype="last", name="W1")]
    longs = {
        "over_with_child_inside": [span("L", 0, None, 0, 9, etype="long", name="W1"), span("L", 1, "L.s0", 3, 4, etype="work", name="W1")],
        "over_children_in_zones_and_inside": [span("L", 0, None, 0, 9, etype="long", name="W1"), span("L", 1, "L.s0", 0, 0, etype="early", name="W1"),
                                              span("L", 2, "L.s0", 5, 5, etype="work", name="W1"), span("L", 3, "L.s0", 9, 9, etype="late", name="W1")],
        "starts_early_ends_inside": [span("L", 0, None, 0, 4, etype="long", name="W1"), span("L", 1, "L.s0", 0, 0, etype="early", name="W1")],
        "starts_inside_ends_late": [span("L", 0, None, 5, 9, etype="long", name="W1"), span("L", 1, "L.s0", 9, 9, etype="late", name="W1")],
        "over_nothing_inside": [span("L", 0, None, 0, 9, etype="long", name="W1"), span("L", 1, "L.s0", 0, 0, etype="early", name="W1")],
        "other_name": [span("L", 0, None, 0, 9, etype="long", name="W2"), span("L", 1, "L.s0", 4, 4, etype="work", name="W2"),
                       span("M", 0, None, 0, 9, etype="long", name="W2"), span("M", 1, "M.s0", 5, 5, etype="work", name="W2")],
    }
    for nm, lg in longs.items():
        for b in (1, 2, 1000):
            yield {"spans": enc_spans(edge + inside + lg), "batch": b, "time_buffer": 1}
        yield {"spans": enc_spans(lg + inside + edge), "batch": 3, "time_buffer": 1}
    # three large traces of one shape (a root with 3999 leaves each): more rows per root batch than any fetch size used internally
    big = []
    for k in range(3):
        big += [span(f"L{k}", 0, None, 0, 1, etype="root", name="W1")] + [span(f"L{k}", i, f"L{k}.s0", 0, 1, etype="leaf", name="W1") for i in range(1, 4000)]
    for b in (1, 1000):
        yield {"spans": enc_spans(big), "batch": b}
    # the documented collision family (known finding D6): parent type + child digest glued together
    glued = "A" + xxhash.xxh64_hexdigest("B")
    yield {"spans": enc_spans(tree_spans("T1", (None, 0), ("A", "B"), "W1") + tree_spans("T2", (None,), (glued,), "W1")), "batch": 1000}


# ============================================================================= C15: histories over a persisted store
def c15_config(tmpdir: str, uri: str, batch: int, tb: int) -> Any:
    from tel2puml.otel_to_pv.config import load_config_from_dict
    fm = {f: {"key_paths": [f"spans.[].{f}"], "value_type": "string"} for f in
          ("job_name", "job_id", "event_type", "event_id", "start_timestamp", "end_timestamp", "application_name", "parent_event_id")}
    fm["child_event_ids"] = {"key_paths": ["spans.[].child_event_ids"], "value_type": "array"}
    return load_config_from_dict({
        "ingest_data": {"data_source": "json", "data_holder": "sql"},
        "data_holders": {"sql": {"db_uri": uri, "batch_size": batch, "time_buffer": tb}},
        "data_sources": {"json": {"dirpath": os.path.join(tmpdir, "data"), "filepath": None, "json_per_line": False, "field_mapping": fm}},
    })


def view_of_uri(uri: str) -> dict[str, Any]:
    import sqlalchemy as sa

    class _H:
        pass
    h = _H()
    h.engine = sa.create_engine(uri)
    try:
        return view(h)
    finally:
        h.engine.dispose()


def run_c15(case: dict[str, Any]) -> dict[str, Any]:
    """case: {"spans": [...], "batch": b, "history": [[ingest: bool, unique: bool], ...], "time_buffer": tb}
    Every run is a call of the real entry point `otel_to_pv(config, ingest_data, find_unique_graphs)` on one file-backed
    store (JSON data source -> SQL data holder -> cleaning -> optional unique graphs -> streaming + sequencing).
    Run k must terminate and give the same PV sequences / selected shapes as the first run with the same flags."""
    from tel2puml.otel_to_pv.otel_to_pv import otel_to_pv
    _, _, _, dm = _imports()
    stream = dec_spans(case["spans"])
    b = case["batch"]
    tb = case.get("time_buffer", 0)
    tmpdir = tempfile.mkdtemp(prefix="vstore_", dir="/dev/shm" if os.path.isdir("/dev/shm") else None)
    uri = f"sqlite:///{tmpdir}/store.db"
    viol: list[dict[str, Any]] = []
    first: dict[tuple[bool], Any] = {}
    try:
        os.makedirs(os.path.join(tmpdir, "data"))
        json.dump({"spans": [{"job_name": s.job_name, "job_id": s.job_id, "event_type": s.event_type, "event_id": s.event_id,
                              "start_timestamp": s.start, "end_timestamp": s.end, "application_name": s.app, "parent_event_id": s.parent}
                             for s in stream]}, open(os.path.join(tmpdir, "data", "spans.json"), "w"))
        # the store is created by a first ingesting run
        hist = [[True, case["history"][0][1]]] + [list(h) for h in case["history"][1:]]
        for k, (do_ingest, unique) in enumerate(hist):
            if "temp_root_nodes" in dm.Base.metadata.tables:   # a new process would not have it (in-process emulation of a new run)
                dm.Base.metadata.remove(dm.Base.metadata.tables["temp_root_nodes"])
            cfg = c15_config(tmpdir, uri, b, tb)
            try:
                pv: dict[str, dict[str, list[Any]]] = {}
                for job_name, pv_streams in otel_to_pv(cfg, ingest_data=do_ingest, find_unique_graphs=unique):
                    for pv_stream in pv_streams:
                        evs = list(pv_stream)
                        if evs:
                            pv.setdefault(job_name, {})[evs[0]["jobId"]] = sorted(
                                (e["eventId"], e["eventType"], e["timestamp"], tuple(sorted(e["previousEventIds"])), e["jobName"]) for e in evs)
                v = view_of_uri(uri)
            except Exception as e:  # noqa: BLE001
                fam = "degenerate-window" if "time buffer is too large" in str(e) and len({s.start for s in stream} | {s.end for s in stream}) <= 1 else type(e).__name__
                viol.append({"key": f"run/no_raise.{fam}", "what": f"run {k} (ingest={do_ingest}, unique={unique}) raised "
                             f"{type(e).__name__}: {str(e)[:200]}", "case": case})
                break
            bad = wf(v)
            if bad:
                viol.append({"key": "run/ensures.WF", "what": f"after run {k}: " + "; ".join(bad), "case": case})
            if unique:
                # which representative of a shape is chosen may legitimately differ; the shapes per workflow name may not
                obs: Any = {n: sorted(str(shape(t, v["nodes"])) for t in d) for n, d in pv.items()}
            else:
                obs = pv
            if (unique,) not in first:
                first[(unique,)] = obs
            elif first[(unique,)] != obs:
                viol.append({"key": "run/ensures.same_answer_as_first_run", "what": f"run {k} (ingest={do_ingest}, unique={unique}) differs from the first "
                             f"run with unique={unique}: {str(obs)[:200]} vs {str(first[(unique,)])[:200]}", "case": case})
    finally:
        shutil.rmtree(tmpdir, ignore_errors=True)
    key = json.dumps(case["history"]) + "|" + json.dumps(case["spans"])[:200] + f"|{b}|{tb}"
    return {"violations": viol, "nontrivial": [key] if len(case["history"]) > 1 else [], "sample": case if len(case["history"]) > 2 else None}


def domain_c15(tier: str, rng: random.Random) -> Iterable[dict[str, Any]]:
    stores = []
    a = chain("A", 3, "W1") + chain("B", 3, "W1", True) + chain("C", 2, "W2")
    stores.append(a)
    stores.append(chain("A", 2, "W1") + [span("B", 0, None, 1, 2, name="W1"), span("B", 1, "B.gone", 1, 2, name="W1")] + chain("C", 3, "W1"))
    stores.append(chain("A", 1, "W1"))
    stores.append(chain("A", 3, "W1") + chain("B", 3, "W1") + [span("D", 1, "D.missing", 0, 9, name="W2")])
    # a broken trace one of whose spans hangs under a span of a *kept* trace (the association row crosses traces)
    stores.append(chain("A", 2, "W1") + [span("B", 0, None, 1, 2, name="W1"), span("B", 1, "B.gone", 1, 2, name="W1"), span("B", 2, "A.s0", 1, 2, name="W1")])
    # traces far apart in time, the broken one in the middle (what a re-ingestion sees of the time axis must not depend on what is stored)
    def at(spans: list[Span], m: int) -> list[Span]:
        return [s_._replace(start=s_.start + m * MIN, end=s_.end + m * MIN) for s_ in spans]
    stores.append(at(chain("A", 2, "W1"), 0) + at([span("B", 0, None, 0, 1, name="W1"), span("B", 1, "B.gone", 0, 1, name="W1")], 10)
                  + at(chain("C", 3, "W1", True), 20))
    flags = [[i, u] for i in (True, False) for u in (True, False)]
    maxlen = 3 if tier == "quick" else 4
    # a store spread over six minutes with a one-minute buffer: the first (ingesting) run trims the traces lying in the
    # buffer zones; later runs must neither trim further nor fail
    spread = [s for k, tid in enumerate("ABCDEF") for s in [span(tid, 0, None, k, k, name="W1"), span(tid, 1, f"{tid}.s0", k, k, name="W1")]]
    # ... and the same with a trace that starts in the leading buffer zone and ends in the trailing one (no span boundary inside the window)
    long_ = spread + [span("L", 0, None, 0, 5, name="W1", etype="long"), span("L", 1, "L.s0", 0, 0, name="W1", etype="long-child")]   # a shape of its own
    for n in range(2, maxlen + 1):
        for hist in itertools.product(flags, repeat=n):
            yield {"spans": enc_spans(spread), "batch": 1000, "history": [list(h) for h in hist], "time_buffer": 1}
            if n <= 3:
                yield {"spans": enc_spans(long_), "batch": 1000, "history": [list(h) for h in hist], "time_buffer": 1}
    for st in stores:
        for n in range(1, maxlen + 1):
            for hist in itertools.product(flags, repeat=n):
                if n == maxlen and tier == "quick" and rng.random() < 0.5:
                    continue
                yield {"spans": enc_spans(st), "batch": rng.choice([1, 2, 1000]), "history": [list(h) for h in hist]}
    # a store large enough for the duplicate filter to look up several hundred ids at once: re-ingestion with a last batch of 501 ids
    # (1501 spans, batch 1000) and one of 1001 ids (1001 spans, batch 2000)
    def many(n_traces: int, extra: int) -> list[Span]:
        out_: list[Span] = []
        for t in range(n_traces):
            tid = f"M{t}"
            out_ += [span(tid, 0, None, 0, 3, name="W1", etype="r"), span(tid, 1, f"{tid}.s0", 1, 2, name="W1", etype=f"c{t % 3}"),
                     span(tid, 2, f"{tid}.s0", 2, 3, name="W1", etype="d")]
        return out_ + [span(f"X{k}", 0, None, 1, 2, name="W2", etype="single") for k in range(extra)]
    for spans_, b in ((many(500, 1), 1000), (many(333, 2), 2000)):
        for hist in ([[True, False], [True, False]], [[True, True], [True, True], [False, True]]):
            yield {"spans": enc_spans(spans_), "batch": b, "history": hist}
    # a span delivered twice in a row (an exporter retry): both copies in one batch / split over two batches
    rep = chain("A", 3, "W1")
    rep = rep[:2] + [rep[1]] + rep[2:] + chain("B", 2, "W1")
    for n in range(2, maxlen + 1):
        for hist in itertools.product(flags, repeat=n):
            for b in (1000, 2):
                yield {"spans": enc_spans(rep), "batch": b, "history": [list(h) for h in hist]}


MODES = {"c10": (run_c10, domain_c10), "c11": (run_c11, domain_c11), "c12": (run_c12, domain_c12), "c09": (run_c09, domain_c09),
         "c15": (run_c15, domain_c15)}


def _work(args: tuple[str, dict[str, Any]]) -> dict[str, Any]:
    mode, case = args
    return guard(MODES[mode][0], case)


def main() -> int:
    ap = argparse.ArgumentParser()
    ap.add_argument("--mode", required=True, choices=sorted(MODES))
    ap.add_argument("--tier", default="quick")
    ap.add_argument("--seed", type=int, default=0)
    ap.add_argument("--repo", default="/repo")
    ap.add_argument("--replay", default="")
    ap.add_argument("--limit", type=int, default=0)
    a = ap.parse_args()
    import logging
    logging.disable(logging.CRITICAL)
    run, dom = MODES[a.mode]
    if a.replay:
        data = json.load(open(a.replay))
        res = guard(run, data["case"])
        print(json.dumps(res, indent=1, default=str)[:6000])
        hit = [v for v in res.get("violations", []) if v["key"] == data.get("key")] or res.get("violations", [])
        return 1 if hit else 0
    t0 = time.time()
    rng = random.Random(a.seed)
    cases = list(dom(a.tier, rng))
    if a.limit:
        cases = cases[:a.limit]
    bag = Bag()
    errors = []
    with Pool(min(16, os.cpu_count() or 4)) as pool:
        for res in pool.imap_unordered(_work, [(a.mode, c) for c in cases], chunksize=8):
            if res.get("harness_error"):
                errors.append(res["harness_error"])
                continue
            bag.add(res)
    out = {"mode": a.mode, "evaluations": bag.evaluations, "distinct_nontrivial": len(bag.nontrivial), "exhaustive": True,
           "samples": bag.samples, "violations": list(bag.violations.values()), "seconds": round(time.time() - t0, 1),
           "harness_errors": errors[:3], "n_harness_errors": len(errors)}
    print("BOUNDED-RESULT " + json.dumps(out, default=str))
    return 0


if __name__ == "__main__":
    sys.exit(main())
