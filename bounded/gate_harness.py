"""Bounded stand-in for C06 (labelled bounded; exhaustive in the property's own bound; never counted as proved).

Runtime contract on the real `tel2puml.logic_detection.calculate_logic_gates`:

    ensures  sound:  every observed successor set is admitted by the inferred tree
    ensures  exact:  when the observed sets are exactly the outcomes of a gate tree whose OR gates join only plain
                     events and none of whose AND gates has two OR children, the inferred tree admits exactly those

Operator semantics (of the generating tree and of the inferred tree alike):
    leaf e -> {{e}} ;  XOR -> one child's outcome ;  AND (+) -> union of one outcome per child ;
    OR -> union of one outcome per child of a non-empty subset of the children ; BRANCH/SEQUENCE with one child -> the child.

Domain (the property's quantifier): every gate tree over n distinct events, depth <= 3, operators alternating between
levels, children = blocks of a set partition of the events into >= 2 blocks: n <= 5 (quick and thorough), n = 6 (thorough),
each with its full outcome family.  In addition - because the first sentence of the property speaks of *the successor sets
observed*, not only of complete outcome families - `sound` is also checked on arbitrary families of non-empty subsets:
all 127 families over 3 events, a seeded sample of 4000 (thorough: all 32767) families over 4 events, and seeded *partial observations*
(sub-families of 3-9 outcomes) of every enumerated gate tree - 40 (thorough 100) per tree whose top gate is an OR over plain events and a
nested gate, 1 (4) per other tree - and 1500 (thorough 20000) random families over 5 events, 500 (6000) over 6.
And because an inference must be a function of the observed sets alone (no state carried from one event's inference to the next),
`sound` is re-checked for ~500 (thorough ~3300) families after / before an inference over a *counted* variant of the same family
(one event repeated in one set) in the same process.
The inductive miner (pm4py) is an external dependency with no contract.
"""
from __future__ import annotations

import argparse
import itertools
import json
import os
import sys
import time
import traceback
from typing import Any, Iterable

OPS = ("X", "+", "O")


def partitions(xs: tuple[str, ...]) -> Iterable[list[tuple[str, ...]]]:
    """all set partitions of xs (blocks keep the order of xs)"""
    if not xs:
        yield []
        return
    first, rest = xs[0], xs[1:]
    for part in partitions(rest):
        for i in range(len(part)):
            yield part[:i] + [(first,) + part[i]] + part[i + 1:]
        yield [(first,)] + part


def trees(xs: tuple[str, ...], depth: int, parent_op: str | None) -> Iterable[Any]:
    """gate trees over exactly the events xs with at most `depth` operator levels"""
    if len(xs) == 1:
        yield xs[0]
        return
    if depth == 0:
        return
    for op in OPS:
        if op == parent_op:
            continue
        for part in partitions(xs):
            if len(part) < 2:
                continue
            choices = [list(trees(b, depth - 1, op)) for b in part]
            if any(not c for c in choices):
                continue
            for combo in itertools.product(*choices):
                yield (op, tuple(combo))


def outcomes(t: Any) -> frozenset[frozenset[str]]:
    if isinstance(t, str):
        return frozenset([frozenset([t])])
    op, kids = t
    outs = [outcomes(k) for k in kids]
    if op == "X":
        return frozenset(o for os_ in outs for o in os_)
    if op == "+":
        return frozenset(frozenset().union(*combo) for combo in itertools.product(*outs))
    if op == "O":
        res = set()
        for r in range(1, len(outs) + 1):
            for sub in itertools.combinations(outs, r):
                for combo in itertools.product(*sub):
                    res.add(frozenset().union(*combo))
        return frozenset(res)
    raise ValueError(op)


def in_exact_subclass(t: Any) -> bool:
    """OR gates join only plain events; no AND gate has two OR children"""
    if isinstance(t, str):
        return True
    op, kids = t
    if op == "O" and any(not isinstance(k, str) for k in kids):
        return False
    if op == "+" and sum(1 for k in kids if not isinstance(k, str) and k[0] == "O") >= 2:
        return False
    return all(in_exact_subclass(k) for k in kids)


def from_process_tree(node: Any) -> Any:
    """the inferred pm4py ProcessTree as a gate tree in the notation above"""
    if node.operator is None:
        return node.label
    v = node.operator.value
    kids = tuple(from_process_tree(c) for c in node.children)
    if v in ("BR", "->") and len(kids) == 1:
        return kids[0]
    if v in OPS:
        return (v, kids) if len(kids) > 1 else kids[0]
    raise NotAGateTree(f"operator {v} with {len(kids)} children in an inferred tree")


class NotAGateTree(Exception):
    """the inferred tree contains an operator that is neither AND, OR, XOR nor a one-child BRANCH / SEQUENCE (e.g. the miner's loop): it is
    not a gate tree over successor sets, and the diagram generator has no reading for it"""


def show(t: Any) -> str:
    return t if isinstance(t, str) else f"{t[0]}({', '.join(show(k) for k in t[1])})"


def run_case(t: Any) -> dict[str, Any]:
    from tel2puml.events import EventSet
    from tel2puml.logic_detection import calculate_logic_gates
    obs = outcomes(t)
    case = {"tree": show(t), "observed": sorted(sorted(s) for s in obs)}
    viol = []
    try:
        res = calculate_logic_gates({EventSet(sorted(s)) for s in obs})
        got_tree = from_process_tree(res)
        got = outcomes(got_tree)
    except NotAGateTree as e:
        return {"violations": [{"key": "calculate_logic_gates/ensures.and_or_xor_tree", "what": str(e), "case": case}], "exact": False}
    except Exception as e:  # noqa: BLE001
        return {"violations": [{"key": f"calculate_logic_gates/no_raise.{type(e).__name__}", "what": f"{type(e).__name__}: {str(e)[:200]}", "case": case}], "exact": False}
    missing = [sorted(s) for s in obs if s not in got]
    if missing:
        viol.append({"key": "calculate_logic_gates/ensures.sound", "what": f"inferred {show(got_tree)} does not admit observed {missing[:3]}", "case": case})
    sub = in_exact_subclass(t)
    if sub and not missing and got != obs:
        extra = [sorted(s) for s in got if s not in obs]
        viol.append({"key": "calculate_logic_gates/ensures.exact", "what": f"inferred {show(got_tree)} also admits {extra[:3]}", "case": case})
    return {"violations": viol, "exact": sub, "sample": {**case, "inferred": show(got_tree)}}


def families(n: int) -> list[tuple[frozenset[str], ...]]:
    ev = "ABCD"[:n]
    subs = [frozenset(c) for r in range(1, n + 1) for c in itertools.combinations(ev, r)]
    return [f for r in range(1, len(subs) + 1) for f in itertools.combinations(subs, r)]


def run_family(fam: Any) -> dict[str, Any]:
    from tel2puml.events import EventSet
    from tel2puml.logic_detection import calculate_logic_gates
    case = {"family": sorted(sorted(s) for s in fam)}
    try:
        res = calculate_logic_gates({EventSet(sorted(s)) for s in fam})
        got_tree = from_process_tree(res)
        got = outcomes(got_tree)
    except NotAGateTree as e:
        return {"violations": [{"key": "calculate_logic_gates/ensures.and_or_xor_tree", "what": str(e), "case": case}], "exact": False}
    except Exception as e:  # noqa: BLE001
        return {"violations": [{"key": f"calculate_logic_gates/no_raise.{type(e).__name__}", "what": f"{type(e).__name__}: {str(e)[:200]}", "case": case}], "exact": False}
    missing = [sorted(s) for s in fam if frozenset(s) not in got]
    viol = []
    if missing:
        lost = sorted({e for s in fam for e in s} - {e for s in got for e in s})
        kind = "events_lost" if lost else "set_rejected"
        viol.append({"key": f"calculate_logic_gates/ensures.sound.partial_family.{kind}",
                     "what": f"inferred {show(got_tree)} does not admit observed {missing[:3]}" + (f"; events {lost} do not occur in the tree at all" if lost else ""),
                     "case": case})
    return {"violations": viol, "exact": False, "sample": None}


def run_history(fam: Any) -> dict[str, Any]:
    """the inferred tree is a function of the observed sets alone: another inference in the same process - here one over the same
    event types in which one event is *repeated* (a counted successor set) - must not change what is inferred for this family, nor
    the tree already handed out for it"""
    from tel2puml.events import EventSet
    from tel2puml.logic_detection import calculate_logic_gates
    sets = [sorted(s) for s in fam]
    counted = [sets[0] + [sets[0][0]]] + sets[1:]
    case = {"family": sets, "history": "a counted variant of the family is inferred before / after"}
    viol = []
    try:
        alone = outcomes(from_process_tree(calculate_logic_gates({EventSet(x) for x in sets})))
        if any(frozenset(x) not in alone for x in sets):
            return {"violations": [], "exact": False, "sample": None}     # unsound even alone: reported by the plain cases
        calculate_logic_gates({EventSet(x) for x in counted})
        after = calculate_logic_gates({EventSet(x) for x in sets})
        got = outcomes(from_process_tree(after))
        missing = [x for x in sets if frozenset(x) not in got]
        if missing:
            viol.append({"key": "calculate_logic_gates/ensures.sound.after_another_inference",
                         "what": f"after inferring {counted}, the tree inferred for {sets} is {show(from_process_tree(after))}, which does not admit {missing[:3]}",
                         "case": case})
        first = calculate_logic_gates({EventSet(x) for x in sets})
        calculate_logic_gates({EventSet(x) for x in counted})
        got2 = outcomes(from_process_tree(first))
        missing2 = [x for x in sets if frozenset(x) not in got2]
        if missing2 and not missing:
            viol.append({"key": "calculate_logic_gates/ensures.sound.tree_changed_by_later_inference",
                         "what": f"the tree handed out for {sets} was changed by a later inference over {counted}: now {show(from_process_tree(first))}",
                         "case": case})
    except Exception as e:  # noqa: BLE001
        return {"violations": [{"key": f"calculate_logic_gates/no_raise.{type(e).__name__}", "what": f"{type(e).__name__}: {str(e)[:200]}", "case": case}], "exact": False}
    return {"violations": viol, "exact": False, "sample": None}


# Event type names are arbitrary strings (the OTel ingestion composes them with "_"); the inference must not depend on what they look like.
# (The tool's own start marker tel2puml_types.DUMMY_START_EVENT = "|||START|||" is the one reserved name: an observed event of that name
# is outside the domain - stated, not hidden: with it the unchanged code fails.)
NAME_POOLS = [
    ["get", "cart", "get_cart", "cart_get", "get_cart_get", "cart_get_cart"],     # joins of one another
    ["a", "a_a", "a_a_a", "_", "__", "a_"],
    ["tau", "A", "B", "C", "D", "E"],                                              # pm4py prints a silent leaf as "tau"
    ["", "A", "B", "C", "D", " "],
    ["X", "+", "O", "*", "->", "BR"],                                              # operator symbols
    ["A B", "A", "B", "a,b", "'q'", "A(B)"],
    ["None", "tau ", "Tau", "START", "END", "|||"],
]


def rename(t: Any, m: dict[str, str]) -> Any:
    return m[t] if isinstance(t, str) else (t[0], tuple(rename(k, m) for k in t[1]))


def run_named(t: Any, m: dict[str, str]) -> dict[str, Any]:
    """the same contract as run_case, for the tree with its events renamed by the injective map m"""
    res = run_case(rename(t, m))
    for v in res["violations"]:
        v["key"] += ".event_names"
        v["case"] = {"base_tree": show(t), "names": m, **v["case"]}
    res["sample"] = None
    return res


def parse(s: str) -> Any:
    """inverse of show()"""
    s = s.strip()
    if "(" not in s:
        return s
    op, rest = s[0], s[2:-1]
    parts, depth, cur = [], 0, ""
    for ch in rest:
        if ch == "," and depth == 0:
            parts.append(cur)
            cur = ""
            continue
        depth += ch == "("
        depth -= ch == ")"
        cur += ch
    parts.append(cur)
    return (op, tuple(parse(p) for p in parts))


def _work(t: Any) -> dict[str, Any]:
    try:
        if isinstance(t, tuple) and t and t[0] == "family":
            return run_family(t[1])
        if isinstance(t, tuple) and t and t[0] == "history":
            return run_history(t[1])
        if isinstance(t, tuple) and t and t[0] == "named":
            return run_named(t[1], t[2])
        return run_case(t)
    except Exception as e:  # noqa: BLE001
        return {"violations": [], "harness_error": f"{type(e).__name__}: {e} {traceback.format_exc()[-600:]}", "exact": False}


def main() -> int:
    ap = argparse.ArgumentParser()
    ap.add_argument("--tier", default="quick")
    ap.add_argument("--seed", type=int, default=0)
    ap.add_argument("--repo", default="/repo")
    ap.add_argument("--replay", default="")
    a = ap.parse_args()
    import logging
    logging.disable(logging.CRITICAL)
    if a.replay:
        data = json.load(open(a.replay))
        if "names" in data["case"]:
            res = _work(("named", parse(data["case"]["base_tree"]), data["case"]["names"]))
        elif "history" in data["case"]:
            res = _work(("history", tuple(frozenset(x) for x in data["case"]["family"])))
        elif "family" in data["case"]:
            res = _work(("family", tuple(frozenset(x) for x in data["case"]["family"])))
        else:
            res = _work(parse(data["case"]["tree"]))
        print(json.dumps(res, indent=1, default=str)[:4000])
        return 1 if res["violations"] else 0
    t0 = time.time()
    nmax = 5 if a.tier == "quick" else 6
    events = "ABCDEF"
    cases = [t for n in range(2, nmax + 1) for t in trees(tuple(events[:n]), 3, None)]
    import random
    rng = random.Random(a.seed)
    fams = families(3)
    f4 = families(4)
    if a.tier == "quick":
        rng.shuffle(f4)
        f4 = f4[:4000]
    fams += f4
    # partial observations: sub-families of the outcome family of a gate tree (what an event has seen so far), most densely for trees
    # whose top gate is an OR over plain events *and* a nested gate (the shape whose plain children the AND recovery regroups)
    def mixed_or(t: Any) -> bool:
        return (not isinstance(t, str) and t[0] == "O" and sum(isinstance(k, str) for k in t[1]) >= 2 and any(not isinstance(k, str) for k in t[1]))
    partial = []
    for t in cases:
        outs = sorted(outcomes(t), key=lambda s_: (len(s_), sorted(s_)))
        if len(outs) < 4:
            continue
        reps = (40 if a.tier == "quick" else 100) if mixed_or(t) and len({e for s_ in outs for e in s_}) >= 4 else (1 if a.tier == "quick" else 4)
        for _ in range(reps):
            k = rng.randrange(3, min(len(outs), 9) + 1)
            partial.append(tuple(rng.sample(outs, k)))
    fams += partial
    # ... and random families of 2-9 non-empty subsets of 5 and of 6 events (no tree behind them at all)
    for nev, cnt in ((5, 1500 if a.tier == "quick" else 20000), (6, 500 if a.tier == "quick" else 6000)):
        evs = "ABCDEF"[:nev]
        subs = [frozenset(c) for r in range(1, nev + 1) for c in itertools.combinations(evs, r)]
        fams += [tuple(rng.sample(subs, rng.randrange(2, 10))) for _ in range(cnt)]
    # one wide observation (8 events in one set: 8! orderings go to the miner) alone and next to a second set
    fams += [(frozenset("ABCDEFGH"),), (frozenset("ABCDEFGH"), frozenset("Z"))]
    n_fam = len(fams)
    cases += [("family", f) for f in fams]
    hist = families(3) + f4[:300 if a.tier == "quick" else 3000] + [tuple(outcomes(t)) for t in cases if not (isinstance(t, tuple) and t and t[0] == "family")
                                                                      and len({e for s in outcomes(t) for e in s}) <= 4]
    n_hist = len(hist)
    cases += [("history", f) for f in hist]
    # every tree over <= 4 (thorough 5) events under adversarial event names: each name pool, one (thorough three) random injective naming
    named = []
    base = [t for n2 in range(2, (4 if a.tier == "quick" else 5) + 1) for t in trees(tuple(events[:n2]), 3, None)]
    for t in base:
        for pool_ in NAME_POOLS:
            for _ in range(1 if a.tier == "quick" else 3):
                named.append(("named", t, dict(zip(events, rng.sample(pool_, len(pool_))))))
    n_named = len(named)
    cases += named
    from multiprocessing import Pool
    viol: dict[str, Any] = {}
    n = nexact = 0
    samples: list[Any] = []
    errors: list[str] = []
    with Pool(min(16, os.cpu_count() or 4)) as pool:
        for res in pool.imap_unordered(_work, cases, chunksize=16):
            n += 1
            if res.get("harness_error"):
                errors.append(res["harness_error"])
                continue
            nexact += bool(res.get("exact"))
            for v in res["violations"]:
                viol.setdefault(v["key"], v)
            if len(samples) < 4 and res.get("sample") and res["sample"].get("tree", "").count("(") >= 2:
                samples.append(res["sample"])
    out = {"mode": "gates", "evaluations": n, "distinct_nontrivial": n, "exact_subclass_trees": nexact, "gate_trees": n - n_fam - n_hist - n_named, "arbitrary_families": n_fam, "history_cases": n_hist, "renamed_trees": n_named,
           "exhaustive": a.tier == "thorough", "max_events": nmax,
           "samples": samples, "violations": list(viol.values()), "seconds": round(time.time() - t0, 1), "harness_errors": errors[:3],
           "n_harness_errors": len(errors)}
    print("BOUNDED-RESULT " + json.dumps(out, default=str))
    return 0


if __name__ == "__main__":
    sys.exit(main())
