"""Bounded stand-in for the model-level statement of C04 (labelled bounded, never counted as proved).

Contract checked at run time on the real code (tel2puml.events + tel2puml.pv_to_puml.data_ingestion, real files):

  for every job set J and every split J = J1 ++ J2 (both orders, also J2 empty, also J1 repeated in J2):
      M1 = learn(J1);  save_events_to_file(M1);  M1' = load_events_from_file;  M = learn(J2, events=M1')
      A  = learn(J)
      ensures  types(M) == types(A)
      ensures  for every event type: event_sets, in_event_sets equal as sets of multisets
      ensures  for every event type: the gate tree returned by `logic_gate_tree` equals the one of the one-shot run
               (this is where "reloading a model with no new evidence for some events still reproduces their logic" lives)
      ensures  the model file round-trips: load(save(M1)) has the same types / sets / counts as M1

`learn` is update_and_create_events_from_clustered_pvevents (add_dummy_start as pv_to_puml uses it).  The absent janus
package is replaced by the stand-in in /verif/stubs (one EventSolution per PV event, links from previousEventIds) -
an assumed dependency contract.

Domain: all job sets of <= 3 jobs drawn from a family of small DAG-shaped jobs over 5 event types (sequence, XOR
alternatives, AND fork/join, repeated type), all split points, both chunk orders; plus, through the real entry point
otel_to_puml(components="pv2puml") with -om / -im model files, 40 (thorough 300) sampled job sets x split points x
workflow names {plain, with spaces, with an underscore}.

usage: model_harness.py --tier quick|thorough --seed N --repo /repo [--replay file]
"""
from __future__ import annotations

import argparse
import itertools
import json
import os
import random
import shutil
import sys
import tempfile
import time
import traceback
from typing import Any


def job(jid: str, edges: list[tuple[str, list[str]]]) -> list[dict[str, Any]]:
    """edges: [(event type, [indices of previous events])] in order; event ids are jid.index"""
    out = []
    for i, (t, prev) in enumerate(edges):
        out.append({"jobId": jid, "eventId": f"{jid}.{i}", "eventType": t, "timestamp": f"2024-01-01T00:00:{i:02d}.000000Z",
                    "previousEventIds": [f"{jid}.{p}" for p in prev], "applicationName": "app", "jobName": "wf"})
    return out


def family() -> list[list[tuple[str, list[int]]]]:
    return [
        [("A", []), ("B", [0]), ("D", [1])],                       # A;B;D
        [("A", []), ("C", [0]), ("D", [1])],                       # A;C;D      (XOR with the first)
        [("A", []), ("B", [0]), ("C", [0]), ("D", [1, 2])],        # A;(B||C);D (AND)
        [("A", []), ("B", [0]), ("B", [0]), ("D", [1, 2])],        # repeated successor type
        [("A", []), ("D", [0])],                                   # skip
        [("A", []), ("B", [0]), ("E", [1])],                       # other end
        [("A", []), ("B", [0]), ("A", [1]), ("B", [2]), ("D", [3])],  # a loop run twice
        [("A", []), ("B", []), ("D", [0, 1])],                      # two events start the job in parallel (a joint successor set of the start)
        [("A", []), ("A", []), ("E", [0, 1])],                      # ... two of one type (a counted successor set of the start)
    ]


def learn(jobs: list[list[dict[str, Any]]], events: Any = None) -> Any:
    from tel2puml.pv_to_puml.data_ingestion import update_and_create_events_from_clustered_pvevents
    return update_and_create_events_from_clustered_pvevents(jobs, add_dummy_start=True, events=events)


def snapshot(events: Any) -> dict[str, Any]:
    out = {}
    for t, e in events.items():
        tree = e.logic_gate_tree
        out[t] = {"out": sorted(sorted(es.items()) for es in e.event_sets), "in": sorted(sorted(es.items()) for es in e.in_event_sets),
                  "tree": None if tree is None else repr(tree)}
    return out


def run_case(case: dict[str, Any]) -> dict[str, Any]:
    from tel2puml.events import save_events_to_file, load_events_from_file
    fam = family()
    jobs = [job(f"j{k}", fam[i]) for k, i in enumerate(case["jobs"])]
    cut = case["cut"]
    j1, j2 = jobs[:cut], jobs[cut:]
    if case.get("swap"):
        j1, j2 = j2, j1
    if case.get("repeat"):
        j2 = j2 + [job(f"r{k}", fam[i]) for k, i in enumerate(case["jobs"][:cut])]
    viol = []
    tmp = tempfile.mkdtemp(prefix="vmodel_", dir="/dev/shm" if os.path.isdir("/dev/shm") else None)
    try:
        ref = snapshot(learn(jobs))
        m1 = learn(j1)
        path = os.path.join(tmp, "model.json")
        save_events_to_file("wf", m1, path)
        name, loaded = load_events_from_file(path)
        s1 = snapshot(learn(j1))
        sl = {t: {"out": sorted(sorted(es.items()) for es in e.event_sets), "in": sorted(sorted(es.items()) for es in e.in_event_sets)} for t, e in loaded.items()}
        if name != "wf" or set(sl) != set(s1) or any(sl[t]["out"] != s1[t]["out"] or sl[t]["in"] != s1[t]["in"] for t in sl):
            viol.append({"key": "model_file/ensures.round_trip", "what": f"loaded {sl} saved {s1}"[:500], "case": case})
        final = snapshot(learn(j2, events=loaded))
        if set(final) != set(ref):
            viol.append({"key": "update_model/ensures.same_event_types", "what": f"{sorted(final)} vs {sorted(ref)}", "case": case})
        else:
            for t in sorted(ref):
                if final[t]["out"] != ref[t]["out"] or final[t]["in"] != ref[t]["in"]:
                    viol.append({"key": "update_model/ensures.same_sets_as_one_shot", "what": f"{t}: {final[t]} vs {ref[t]}"[:500], "case": case})
                    break
                if final[t]["tree"] != ref[t]["tree"]:
                    viol.append({"key": "update_model/ensures.same_logic_as_one_shot", "what": f"{t}: gate tree {final[t]['tree']} vs {ref[t]['tree']}", "case": case})
                    break
    finally:
        shutil.rmtree(tmp, ignore_errors=True)
    untouched = bool(j1) and bool({e["eventType"] for j in j1 for e in j} - {e["eventType"] for j in j2 for e in j})
    return {"violations": viol, "nontrivial": [json.dumps(case)] if untouched else [], "sample": case if untouched and len(case["jobs"]) >= 3 else None}


def model_of(path: str) -> dict[str, Any]:
    raw = json.load(open(path))
    out = {"job_name": raw["job_name"], "events": {}}
    for e in raw["events"]:
        out["events"][e["eventType"]] = {
            "out": sorted(sorted((x["eventType"], x["count"]) for x in s) for s in e["outgoingEventSets"]),
            "in": sorted(sorted((x["eventType"], x["count"]) for x in s) for s in e["incomingEventSets"])}
    return out


def run_cli_case(case: dict[str, Any]) -> dict[str, Any]:
    """The same statement through the real entry point `otel_to_puml(components="pv2puml")` with saved model files:
    run 1 learns chunk 1 and writes the model (-om); run 2 loads it (-im) together with chunk 2 and writes the model
    again; the final model must equal the one written when all jobs are supplied in one run, under the same job name."""
    from tel2puml.otel_to_puml import otel_to_puml
    fam = family()
    name = case["job_name"]
    jobs = [job(f"j{k}", fam[i]) for k, i in enumerate(case["jobs"])]
    for j in jobs:
        for e in j:
            e["jobName"] = name
    cut = case["cut"]
    viol = []
    tmp = tempfile.mkdtemp(prefix="vcli_", dir="/dev/shm" if os.path.isdir("/dev/shm") else None)
    try:
        files = []
        for k, j in enumerate(jobs):
            p = os.path.join(tmp, f"job{k}.json")
            json.dump(j, open(p, "w"))
            files.append(p)

        def run(file_list: list[str], out: str, models_in: list[str]) -> str:
            otel_to_puml(pv_to_puml_options={"file_list": file_list, "job_name": name, "group_by_job_id": False},
                         global_options={"input_puml_models": models_in, "output_puml_models": True},
                         output_file_directory=os.path.join(tmp, out), components="pv2puml")
            cands = [f for f in os.listdir(os.path.join(tmp, out)) if f.endswith("_model.json")]
            if len(cands) != 1:
                raise RuntimeError(f"expected one model file, found {cands}")
            pumls = [f for f in os.listdir(os.path.join(tmp, out)) if f.endswith(".puml")]
            if len(pumls) != 1:
                raise RuntimeError(f"expected one diagram, found {pumls}")
            return os.path.join(tmp, out, cands[0])
        ref = model_of(run(files, "all", []))
        m1 = run(files[:cut], "first", [])
        fin = model_of(run(files[cut:], "second", [m1]))
        if ref["job_name"] != name or fin["job_name"] != name or model_of(m1)["job_name"] != name:
            viol.append({"key": "cli_update_model/ensures.model_keeps_job_name",
                         "what": f"job name {name!r}: model files carry {model_of(m1)['job_name']!r} / {fin['job_name']!r}", "case": case})
        if fin["events"] != ref["events"]:
            diff = sorted(t for t in set(fin["events"]) | set(ref["events"]) if fin["events"].get(t) != ref["events"].get(t))
            viol.append({"key": "cli_update_model/ensures.same_model_as_one_shot", "what": f"job name {name!r}: events differing {diff}", "case": case})
    finally:
        shutil.rmtree(tmp, ignore_errors=True)
    return {"violations": viol, "nontrivial": [json.dumps(case)], "sample": case if len(case["jobs"]) >= 3 else None}


def cli_domain(tier: str, rng: random.Random) -> Any:
    names = ["wf", "Users Service", "a b  c", "x_y"]
    n_fam = len(family())
    combos = [c for n in (2, 3) for c in itertools.product(range(n_fam), repeat=n)]
    rng.shuffle(combos)
    combos = combos[:40 if tier == "quick" else 300]
    for k, combo in enumerate(combos):
        for cut in range(1, len(combo)):
            yield {"cli": True, "jobs": list(combo), "cut": cut, "job_name": names[k % len(names)]}


def domain(tier: str, rng: random.Random) -> Any:
    n_fam = len(family())
    maxjobs = 3 if tier == "quick" else 4
    for n in range(1, maxjobs + 1):
        combos = list(itertools.product(range(n_fam), repeat=n))
        if n == maxjobs and tier == "quick":
            combos = [c for c in combos if rng.random() < 0.35]
        for combo in combos:
            for cut in range(0, n + 1):
                yield {"jobs": list(combo), "cut": cut}
                if 0 < cut < n:
                    yield {"jobs": list(combo), "cut": cut, "swap": True}
            if n >= 2:
                yield {"jobs": list(combo), "cut": 1, "repeat": True}


def _work(case: dict[str, Any]) -> dict[str, Any]:
    try:
        if case.get("cli"):
            return run_cli_case(case)
        return run_case(case)
    except Exception as e:  # noqa: BLE001
        return {"violations": [{"key": f"update_model/no_raise.{type(e).__name__}", "what": f"{type(e).__name__}: {str(e)[:300]}", "case": case}],
                "trace": traceback.format_exc()[-800:]}


def main() -> int:
    ap = argparse.ArgumentParser()
    ap.add_argument("--tier", default="quick")
    ap.add_argument("--seed", type=int, default=0)
    ap.add_argument("--repo", default="/repo")
    ap.add_argument("--replay", default="")
    a = ap.parse_args()
    import logging
    logging.disable(logging.CRITICAL)
    if a.replay:
        data = json.load(open(a.replay))
        res = _work(data["case"])
        print(json.dumps(res, indent=1, default=str)[:5000])
        return 1 if res["violations"] else 0
    t0 = time.time()
    rng = random.Random(a.seed)
    cases = list(domain(a.tier, rng)) + list(cli_domain(a.tier, rng))
    from multiprocessing import Pool
    viol: dict[str, Any] = {}
    nontrivial: set[str] = set()
    samples: list[Any] = []
    n = 0
    with Pool(min(16, os.cpu_count() or 4)) as pool:
        for res in pool.imap_unordered(_work, cases, chunksize=8):
            n += 1
            for v in res["violations"]:
                viol.setdefault(v["key"], v)
            nontrivial.update(res.get("nontrivial", []))
            if res.get("sample") is not None and len(samples) < 4:
                samples.append(res["sample"])
    out = {"mode": "model", "evaluations": n, "distinct_nontrivial": len(nontrivial), "exhaustive": a.tier == "thorough", "samples": samples,
           "violations": list(viol.values()), "seconds": round(time.time() - t0, 1)}
    print("BOUNDED-RESULT " + json.dumps(out, default=str))
    return 0


if __name__ == "__main__":
    sys.exit(main())
