"""Bounded stand-in for C14 (labelled bounded, never counted as proved).

Runtime contracts on the real code, through the real entry point `tel2puml.otel_to_puml.otel_to_puml`:

  route A   otel2puml on a data set (models written with -om)
  route B   otel2pv with saved events, then pv2puml on the saved files, the same field-name mapping used for saving and loading

  ensures  files_hold_stream : the saved PV job files contain exactly the events of the in-memory stream of otel_to_pv
                               (per workflow, per trace): ids, links and every field value, under the renamed keys
  ensures  load_inverts_save : pv_job_file_to_event_sequence(save(stream, cfg), cfg) == stream
  ensures  same_model        : per workflow, the model learned on route B (events, successor / predecessor multisets and
                               counts) equals the model learned on route A
                               (diagram text is not compared: that the diagram is a function of the model is C03)

Domain: multi-workflow trace sets built from small call trees (1-4 spans, chain / bushy) whose span names include
plain names, names with inner and *surrounding* spaces, unicode and empty-looking strings; x mapping config
{default, custom (all seven keys renamed), chained (a custom name equal to another field's standard name)} x {sync, async}.  The absent janus package is replaced by the
stand-in in /verif/stubs (assumed dependency contract).
"""
from __future__ import annotations

import argparse
import itertools
import json
import os
import random
import shutil
import sys
import tempfile
import time
import traceback
from typing import Any

T0 = 1_700_000_000 * 10**9
NAMES = ["open", "handle request", "poll", "poll ", " poll", "close\t", "läuft", "a_b", "x.y", "ok"]


def make_spans(layout: list[tuple[str, str, list[int | None], list[str]]]) -> list[dict[str, Any]]:
    """layout: [(trace id, workflow name, parent index per span, span name per span)]"""
    out = []
    t = 0
    for entry in layout:
        tid, wf, parents, names = entry[:4]
        slot = entry[4] if len(entry) > 4 else list(range(len(parents)))     # which time slot each span takes (sibling order in time)
        for i, (p, nm) in enumerate(zip(parents, names)):
            k = 0 if p is None else slot[i]
            out.append({"job_name": wf, "job_id": tid, "event_type": nm, "event_id": f"{tid}.{i}", "start_timestamp": T0 + (t + k) * 10**9,
                        "end_timestamp": T0 + (t + k + 1 + (len(parents) + 3 if p is None else 0)) * 10**9, "application_name": "app " if i % 2 else "app",
                        "parent_event_id": None if p is None else f"{tid}.{p}"})
        t += 10
    return out


def expand(entry: list[Any]) -> list[Any]:
    """a long trace is written compactly: parents "flat:N" = a root with N-1 children, names = the pool they cycle through"""
    if isinstance(entry[2], str) and entry[2].startswith("flat:"):
        n = int(entry[2].split(":")[1])
        return [entry[0], entry[1], [None] + [0] * (n - 1), [entry[3][i % len(entry[3])] for i in range(n)]]
    return entry


def config(tmp: str, async_flag: bool) -> Any:
    from tel2puml.otel_to_pv.config import load_config_from_dict
    fm = {f: {"key_paths": [f"spans.[].{f}"], "value_type": "string"} for f in
          ("job_name", "job_id", "event_type", "event_id", "start_timestamp", "end_timestamp", "application_name", "parent_event_id")}
    fm["child_event_ids"] = {"key_paths": ["spans.[].child_event_ids"], "value_type": "array"}
    return load_config_from_dict({
        "ingest_data": {"data_source": "json", "data_holder": "sql"},
        "data_holders": {"sql": {"db_uri": "sqlite:///:memory:", "batch_size": 3, "time_buffer": 0}},
        "data_sources": {"json": {"dirpath": os.path.join(tmp, "data"), "filepath": None, "json_per_line": False, "field_mapping": fm}},
        "sequencer": {"async_flag": async_flag},
    })


def mapping(custom: Any) -> Any:
    from tel2puml.tel2puml_types import PVEventMappingConfig
    if not custom:
        return None
    if custom == "chained":   # a custom name that is the standard name of another (also renamed) field
        return PVEventMappingConfig(jobName="eventType", eventType="eventName", jobId="eventId", eventId="spanRef")
    return PVEventMappingConfig(jobId="JID", eventId="eid", timestamp="when", previousEventIds="prev", applicationName="application",
                                jobName="workflow", eventType="type")


def model_of(path: str) -> dict[str, Any]:
    raw = json.load(open(path))
    return {"job_name": raw["job_name"], "events": {e["eventType"]: {
        "out": sorted(sorted((x["eventType"], x["count"]) for x in s) for s in e["outgoingEventSets"]),
        "in": sorted(sorted((x["eventType"], x["count"]) for x in s) for s in e["incomingEventSets"])} for e in raw["events"]}}


def norm_event(e: dict[str, Any]) -> tuple[Any, ...]:
    return (e["eventId"], e["eventType"], e["jobId"], e["jobName"], e["applicationName"], e["timestamp"], tuple(e.get("previousEventIds", [])))


def reset_metadata() -> None:
    from tel2puml.otel_to_pv.data_holders.sql_data_holder import data_model as dm
    if "temp_root_nodes" in dm.Base.metadata.tables:
        dm.Base.metadata.remove(dm.Base.metadata.tables["temp_root_nodes"])


def run_case(case: dict[str, Any]) -> dict[str, Any]:
    from tel2puml.otel_to_puml import otel_to_puml
    from tel2puml.otel_to_pv.otel_to_pv import otel_to_pv
    from tel2puml.pv_to_puml.pv_to_puml import pv_job_file_to_event_sequence
    from tel2puml.tel2puml_types import PVEventMappingConfig
    spans = make_spans([tuple(expand(x)) for x in case["layout"]])
    mc = mapping(case["custom"])
    viol: list[dict[str, Any]] = []
    tmp = tempfile.mkdtemp(prefix="vrt_", dir="/dev/shm" if os.path.isdir("/dev/shm") else None)
    try:
        os.makedirs(os.path.join(tmp, "data"))
        json.dump({"spans": spans}, open(os.path.join(tmp, "data", "d.json"), "w"))
        opts = lambda save: {"config": config(tmp, case["async"]), "ingest_data": True, "save_events": save, "find_unique_graphs": False,  # noqa: E731
                             "mapping_config": mc}
        # the in-memory stream
        reset_metadata()
        stream: dict[str, dict[str, list[Any]]] = {}
        for wf, pv_streams in otel_to_pv(**opts(False)):
            for pvs in pv_streams:
                evs = [dict(e) for e in pvs]
                if evs:
                    stream.setdefault(wf, {})[evs[0]["jobId"]] = evs
        # route A
        reset_metadata()
        otel_to_puml(otel_to_pv_options=opts(False), global_options={"input_puml_models": [], "output_puml_models": True},
                     output_file_directory=os.path.join(tmp, "A"), components="otel2puml")
        # route B, step 1: saved PV files
        reset_metadata()
        otel_to_puml(otel_to_pv_options=opts(True), output_file_directory=os.path.join(tmp, "B"), components="otel2pv")
        cfg_load = mc if mc is not None else PVEventMappingConfig()
        for wf, jobs in stream.items():
            d = os.path.join(tmp, "B", wf)
            files = sorted(os.path.join(d, f) for f in os.listdir(d)) if os.path.isdir(d) else []
            loaded = {}
            for f in files:
                raw = json.load(open(f))
                keys = {k for ev in raw for k in ev}
                want_keys = set(cfg_load.model_dump().values())
                if not keys <= want_keys:
                    viol.append({"key": "save/ensures.renamed_keys", "what": f"{wf}: file keys {sorted(keys)} not among {sorted(want_keys)}", "case": case})
                evs = pv_job_file_to_event_sequence(f, cfg_load)
                if evs:
                    loaded[evs[0]["jobId"]] = evs
            a = {t: sorted(norm_event(e) for e in evs) for t, evs in jobs.items()}
            b = {t: sorted(norm_event(e) for e in evs) for t, evs in loaded.items()}
            if a != b:
                diff = [t for t in set(a) | set(b) if a.get(t) != b.get(t)]
                first = diff[0] if diff else None
                viol.append({"key": "save_load/ensures.files_hold_stream", "what": f"{wf}: traces {sorted(diff)} differ, e.g. {a.get(first)} vs {b.get(first)}"[:600],
                             "case": case})
            # route B, step 2
            otel_to_puml(pv_to_puml_options={"file_list": files, "job_name": wf, "group_by_job_id": False, "mapping_config": cfg_load},
                         global_options={"input_puml_models": [], "output_puml_models": True}, output_file_directory=os.path.join(tmp, "B2"),
                         components="pv2puml")
            fn = wf.replace(" ", "_") + "_model.json"
            pa, pb = os.path.join(tmp, "A", fn), os.path.join(tmp, "B2", fn)
            if not (os.path.exists(pa) and os.path.exists(pb)):
                viol.append({"key": "routes/ensures.model_written", "what": f"{wf}: model file missing on a route", "case": case})
            elif model_of(pa) != model_of(pb):
                ma, mb = model_of(pa), model_of(pb)
                diff = sorted(t for t in set(ma["events"]) | set(mb["events"]) if ma["events"].get(t) != mb["events"].get(t))
                viol.append({"key": "routes/ensures.same_model", "what": f"{wf}: events differing between otel2puml and otel2pv+pv2puml: {diff}", "case": case})
    finally:
        shutil.rmtree(tmp, ignore_errors=True)
    odd = any(nm != nm.strip() or not nm.isascii() for lay in case["layout"] for nm in lay[3]) and not any(isinstance(lay[2], str) for lay in case["layout"])
    return {"violations": viol, "nontrivial": [json.dumps(case)], "sample": case if odd and case["custom"] else None}


def domain(tier: str, rng: random.Random) -> Any:
    shapes = [[None], [None, 0], [None, 0, 1], [None, 0, 0], [None, 0, 0, 1]]
    n = 24 if tier == "quick" else 200
    # two traces of one call-tree shape whose siblings come in a different order in time: equal shape hash, different PV sequences
    for names in (["open", "poll", "close\t"], ["handle request", "läuft", "x.y", "ok"]):
        shape = [None] + [0] * (len(names) - 1)
        twins = [["t0", "wf one", shape, names, list(range(len(names)))], ["t0x", "wf one", shape, names, [0] + list(range(1, len(names)))[::-1]],
                 ["t1", "wf2", [None, 0], ["ok", "a_b"]]]
        for custom in (False, True):
            for asy in (False, True):
                yield {"layout": twins, "custom": custom, "async": asy}
    # one long trace (more events than any plausible per-file or per-batch limit) next to short ones
    for custom in (False, True):
        yield {"layout": [["t0", "wf one", "flat:1101", ["open", "poll", "close\t"]], ["t1", "wf one", [None, 0], ["open", "ok"]], ["t2", "wf2", [None], ["ok"]]],
               "custom": custom, "async": False}
    for k in range(n):
        layout = []
        for ti in range(rng.randrange(2, 5)):
            sh = rng.choice(shapes)
            wf = rng.choice(["wf one", "wf2", "Users Service"])
            pool = NAMES if k % 2 else [x for x in NAMES if x == x.strip()]
            layout.append([f"t{ti}", wf, sh, [rng.choice(pool) for _ in sh]])
        if k % 4 == 1:
            # the same call tree twice under one workflow, its siblings in a different order in time (equal shape, different sequence)
            base = layout[0]
            if len(base[2]) >= 3:
                slots = list(range(len(base[2])))
                twin = [base[0] + "x", base[1], base[2], base[3], [0] + slots[1:][::-1]]
                layout = layout + [twin]
        for custom in (False, True) + (("chained",) if k % 2 == 0 else ()):
            yield {"layout": layout, "custom": custom, "async": bool(k % 3 == 0)}


def _work(case: dict[str, Any]) -> dict[str, Any]:
    try:
        return run_case(case)
    except Exception as e:  # noqa: BLE001
        return {"violations": [{"key": f"routes/no_raise.{type(e).__name__}", "what": f"{type(e).__name__}: {str(e)[:300]} {traceback.format_exc()[-500:]}", "case": case}]}


def main() -> int:
    ap = argparse.ArgumentParser()
    ap.add_argument("--tier", default="quick")
    ap.add_argument("--seed", type=int, default=0)
    ap.add_argument("--repo", default="/repo")
    ap.add_argument("--replay", default="")
    a = ap.parse_args()
    import logging
    logging.disable(logging.CRITICAL)
    if a.replay:
        data = json.load(open(a.replay))
        res = _work(data["case"])
        print(json.dumps(res, indent=1, default=str)[:5000])
        return 1 if res["violations"] else 0
    t0 = time.time()
    rng = random.Random(a.seed)
    cases = list(domain(a.tier, rng))
    from multiprocessing import Pool
    viol: dict[str, Any] = {}
    nontrivial: set[str] = set()
    samples: list[Any] = []
    n = 0
    with Pool(min(16, os.cpu_count() or 4)) as pool:
        for res in pool.imap_unordered(_work, cases, chunksize=1):
            n += 1
            for v in res["violations"]:
                viol.setdefault(v["key"], v)
            nontrivial.update(res.get("nontrivial", []))
            if res.get("sample") is not None and len(samples) < 3:
                samples.append(res["sample"])
    out = {"mode": "roundtrip", "evaluations": n, "distinct_nontrivial": len(nontrivial), "exhaustive": False, "samples": samples or cases[:1],
           "violations": list(viol.values()), "seconds": round(time.time() - t0, 1)}
    print("BOUNDED-RESULT " + json.dumps(out, default=str))
    return 0


if __name__ == "__main__":
    sys.exit(main())
