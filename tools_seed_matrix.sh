#!/bin/bash
# Apply every seeded change in /verif/seeded to /repo (one at a time, undone straight afterwards) and run the quick check of
# the property it breaks.  Evidence of these runs goes to a scratch directory, never to /verif/evidence.
# usage: ./tools_seed_matrix.sh [seed-name ...]
cd /verif
export VERIF_EVIDENCE_DIR=/tmp/verif_seed_evidence
seeds=${@:-$(ls seeded)}
for name in $seeds; do
  prop=$(python3 -c "import json;print(json.load(open('seeded/$name/meta.json'))['property'])")
  if ! git -C /repo diff --quiet; then echo "repo dirty, abort"; exit 2; fi
  if ! git -C /repo apply /verif/seeded/$name/patch.diff 2>/tmp/apply_err; then echo "$name $prop PATCH-DOES-NOT-APPLY $(head -1 /tmp/apply_err)"; continue; fi
  out=$(./check $prop --tier quick 2>&1 | grep -E "^(VIOLATION|OK|UNDECIDED|CHECKER|KNOWN)" | cut -c1-75 | sort -r | head -3 | tr "\n" " ")
  rc=$?
  git -C /repo checkout -- .
  keys=$(python3 -c "
import json,glob
ks=[]
for f in sorted(glob.glob('/verif/replays/${prop}_quick_*.json')):
    d=json.load(open(f)); k=d.get('key','?')+('' if not d.get('no_failing_input_found') else ' [no input]')+(' (bounded)' if d.get('bounded') else '')
    if k not in ks: ks.append(k)
print('; '.join(ks[:8]))")
  echo "$name $prop -> $out"
  echo "    keys: $keys"
done
rm -rf /tmp/verif_seed_evidence
