#!/usr/bin/env python3
"""Regenerates MANIFEST.json from checks/manifest_data.py (kept valid at all times)."""
import json, os, sys
HERE = os.path.dirname(os.path.abspath(__file__))
sys.path.insert(0, HERE)
from checks import manifest_data as M

man = {
    "version": 1,
    "setup_cmd": "mkdir -p evidence replays && python3-vt -c 'import z3, cvc5' && /venv/bin/python -c 'import sqlalchemy, pydantic, pm4py'",
    "hooks": {
        "guard": "XTUML_OTEL2PUML_VERIF",
        "enable": "no source hooks: contracts live in the sidecar /verif/contracts and are bound to /repo's current source by qualified name on every run",
        "baseline_off_cmd": "cd /repo && /venv/bin/python -m pytest -ra -q -p no:cacheprovider --timeout=900 --continue-on-collection-errors",
        "source_commits": [],
        "add_only": True,
    },
    "engines": [
        {"name": "pyvc", "path": "pyvc/", "serves_properties": M.PYVC_PROPS,
         "kind_free_text": "contract-based deductive verifier for a Python subset: re-reads the real source with ast on every run, sidecar contracts (requires/ensures/raises/loop invariants/lemmas), forward symbolic execution to VCs over axiomatised sequences/maps/sets (Boogie-style prelude, explicit triggers), z3 5.1.0 (E-matching, no MBQI) then cvc5 1.0.3; same clause texts evaluated natively on the real functions (runtime contracts, replay)"},
        {"name": "bounded", "path": "bounded/", "serves_properties": M.BOUNDED_PROPS,
         "kind_free_text": "bounded stand-ins (labelled bounded, never counted as proved): abstract-view contracts checked at run time on the real functions over stated finite domains"},
    ],
    "checks": M.CHECKS,
    "not_applicable": M.NOT_APPLICABLE,
    "notes": M.NOTES,
}
json.dump(man, open(os.path.join(HERE, "MANIFEST.json"), "w"), indent=1)
print("MANIFEST.json written:", [c["property_id"] for c in man["checks"]], "n/a:", [n["property_id"] for n in man["not_applicable"]])
