"""Frame obligation of the Event cache-coherence invariant (C04), generated mechanically on every run.

Every syntactic site in tel2puml/**/*.py that
  * assigns to  <x>.event_sets / <x>._logic_gate_tree / <x>._update_since_logic_gate_tree, or
  * calls a mutating set method on  <x>.event_sets  (add, update, remove, discard, clear, pop, ...), or
    augments it in place (|=, -=, &=, ^=)
must lie in a function that is under contract in contracts/c04.py with its `coherent` clause discharged on this run.
A site elsewhere is a new, undischarged obligation `Event.frame@<file>:<function>`; it is accepted only if the same
function also sets `<x>._update_since_logic_gate_tree = True` for the same <x> after the mutation (a syntactic
sufficient condition: the invariant then holds trivially for <x>).

Not seen by a syntactic scan (stated limitation): mutation through an alias of the set object (`s = e.event_sets; s.add(..)`),
setattr/__dict__ tricks, and code outside tel2puml/.
"""
from __future__ import annotations

import ast
import os
from typing import Any

FIELDS = ("event_sets", "_logic_gate_tree", "_update_since_logic_gate_tree")
MUTATORS = ("add", "update", "remove", "discard", "clear", "pop", "difference_update", "intersection_update", "symmetric_difference_update")


def _sites(tree: ast.Module, rel: str) -> list[dict[str, Any]]:
    out: list[dict[str, Any]] = []

    def visit(node: ast.AST, qual: list[str]) -> None:
        for ch in ast.iter_child_nodes(node):
            if isinstance(ch, (ast.FunctionDef, ast.AsyncFunctionDef, ast.ClassDef)):
                visit(ch, qual + [ch.name])
                continue
            if isinstance(ch, (ast.Assign, ast.AnnAssign, ast.AugAssign)):
                tgts = ch.targets if isinstance(ch, ast.Assign) else [ch.target]
                for t in tgts:
                    for tt in (t.elts if isinstance(t, (ast.Tuple, ast.List)) else [t]):
                        if isinstance(tt, ast.Attribute) and tt.attr in FIELDS and not (isinstance(ch, ast.AnnAssign) and ch.value is None):
                            out.append({"file": rel, "line": ch.lineno, "function": ".".join(qual) or "<module>", "kind": "assign" if not isinstance(ch, ast.AugAssign) else "augassign",
                                        "field": tt.attr, "object": ast.unparse(tt.value),
                                        "sets_stale_true": tt.attr == "_update_since_logic_gate_tree" and isinstance(getattr(ch, "value", None), ast.Constant) and ch.value.value is True})
            if isinstance(ch, ast.Call) and isinstance(ch.func, ast.Attribute) and ch.func.attr in MUTATORS:
                recv = ch.func.value
                if isinstance(recv, ast.Attribute) and recv.attr == "event_sets":
                    out.append({"file": rel, "line": ch.lineno, "function": ".".join(qual) or "<module>", "kind": f"call .{ch.func.attr}()", "field": "event_sets",
                                "object": ast.unparse(recv.value), "sets_stale_true": False})
            visit(ch, qual)
    visit(tree, [])
    return out


def scan(repo: str) -> list[dict[str, Any]]:
    sites: list[dict[str, Any]] = []
    root = os.path.join(repo, "tel2puml")
    for dp, _, fns in sorted(os.walk(root)):
        for fn in sorted(fns):
            if fn.endswith(".py"):
                p = os.path.join(dp, fn)
                rel = os.path.relpath(p, repo)
                try:
                    sites += _sites(ast.parse(open(p, encoding="utf-8").read()), rel)
                except SyntaxError as e:
                    sites.append({"file": rel, "line": e.lineno or 0, "function": "<unparsable>", "kind": "syntax-error", "field": "?", "object": "?", "sets_stale_true": False})
    return sites


def obligations(repo: str, covered: dict[str, bool]) -> dict[str, Any]:
    """covered: qualified function name (in tel2puml/events.py) -> its coherence clause was discharged on this run"""
    sites = scan(repo)
    by_fn: dict[tuple[str, str], list[dict[str, Any]]] = {}
    for s in sites:
        by_fn.setdefault((s["file"], s["function"]), []).append(s)
    res = []
    for (file, fn), ss in sorted(by_fn.items()):
        name = f"Event.frame@{file}:{fn}"
        mut = [s for s in ss if not s["sets_stale_true"]]
        if not mut:
            res.append({"obligation": name, "discharged": True, "by": "only marks the cache stale", "sites": ss})
            continue
        if file == "tel2puml/events.py" and covered.get(fn):
            res.append({"obligation": name, "discharged": True, "by": f"contract of {fn}: clause `coherent` discharged", "sites": ss})
            continue
        ok = all(any(t["sets_stale_true"] and t["object"] == s["object"] and t["line"] > s["line"] for t in ss) for s in mut if s["field"] == "event_sets") \
            and all(s["field"] == "event_sets" for s in mut)
        if ok:
            res.append({"obligation": name, "discharged": True, "by": "syntactic rule: the same object is marked stale after the mutation", "sites": ss})
        else:
            res.append({"obligation": name, "discharged": False, "by": "", "sites": ss})
    return {"sites": len(sites), "obligations": res}
