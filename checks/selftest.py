"""Mutation self-test of the contracts and of the VC generator (thorough tier).

For every function under (non-trusted) contract a fixed family of AST rewrites is applied *in a scratch copy* of the
repository source (never in /repo): comparison swaps, and/or swaps, small constant changes, +/- swaps, first/last index
swaps, deleted statements, deleted `break`.  Each mutant must make an enrolled clause of that function fail
("killed"), or leave the verifier unable to bind the contract ("rejected": unsupported construct / engine error -
reported separately, not counted as killed).  Survivors are listed: they are either equivalent mutants or show a
clause that is weaker than the code.  This guards against a vacuous or unsound engine: a generator that proved
everything would kill nothing.
"""
from __future__ import annotations

import ast
import copy
import json
import os
import shutil
import sys
import tempfile
import time
from concurrent.futures import ProcessPoolExecutor
from typing import Any

HERE = os.path.dirname(os.path.dirname(os.path.abspath(__file__)))
CMP = {ast.Lt: ast.LtE, ast.LtE: ast.Lt, ast.Gt: ast.GtE, ast.GtE: ast.Gt, ast.Eq: ast.NotEq, ast.NotEq: ast.Eq, ast.Is: ast.IsNot, ast.IsNot: ast.Is,
       ast.In: ast.NotIn, ast.NotIn: ast.In}


def mutants_of(fd: ast.FunctionDef) -> list[tuple[str, ast.FunctionDef]]:
    """(description, mutated copy) for every applicable rewrite site"""
    out: list[tuple[str, ast.FunctionDef]] = []
    nodes = [n for n in ast.walk(fd)]

    def variant(i: int, fn: Any, desc: str) -> None:
        m = copy.deepcopy(fd)
        tgt = [n for n in ast.walk(m)][i]
        if fn(tgt) is not False:
            out.append((desc, m))
    for i, n in enumerate(nodes):
        line = getattr(n, "lineno", 0)
        if isinstance(n, ast.Compare) and len(n.ops) == 1 and type(n.ops[0]) in CMP:
            new = CMP[type(n.ops[0])]
            variant(i, lambda t, new=new: t.ops.__setitem__(0, new()), f"line {line}: {type(n.ops[0]).__name__} -> {new.__name__}")
        elif isinstance(n, ast.BoolOp):
            new = ast.Or if isinstance(n.op, ast.And) else ast.And
            variant(i, lambda t, new=new: setattr(t, "op", new()), f"line {line}: {type(n.op).__name__} -> {new.__name__}")
        elif isinstance(n, ast.Constant) and isinstance(n.value, bool):
            variant(i, lambda t: setattr(t, "value", not t.value), f"line {line}: {n.value} -> {not n.value}")
        elif isinstance(n, ast.Constant) and isinstance(n.value, int) and not isinstance(n.value, bool) and abs(n.value) <= 2:
            variant(i, lambda t: setattr(t, "value", t.value + 1), f"line {line}: constant {n.value} -> {n.value + 1}")
        elif isinstance(n, ast.UnaryOp) and isinstance(n.op, ast.USub) and isinstance(n.operand, ast.Constant) and n.operand.value == 1:
            variant(i, lambda t: setattr(t.operand, "value", 0) or setattr(t, "op", ast.UAdd()), f"line {line}: index -1 -> 0")
        elif isinstance(n, ast.BinOp) and isinstance(n.op, (ast.Add, ast.Sub)) and not isinstance(n.left, ast.Constant):
            new = ast.Sub if isinstance(n.op, ast.Add) else ast.Add
            variant(i, lambda t, new=new: setattr(t, "op", new()), f"line {line}: {type(n.op).__name__} -> {new.__name__}")
        elif isinstance(n, ast.UnaryOp) and isinstance(n.op, ast.Not):
            variant(i, lambda t: t.__dict__.update(copy.deepcopy(t.operand).__dict__) or t.__setattr__("__class__", type(t.operand)) if False else _unnot(t),
                    f"line {line}: `not` removed")
    # statement deletions (replace by `pass`)
    bodies = []
    for n in ast.walk(fd):
        for fld in ("body", "orelse"):
            b = getattr(n, fld, None)
            if isinstance(b, list) and b and isinstance(b[0], ast.stmt):
                bodies.append((n, fld))
    for bi, (n, fld) in enumerate(bodies):
        for si, s in enumerate(getattr(n, fld)):
            if isinstance(s, (ast.Expr,)) and isinstance(s.value, ast.Constant):
                continue  # docstring
            if isinstance(s, (ast.Assign, ast.AugAssign, ast.Expr, ast.Break)) or (isinstance(s, ast.AnnAssign) and s.value is not None):
                m = copy.deepcopy(fd)
                mb = [x for x in ast.walk(m) for f2 in ("body", "orelse") if isinstance(getattr(x, f2, None), list) and getattr(x, f2) and isinstance(getattr(x, f2)[0], ast.stmt)]
                # locate the same body by traversal order
                cnt = -1
                done = False
                for x in ast.walk(m):
                    for f2 in ("body", "orelse"):
                        b2 = getattr(x, f2, None)
                        if isinstance(b2, list) and b2 and isinstance(b2[0], ast.stmt):
                            cnt += 1
                            if cnt == bi and not done:
                                b2[si] = ast.copy_location(ast.Pass(), b2[si])
                                done = True
                if done:
                    out.append((f"line {s.lineno}: statement `{ast.unparse(s)[:50]}` deleted", m))
    return out


def _unnot(t: ast.UnaryOp) -> Any:
    op = t.operand
    t.__class__ = op.__class__
    t.__dict__.clear()
    t.__dict__.update(op.__dict__)
    return True


def _find(mod: ast.Module, qual: str, decorator: str) -> ast.FunctionDef | None:
    body = mod.body
    node: Any = None
    parts = qual.split(".")
    for i, p in enumerate(parts):
        cands = [d for d in body if isinstance(d, (ast.FunctionDef, ast.ClassDef)) and d.name == p]
        if i == len(parts) - 1:
            c2 = []
            for d in cands:
                decs = [ast.unparse(x) for x in getattr(d, "decorator_list", [])]
                if (decorator and decorator in decs) or (not decorator and not any(x.endswith(".setter") for x in decs)):
                    c2.append(d)
            cands = c2
        if not cands:
            return None
        node = cands[0]
        body = node.body
    return node if isinstance(node, ast.FunctionDef) else None


def _run_mutant(job: tuple[str, str, str, str, str, str, list[str]]) -> dict[str, Any]:
    sidecar, scratch, rel, fname, desc, new_src, enrolled = job
    sys.path.insert(0, HERE)
    from pyvc import driver, solve
    solve.Z3_TIMEOUT_MS = 8000
    solve.CVC5_TIMEOUT_MS = 1
    d = tempfile.mkdtemp(prefix="vmut_", dir="/dev/shm" if os.path.isdir("/dev/shm") else None)
    try:
        shutil.copytree(os.path.join(scratch, "tel2puml"), os.path.join(d, "tel2puml"))
        open(os.path.join(d, rel), "w").write(new_src)
        s = driver.Session(os.path.join(HERE, sidecar), d)
        try:
            s.generate(only={fname})
        except Exception as e:  # noqa: BLE001
            return {"function": fname, "mutant": desc, "verdict": "rejected", "why": f"{type(e).__name__}: {str(e)[:120]}"}
        if any(u.startswith(fname + ":") for u in s.undecided):
            return {"function": fname, "mutant": desc, "verdict": "rejected", "why": [u for u in s.undecided if u.startswith(fname + ":")][0][:160]}
        s.V.vcs = [vc for vc in s.V.vcs if vc.func == fname and vc.kind == "goal" and f"{vc.func}/{vc.clause}" in enrolled]
        s.results = solve.solve_all(s.V.vcs, workers=1)
        cl = s.clauses()
        failing = sorted(c for c, dd in cl.items() if not dd["discharged"])
        missing = sorted(c for c in enrolled if c.startswith(fname + "/") and c not in cl)
        if failing or missing:
            return {"function": fname, "mutant": desc, "verdict": "killed", "by": (failing + missing)[:3]}
        return {"function": fname, "mutant": desc, "verdict": "survived"}
    finally:
        shutil.rmtree(d, ignore_errors=True)


def run(sidecar: str, repo: str, key: str, limit_per_function: int = 0) -> dict[str, Any]:
    sys.path.insert(0, HERE)
    from pyvc import driver
    t0 = time.time()
    side = driver.load_sidecar(os.path.join(HERE, sidecar))
    enrolled = json.load(open(os.path.join(HERE, "contracts", "ENROLLED.json"))).get(key, [])
    files = getattr(side, "FILES", None) or {"": side.MODULE}
    jobs = []
    for fname, c in side.CONTRACTS.items():
        if c.get("trusted"):
            continue
        rel = files.get(fname, files.get("", getattr(side, "MODULE", "")))
        src = open(os.path.join(repo, rel), encoding="utf-8").read()
        mod = ast.parse(src)
        fd = _find(mod, c.get("source_name") or fname, c.get("decorator", ""))
        if fd is None:
            continue
        ms = mutants_of(fd)
        if limit_per_function:
            ms = ms[:limit_per_function]
        lines = src.splitlines(keepends=True)
        for desc, m in ms:
            seg = ast.unparse(m)
            indent = " " * fd.col_offset
            new_fn = "".join(indent + ln + "\n" for ln in seg.splitlines())
            start = (fd.decorator_list[0].lineno if fd.decorator_list else fd.lineno) - 1
            new_src = "".join(lines[:start]) + new_fn + "".join(lines[fd.end_lineno:])
            try:
                ast.parse(new_src)
            except SyntaxError:
                continue
            jobs.append((sidecar, repo, rel, fname, desc, new_src, enrolled))
    with ProcessPoolExecutor(max_workers=min(16, os.cpu_count() or 4)) as ex:
        res = list(ex.map(_run_mutant, jobs, chunksize=1))
    killed = [r for r in res if r["verdict"] == "killed"]
    surv = [r for r in res if r["verdict"] == "survived"]
    rej = [r for r in res if r["verdict"] == "rejected"]
    return {"sidecar": sidecar, "mutants": len(res), "killed": len(killed), "survived": len(surv), "rejected_unsupported": len(rej),
            "survivors": [{"function": r["function"], "mutant": r["mutant"]} for r in surv][:60],
            "killed_samples": [{"function": r["function"], "mutant": r["mutant"], "by": r["by"]} for r in killed[:8]],
            "seconds": round(time.time() - t0, 1)}


if __name__ == "__main__":
    sc, key = sys.argv[1], sys.argv[2]
    print(json.dumps(run(sc, "/repo", key, int(sys.argv[3]) if len(sys.argv) > 3 else 0), indent=1))
