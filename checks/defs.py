"""What each property's check consists of."""
from __future__ import annotations

import json
import os
import subprocess
from typing import Any

HERE = os.path.dirname(os.path.dirname(os.path.abspath(__file__)))
VENV_PY = "/venv/bin/python"

PROPS: dict[str, dict[str, Any]] = {
    "C08": {
        "level": "proof",
        "sidecars": ["contracts/c08.py"],
        "native_n": {"quick": 400, "thorough": 20000},
    },
    "C16": {
        "level": "proof",
        "sidecars": ["contracts/c16.py"],
        "native_n": {"quick": 3000, "thorough": 200000},
    },
}


def validate_trusted(run: Any, sidecar: str) -> dict[str, Any]:
    n = 2000 if run.tier == "quick" else 100000
    code = ("import sys, json, random; sys.path.insert(0, %r); from pyvc.native import Native; "
            "nat = Native(%r, %r); cnt, bad = nat.side.validate_trusted(nat, random.Random(%d), %d); "
            "print('VT ' + json.dumps({'samples': cnt, 'disagreements': len(bad), 'first': [str(b) for b in bad[:3]]}))"
            % (HERE, os.path.join(HERE, sidecar), run.repo, run.seed, n))
    p = subprocess.run([VENV_PY, "-c", code], capture_output=True, text=True, cwd=HERE)
    for line in p.stdout.splitlines():
        if line.startswith("VT "):
            r = json.loads(line[3:])
            if r["disagreements"]:
                run.crashes.append(f"trusted library contract disagrees with CPython: {r['first']}")
            return r
    run.crashes.append(f"trusted-contract validation failed to run: {p.stderr[-500:]}")
    return {}


def run_bounded(run: Any, b: dict[str, Any]) -> dict[str, Any]:
    """Run one bounded harness (under /venv/bin/python); it prints one line
    `BOUNDED-RESULT {json}` with counts and violations [{key, ...replay data}]."""
    env = dict(os.environ)
    env["PYTHONPATH"] = os.pathsep.join([os.path.join(HERE, "stubs"), run.repo, HERE])
    env.setdefault("PYTHONHASHSEED", "0")
    cmd = [VENV_PY, os.path.join(HERE, b["script"]), "--tier", run.tier, "--seed", str(run.seed), "--repo", run.repo] + b.get("args", [])
    p = subprocess.run(cmd, capture_output=True, text=True, cwd=HERE, env=env)
    res = None
    for line in p.stdout.splitlines():
        if line.startswith("BOUNDED-RESULT "):
            res = json.loads(line[len("BOUNDED-RESULT "):])
    if res is None:
        run.crashes.append(f"bounded harness {b['script']} {b.get('args')} produced no result: {p.stderr[-1500:]}")
        return {"script": b["script"], "error": True}
    for v in res.get("violations", []):
        data = dict(v)
        data.update({"bounded": True, "script": b["script"], "args": b.get("args", [])})
        run.report(v["key"], data)
    res["script"] = b["script"]
    res["args"] = b.get("args", [])
    return res


def replay_bounded(run: Any, data: dict[str, Any]) -> int:
    env = dict(os.environ)
    env["PYTHONPATH"] = os.pathsep.join([os.path.join(HERE, "stubs"), run.repo, HERE])
    env.setdefault("PYTHONHASHSEED", "0")
    path = os.path.join(HERE, "replays", "_replay_in.json")
    json.dump(data, open(path, "w"))
    cmd = [VENV_PY, os.path.join(HERE, data["script"]), "--repo", run.repo, "--replay", path] + data.get("args", [])
    p = subprocess.run(cmd, capture_output=True, text=True, cwd=HERE, env=env)
    print(p.stdout[-4000:])
    if p.returncode == 1:
        print(f"VIOLATION property={run.prop} replay={path}")
    return p.returncode


def fill_coverage(run: Any, d: dict[str, Any], ded: list[dict[str, Any]], bounded: list[dict[str, Any]]) -> None:
    cov = run.cov
    obligations = sum(x["obligations"] for x in ded)
    discharged = sum(x["discharged"] for x in ded)
    trusted: list[str] = []
    for x in ded:
        for t in x["trusted_base"]:
            if t not in trusted:
                trusted.append(t)
    trusted += ["pyvc VC generator (symbolic execution rules of DESIGN 2.2; cross-checked against CPython by runtime contracts, not proved)",
                "z3 5.1.0 / cvc5 1.0.3 soundness", "value semantics of lists/dicts at the listed alias-rule sites"]
    nat_cases = sum(st.get("cases", 0) - st.get("skipped", 0) for x in ded for st in x.get("runtime_contracts_on_real_code", {}).values())
    b_eval = sum(b.get("evaluations", 0) for b in bounded)
    b_nontriv = sum(b.get("distinct_nontrivial", 0) for b in bounded)
    samples: list[Any] = []
    for x in ded:
        samples += x["samples"][:4]
    for b in bounded:
        samples += b.get("samples", [])[:3]
    cov.update({
        "obligations": obligations, "discharged": discharged,
        "checker_cmd": f"./check {run.prop} --tier {run.tier}  (pyvc: ast -> VCs -> z3 5.1.0 E-matching, cvc5 1.0.3 on z3's unknowns" + ("; both solvers on every VC)" if run.tier == "thorough" else ")"),
        "trusted_base": trusted,
        "evaluations": nat_cases + b_eval,
        "distinct_nontrivial": max(b_nontriv, 0) + nat_cases,
        "rule": d.get("rule", "runtime-contract cases: generated inputs satisfying `requires`, executed on the real function, all clauses evaluated; each generated input is distinct by construction of the generators (boundary list de-duplicated + random draws)"),
        "samples": samples or ["(none)"],
        "exhaustive": bool(bounded) and all(b.get("exhaustive", False) for b in bounded),
        "deductive": ded, "bounded": bounded,
        "functions_under_contract": [f for x in ded for f in x["functions"]],
        "solver_seconds": sum(x["solver_seconds"] for x in ded),
        "by_solver": {k: sum(x["by_solver"].get(k, 0) for x in ded) for k in ("z3", "cvc5")},
    })
    for x in ded:
        for a in x["trusted_base"]:
            if a not in run.assumptions:
                run.assumptions.append(a)
    run.assumptions += d.get("assumptions", [])
