"""What each property's check consists of."""
from __future__ import annotations

import json
import os
import subprocess
from typing import Any

HERE = os.path.dirname(os.path.dirname(os.path.abspath(__file__)))
VENV_PY = "/venv/bin/python"

PROPS: dict[str, dict[str, Any]] = {
    "C04": {
        "level": "proof",
        "sidecars": ["contracts/c04.py", "contracts/c04_eventset.py", "contracts/c04_ingest.py", "contracts/c04_models.py"],
        "native_n": {"quick": 300, "thorough": 5000},
        "frame_scan": True,
        "bounded": [{"script": "bounded/model_harness.py", "args": []}],
        "assumptions": ["the diagram depends on the model only through the event sets and the gate trees returned by logic_gate_tree (that is C03, not decided)",
                        "calculate_logic_gates is treated as a function of the set of successor multisets (pm4py's miner is external; determinism observed, not proved)",
                        "janus (test_event_generator) is absent: /verif/stubs reproduces GraphSolution.from_event_list from its documented behaviour (bounded part only)"],
    },
    "C06": {
        "level": "exploration",
        "sidecars": ["contracts/c06.py", "contracts/c06_tree.py", "contracts/c06_feed.py"],
        "native_n": {"quick": 1500, "thorough": 30000},
        "bounded": [{"script": "bounded/gate_harness.py", "args": []}],
        "rule": "bounded stand-in, exhaustive in the property's own bound: every gate tree over n <= 5 (thorough 6) distinct events, depth <= 3, operators "
                "alternating, children = blocks of a set partition (3 + 21 + 243 + 2493 trees for n = 2..5) with its full outcome family, run through the real "
                "calculate_logic_gates (pm4py present): soundness on all, exactness on the sub-class (OR over plain events only, no AND with two OR children); "
                "plus soundness on arbitrary observed families: all 127 families of non-empty subsets of 3 events and 4000 sampled (thorough: all 32767) of 4 "
                "events; every tree over <= 4 (thorough 5) events again under 7 pools of adversarial event names. Each case is a distinct input by construction; all are non-trivial (>= 2 events or >= 1 set)",
        "assumptions": ["bounded, not proved: pm4py's inductive miner is an external dependency with no contract; operator semantics of the oracle as stated in bounded/gate_harness.py"],
    },
    "C08": {
        "level": "proof",
        "sidecars": ["contracts/c08.py", "contracts/c08_jobs.py"],
        "native_n": {"quick": 400, "thorough": 20000},
    },
    "C09": {
        "level": "exploration",
        # contracts/c_run.py: the selection that otel_to_pv streams under is find_unique_graphs of the *cleaned* store
        "sidecars": ["contracts/c09.py", "contracts/c_run.py"],
        "native_n": {"quick": 300, "thorough": 10000},
        "bounded": [{"script": "bounded/store_harness.py", "args": ["--mode", "c09"]}],
        "rule": "bounded stand-in: stores of 3 traces (two under one workflow name with shapes drawn from all labelled rooted trees of <= 3 spans over 2 "
                "types - thorough: plus a third of those of 4 spans - one under another name), sibling order and ids permuted, x batch sizes {1,2,3,1000} "
                "x ingestion orders; random deeper trees with a duplicated leaf (multiplicity must count); the real find_unique_graphs on real sqlite; "
                "oracle: canonical tree shapes computed from the abstract view. distinct = distinct (multiset of shapes, batch size); non-trivial = more "
                "than one shape or two traces of one shape",
        "assumptions": ["bounded, not proved: SQLAlchemy/sqlite statements are outside the verifier's reach; the oracle reads the store back with plain SQL"],
    },
    "C10": {
        "level": "proof",
        "sidecars": ["contracts/c10.py"],
        "bounded": [{"script": "bounded/store_harness.py", "args": ["--mode", "c10"]}],
        "rule": "bounded stand-in, exhaustive in its bound: every stream of length <= 4 (thorough 5) over a pool of 7 spans (two traces; one id occurring "
                "twice with different content and once more under the other trace id; a child of the duplicated id; a span whose parent never arrives) x batch sizes {1,2,3,100}, plus every "
                "split of every stream of length <= 3 (thorough 4) into two runs over one file-backed store; postcondition over the whole abstract view: "
                "nodes == first occurrence per id, assoc == parent links of exactly those. distinct = distinct (id/type sequence, batch); non-trivial = "
                "the stream contains a duplicate id (inside a run or across runs)",
        "assumptions": ["bounded, not proved: SQLAlchemy/sqlite statements are outside the verifier's reach"],
    },
    "C11": {
        "level": "exploration",
        "sidecars": ["contracts/c11.py", "contracts/c_run.py"],
        "native_n": {"quick": 400, "thorough": 20000},
        "bounded": [{"script": "bounded/store_harness.py", "args": ["--mode", "c11"]}],
        "rule": "bounded stand-in: stores built from 1-3 traces, each one of 17 variants (complete 1-2 span traces at 6 grid positions, a trace with "
                "inconsistent workflow names, traces with a dangling parent, a trace straddling the whole window), all pairs exhaustively and triples "
                "sampled (thorough: all triples), x time_buffer {0,1,2} grid units x two ingestion orders / batch sizes; whole-view postconditions of the "
                "three cleaning operations in the order otel_to_pv applies them, WF preserved, ValueError iff the buffered window is empty, and the "
                "differential clause (PV sequences of the kept traces == those of a store that never ingested the removed ones). non-trivial = some trace "
                "is removed or renamed",
        "assumptions": ["bounded, not proved: SQLAlchemy/sqlite statements are outside the verifier's reach"],
    },
    "C12": {
        "level": "exploration",
        # contracts/c_run.py: otel_to_pv streams the cleaned store, under the selection or no filter, every name with its own configuration
        "sidecars": ["contracts/c12.py", "contracts/c_run.py"],
        "native_n": {"quick": 300, "thorough": 10000},
        "bounded": [{"script": "bounded/store_harness.py", "args": ["--mode", "c12"]}],
        "rule": "bounded stand-in: stores of 2-3 traces (chains and bushy trees of 1..7 (thorough 9) spans, trace sizes below / equal / above the batch "
                "size and off batch boundaries) under 1-2 workflow names, natural and shuffled ingestion order x batch sizes {1,2,3,4,5,1000} x filters "
                "{none, one name, per-name subsets}; the nested generators of the real stream_data are consumed in the order the real consumers do; "
                "postcondition: names once, traces once, spans == the nodes rows of the trace, child links == association rows. non-trivial = more than "
                "one trace",
        "assumptions": ["the end-to-end statement is bounded, not proved: lazily consumed nested iterators over a server-side cursor are outside the "
                        "verifier's list semantics; the proved part (contracts/c12.py) reads generators as lists, trusts a model of itertools.groupby "
                        "(pyvc/itertools_model.py, validated by sampling), the SQL row stream (stream_job_name_batches: selected rows ordered by job_name, "
                        "job_id) and node.children (the ORM relationship over the association table)"],
    },
    "C14": {
        "level": "exploration",
        "sidecars": ["contracts/c14.py", "contracts/c04_models.py"],
        "native_n": {"quick": 400, "thorough": 20000},
        "bounded": [{"script": "bounded/roundtrip_harness.py", "args": []}],
        "rule": "bounded stand-in: 24 (thorough 200) seeded multi-workflow trace sets (2-4 traces of 1-4 spans, chain / bushy, span names with inner and "
                "surrounding white space, unicode, punctuation; workflow names with spaces) x mapping config {default, all seven keys renamed} x {sync, "
                "async}; through the real entry point otel_to_puml: otel2puml vs otel2pv (saved events) + pv2puml on the saved files; clauses: the saved "
                "files hold exactly the in-memory stream under the renamed keys, loading inverts saving, and the learned models (events, successor / "
                "predecessor multisets, counts) of both routes are equal per workflow. Every case is a distinct seeded input; all are non-trivial "
                "(>= 2 traces)",
        "assumptions": ["route equivalence is bounded, not proved; the proved part (contracts/c14.py) covers the file boundary only: files are the ghost map "
                        "fs.files (json.dump / json.load inverse on strings, lists of strings and string-keyed dicts; key order inside a stored dict not "
                        "modelled), a PVEvent is the dict it is at run time, pydantic validation of PVEventModel is trusted",
                        "diagram text is not compared: that the diagram is a function of the learned model is C03 (not decided)",
                        "janus (test_event_generator) is absent: /verif/stubs reproduces GraphSolution.from_event_list from its documented behaviour"],
    },
    "C15": {
        "level": "exploration",
        # the two pieces of state a run can inherit from an earlier one are under contract elsewhere; the same sidecars are discharged here:
        #   contracts/c09.py  find_unique_graphs empties job_hashes before hashing: its postcondition (one row per root of the window, no
        #                     IntegrityError) does not mention the rows found at entry
        #   contracts/c11.py  a fresh DataHolder starts with the default time range, and get_time_window on it is the whole axis
        #                     (lemma no_ingestion_means_everything): nothing of an earlier process's min/max survives
        "sidecars": ["contracts/c09.py", "contracts/c11.py", "contracts/c_run.py"],
        "native_n": {"quick": 150, "thorough": 2000},
        "bounded": [{"script": "bounded/store_harness.py", "args": ["--mode", "c15"]}],
        "rule": "bounded stand-in: every history of <= 3 (thorough 4) runs with flags {ingest, no-ingest} x {unique graphs on/off} over 4 small stores "
                "(complete traces; a trace with a missing parent; a single span; a dangling-only trace; time_buffer 0) and over a store of six traces spread "
                "over six minutes with time_buffer 1 (the first run trims the buffer zones; later runs must not trim further), on one file-backed sqlite "
                "database (tmpfs). Each run is a call of the real entry point otel_to_pv(config, ingest_data, find_unique_graphs) - JSON data source, SQL "
                "data holder, cleaning x3, optional find_unique_graphs, streaming + sequencing; each run must terminate, leave the store well-formed and "
                "give the PV sequences / selected shapes of the first run with the same flags. In-process emulation of separate runs (the temp table is "
                "removed from Base.metadata between runs as a new process would not have it). non-trivial = more than one run",
        "assumptions": ["bounded, not proved; runs are emulated in one process (fresh holder + engine per run on the same file)",
                        "proved part: only the two inherited pieces of state (job_hashes rows, min/max timestamps), through the contracts of "
                        "contracts/c09.py (ghost store, trusted DB primitives) and contracts/c11.py; the composition of a whole run is not under contract"],
    },
    "C16": {
        "level": "proof",
        "sidecars": ["contracts/c16.py"],
        # the instant a PV string denotes must not depend on the machine's time zone: the runtime contracts are evaluated
        # once under UTC and once under a zone with daylight saving
        "native_envs": [{"TZ": "UTC"}, {"TZ": "CET-1CEST,M3.5.0,M10.5.0/3"}],
        "native_n": {"quick": 3000, "thorough": 200000},
    },
}


def validate_trusted(run: Any, sidecar: str) -> dict[str, Any]:
    n = 2000 if run.tier == "quick" else 100000
    code = ("import sys, json, random; sys.path.insert(0, %r); from pyvc.native import Native; "
            "nat = Native(%r, %r); cnt, bad = nat.side.validate_trusted(nat, random.Random(%d), %d); "
            "print('VT ' + json.dumps({'samples': cnt, 'disagreements': len(bad), 'first': [str(b) for b in bad[:3]]}))"
            % (HERE, os.path.join(HERE, sidecar), run.repo, run.seed, n))
    p = subprocess.run([VENV_PY, "-c", code], capture_output=True, text=True, cwd=HERE)
    for line in p.stdout.splitlines():
        if line.startswith("VT "):
            r = json.loads(line[3:])
            if r["disagreements"]:
                run.crashes.append(f"trusted library contract disagrees with CPython: {r['first']}")
            return r
    run.crashes.append(f"trusted-contract validation failed to run: {p.stderr[-500:]}")
    return {}


def run_bounded(run: Any, b: dict[str, Any]) -> dict[str, Any]:
    """Run one bounded harness (under /venv/bin/python); it prints one line
    `BOUNDED-RESULT {json}` with counts and violations [{key, ...replay data}]."""
    env = dict(os.environ)
    env["PYTHONPATH"] = os.pathsep.join([os.path.join(HERE, "stubs"), run.repo, HERE])
    env.setdefault("PYTHONHASHSEED", "0")
    cmd = [VENV_PY, os.path.join(HERE, b["script"]), "--tier", run.tier, "--seed", str(run.seed), "--repo", run.repo] + b.get("args", [])
    p = subprocess.run(cmd, capture_output=True, text=True, cwd=HERE, env=env)
    res = None
    for line in p.stdout.splitlines():
        if line.startswith("BOUNDED-RESULT "):
            res = json.loads(line[len("BOUNDED-RESULT "):])
    if res is None:
        run.crashes.append(f"bounded harness {b['script']} {b.get('args')} produced no result: {p.stderr[-1500:]}")
        return {"script": b["script"], "error": True}
    for v in res.get("violations", []):
        data = dict(v)
        data.update({"bounded": True, "script": b["script"], "args": b.get("args", [])})
        run.report(v["key"], data)
    res["script"] = b["script"]
    res["args"] = b.get("args", [])
    return res


def replay_bounded(run: Any, data: dict[str, Any]) -> int:
    env = dict(os.environ)
    env["PYTHONPATH"] = os.pathsep.join([os.path.join(HERE, "stubs"), run.repo, HERE])
    env.setdefault("PYTHONHASHSEED", "0")
    path = os.path.join(HERE, "replays", "_replay_in.json")
    json.dump(data, open(path, "w"))
    cmd = [VENV_PY, os.path.join(HERE, data["script"]), "--repo", run.repo, "--replay", path] + data.get("args", [])
    p = subprocess.run(cmd, capture_output=True, text=True, cwd=HERE, env=env)
    print(p.stdout[-4000:])
    if p.returncode == 1:
        print(f"VIOLATION property={run.prop} replay={path}")
    return p.returncode


def fill_coverage(run: Any, d: dict[str, Any], ded: list[dict[str, Any]], bounded: list[dict[str, Any]]) -> None:
    cov = run.cov
    obligations = sum(x["obligations"] for x in ded)
    discharged = sum(x["discharged"] for x in ded)
    trusted: list[str] = []
    for x in ded:
        for t in x["trusted_base"]:
            if t not in trusted:
                trusted.append(t)
    trusted += ["pyvc VC generator (symbolic execution rules of DESIGN 2.2; cross-checked against CPython by runtime contracts, not proved)",
                "z3 5.1.0 / cvc5 1.0.3 soundness", "value semantics of lists/dicts at the listed alias-rule sites"]
    nat_cases = sum(st.get("cases", 0) - st.get("skipped", 0) for x in ded for st in x.get("runtime_contracts_on_real_code", {}).values())
    b_eval = sum(b.get("evaluations", 0) for b in bounded)
    b_nontriv = sum(b.get("distinct_nontrivial", 0) for b in bounded)
    samples: list[Any] = []
    for x in ded:
        samples += x["samples"][:4]
    for b in bounded:
        samples += b.get("samples", [])[:3]
    cov.update({
        "obligations": obligations, "discharged": discharged,
        "checker_cmd": f"./check {run.prop} --tier {run.tier}  (pyvc: ast -> VCs -> z3 5.1.0 E-matching, cvc5 1.0.3 on z3's unknowns" + ("; both solvers on every VC)" if run.tier == "thorough" else ")"),
        "trusted_base": trusted,
        "evaluations": nat_cases + b_eval,
        "distinct_nontrivial": max(b_nontriv, 0) + nat_cases,
        "rule": d.get("rule", "runtime-contract cases: generated inputs satisfying `requires`, executed on the real function, all clauses evaluated; each generated input is distinct by construction of the generators (boundary list de-duplicated + random draws)"),
        "samples": samples or ["(none)"],
        "exhaustive": bool(bounded) and all(b.get("exhaustive", False) for b in bounded),
        "deductive": ded, "bounded": bounded,
        "functions_under_contract": [f for x in ded for f in x["functions"]],
        "solver_seconds": sum(x["solver_seconds"] for x in ded),
        "by_solver": {k: sum(x["by_solver"].get(k, 0) for x in ded) for k in sorted({kk for x in ded for kk in x["by_solver"]} | {"z3", "cvc5"})},
    })
    for x in ded:
        for a in x["trusted_base"]:
            if a not in run.assumptions:
                run.assumptions.append(a)
    run.assumptions += d.get("assumptions", [])
