"""Per-property orchestration: deductive part (pyvc), native runtime contracts on
the real code, bounded harnesses, known findings, evidence."""
from __future__ import annotations

import json
import os
import re
import subprocess
import sys
import time
from typing import Any

HERE = os.path.dirname(os.path.dirname(os.path.abspath(__file__)))
VENV_PY = "/venv/bin/python"
ENROLLED_PATH = os.path.join(HERE, "contracts", "ENROLLED.json")
KNOWN_PATH = os.path.join(HERE, "KNOWN_FINDINGS.txt")


def load_known() -> list[dict[str, str]]:
    out = []
    if not os.path.exists(KNOWN_PATH):
        return out
    for line in open(KNOWN_PATH):
        line = line.strip()
        if not line or line.startswith("#"):
            continue
        m = re.match(r"(finding|fixed): property=(\S+) (?:key=(\S+) )?(.*)", line)
        if m:
            out.append({"kind": m.group(1), "property": m.group(2), "key": m.group(3) or "", "text": m.group(4)})
    return out


def native(sidecar: str, repo: str, cmd: str, arg: dict[str, Any], timeout: int = 3600, extra_env: dict[str, str] | None = None) -> dict[str, Any]:
    env = dict(os.environ)
    env["PYTHONPATH"] = HERE
    env.setdefault("PYTHONHASHSEED", "0")
    env.update(extra_env or {})
    p = subprocess.run([VENV_PY, "-m", "pyvc.native", sidecar, repo, cmd, json.dumps(arg)], capture_output=True, text=True,
                       cwd=HERE, env=env, timeout=timeout)
    for line in p.stdout.splitlines():
        if line.startswith("NATIVE-RESULT "):
            return json.loads(line[len("NATIVE-RESULT "):])
    return {"error": "native runner produced no result", "stdout": p.stdout[-2000:], "stderr": p.stderr[-4000:]}


class Run:
    def __init__(self, prop: str, tier: str, seed: int, repo: str):
        self.prop, self.tier, self.seed, self.repo = prop, tier, seed, repo
        self.t0 = time.time()
        self.violations: list[dict[str, Any]] = []
        self.known_hits: list[str] = []
        self.undecided: list[str] = []
        self.crashes: list[str] = []
        self.known = [k for k in load_known() if k["property"] == prop and k["kind"] == "finding"]
        self.n_replay = 0
        self.cov: dict[str, Any] = {}
        self.assumptions: list[str] = []

    def clear_old_replays(self) -> None:
        import glob
        for old_file in glob.glob(os.path.join(HERE, "replays", f"{self.prop}_{self.tier}_*.json")):
            try:
                os.unlink(old_file)
            except OSError:
                pass

    def replay_path(self) -> str:
        self.n_replay += 1
        os.makedirs(os.path.join(HERE, "replays"), exist_ok=True)
        return os.path.join(HERE, "replays", f"{self.prop}_{self.tier}_{self.n_replay}.json")

    def report(self, key: str, data: dict[str, Any], no_input: bool = False) -> None:
        """Record a violation unless the known-findings file lists it."""
        for k in self.known:
            if k["key"] and re.fullmatch(k["key"], key):
                line = f"KNOWN-FINDING: property={self.prop} {k['text']}"
                if line not in self.known_hits:
                    self.known_hits.append(line)
                return
        if any(v["key"] == key for v in self.violations):
            return
        path = self.replay_path()
        data = dict(data)
        data.update({"property": self.prop, "key": key, "no_failing_input_found": no_input})
        json.dump(data, open(path, "w"), indent=1, default=str)
        self.violations.append({"key": key, "replay": path, "no_input": no_input})

    def finish(self, level: str) -> int:
        wall = time.time() - self.t0
        ev = {"property_id": self.prop, "tier": self.tier, "seed": self.seed, "level": level, "coverage": self.cov,
              "assumptions": self.assumptions, "wall_s": round(wall, 2), "violations": len(self.violations),
              "known_findings_hit": self.known_hits, "undecided": self.undecided}
        evdir = os.environ.get("VERIF_EVIDENCE_DIR") or os.path.join(HERE, "evidence")   # (scratch dir when trying seeded changes)
        os.makedirs(evdir, exist_ok=True)
        json.dump(ev, open(os.path.join(evdir, f"{self.prop}.json"), "w"), indent=1, default=str)
        for line in self.known_hits:
            print(line)
        for c in self.crashes:
            print(f"CHECKER-ERROR property={self.prop} {c}")
        for v in self.violations:
            tail = " no-failing-input-found" if v["no_input"] else ""
            print(f"VIOLATION property={self.prop} replay={v['replay']}{tail}")
        if self.violations:
            return 1
        if self.crashes:
            return 3
        if self.undecided:
            for u in self.undecided:
                print(f"UNDECIDED property={self.prop} {u}")
            return 2
        print(f"OK property={self.prop} tier={self.tier} wall={wall:.1f}s")
        return 0


def deductive(run: Run, sidecar: str, both: bool, enroll: bool) -> dict[str, Any]:
    """Generate + discharge the VCs of one sidecar; compare with the enrolled clauses."""
    from pyvc.driver import Session
    sess = Session(os.path.join(HERE, sidecar), run.repo)
    sess.generate()
    sess.discharge(both=both)
    clauses = sess.clauses()
    enrolled_all = json.load(open(ENROLLED_PATH)) if os.path.exists(ENROLLED_PATH) else {}
    key = f"{run.prop}:{sidecar}"
    if enroll:
        enrolled_all[key] = sorted(cid for cid, d in clauses.items() if d["discharged"])
        # clauses that are stated but were not discharged on the unchanged tree (reported as such, never an alarm)
        enrolled_all[key + "#stated_not_discharged"] = sorted(cid for cid, d in clauses.items() if not d["discharged"])
        json.dump(enrolled_all, open(ENROLLED_PATH, "w"), indent=1, sort_keys=True)
    enrolled = enrolled_all.get(key, [])
    known_open = set(enrolled_all.get(key + "#stated_not_discharged", []))
    undecided_funcs = [u.split(":")[0] for u in sess.undecided]
    res: dict[str, Any] = {"sidecar": sidecar, "functions": sess.func_info, "vcs": len(sess.V.vcs), "clauses": len(clauses),
                           "gen_s": round(sess.gen_seconds, 2), "solve_s": round(sess.solve_seconds, 2)}
    obligations = discharged = 0
    by_solver: dict[str, int] = {}
    failing: list[tuple[str, dict[str, Any]]] = []
    missing: list[str] = []
    def operation_bound(cid: str) -> bool:
        """safety obligations attached to one operation of the code (a division, a subscript, a call's precondition, a float
        range): when the operation is no longer there, there is nothing to prove - unlike contract clauses, which must always be generated"""
        cl = cid.split("/", 1)[1] if "/" in cid else cid
        return cl.startswith(("no_raise.", "call:", "float_range@", "datetime.")) or ".use:" in cl or cl.startswith("assert@")
    for cid in enrolled:
        if cid not in clauses:
            if not operation_bound(cid):
                missing.append(cid)
            continue
        d = clauses[cid]
        obligations += d["vcs"]
        discharged += d["unsat"]
        for s, n in d["solvers"].items():
            by_solver[s] = by_solver.get(s, 0) + n
        if not d["discharged"]:
            failing.append((cid, d))
    res.update({"enrolled_clauses": len(enrolled), "obligations": obligations, "discharged": discharged, "by_solver": by_solver,
                "stated_not_discharged": sorted(cid for cid, d in clauses.items() if not d["discharged"] and cid not in enrolled),
                "not_enrolled_but_discharged": sorted(cid for cid, d in clauses.items() if d["discharged"] and cid not in enrolled),
                "solver_seconds": round(sum(d["seconds"] for d in clauses.values()), 2),
                "covers": sess.covers(), "disagreements": sess.disagreements(),
                "dropped_statements": sess.V.dropped, "alias_rule_sites": sess.V.alias_sites,
                "trusted_base": sorted(sess.V.trusted_used), "undecided": sess.undecided})
    samples = []
    for vc, r in list(zip(sess.V.vcs, sess.results))[:400]:
        if vc.kind == "goal" and len(samples) < 6 and vc.text and not any(s["clause"] == vc.clause for s in samples):
            samples.append({"obligation": vc.name, "clause": vc.clause, "text": vc.text, "verdict": r.verdict, "solver": r.solver,
                            "seconds": round(r.seconds, 3), "smt2_bytes": len(vc.smt2)})
    res["samples"] = samples
    if sess.covers()["vacuous"]:
        run.crashes.append(f"vacuous path(s): contradictory precondition/invariant/axioms at {sess.covers()['vacuous'][:3]}")
    if sess.disagreements():
        run.crashes.append(f"solver disagreement on {sess.disagreements()[:3]}")
    if obligations == 0 and enrolled and not sess.undecided:
        run.crashes.append("zero obligations generated")
    res["_coherent_ok"] = {cid.split("/")[0].replace(".setter", ""): True for cid in enrolled
                           if cid in clauses and clauses[cid]["discharged"] and cid.endswith("/ensures.coherent")}
    res["runtime_only_clauses"] = sorted([f"{fn}/ensures.{lab}" for fn, cd in sess.side.CONTRACTS.items() for lab in cd.get("runtime_ensures", {})]
                                         + [f"{fn}/ensures.{lab}" for fn, cd in getattr(sess.side, "RUNTIME_CONTRACTS", {}).items() for lab in cd.get("ensures", {})])
    res["_failing"] = failing
    res["_missing"] = missing
    # obligations that did not exist on the unchanged tree (the changed code performs a new operation: a call whose precondition must
    # hold, a write outside the frame, a lookup that may fail ...) and are not discharged: decided by a failing input, else undecided
    res["_new_failing"] = [(cid, d) for cid, d in clauses.items() if not d["discharged"] and cid not in enrolled and cid not in known_open]
    res["new_obligations_not_discharged"] = sorted(cid for cid, _ in res["_new_failing"])
    res["_session"] = sess
    return res


def triage_failing(run: Run, sidecar: str, res: dict[str, Any]) -> None:
    """An enrolled clause is no longer discharged: replay the solver's candidate on
    the real code; else search; else report with no-failing-input-found."""
    sess = res["_session"]
    side = sess.side
    for cid, d in res["_failing"]:
        func, clause = cid.split("/", 1)
        fkey = f"{func}/{clause}"
        if func.startswith("lemma:") and res["undecided"]:
            # a lemma over contracts is only as decided as the functions it speaks about
            run.undecided.append(f"{cid}: depends on a function whose contract could not be bound ({'; '.join(res['undecided'])[:200]})")
            continue
        base = {"obligation": cid, "clause_text": d["text"], "function": func, "sidecar": sidecar,
                "solver_output": [{k: f[k] for k in ("vc", "verdict", "solver", "reason", "model", "second")} for f in d["failing"][:5]]}
        found = None
        target = func
        if func.startswith("lemma:"):
            target = getattr(side, "LEMMA_TARGET", {}).get(func[6:], "")
        if target and target in getattr(side, "FROM_MODEL", {}):
            for f in d["failing"]:
                if f["model"]:
                    r = native(os.path.join(HERE, sidecar), run.repo, "replay", {"function": target, "model": f["model"]})
                    if r.get("status") == "ran" and r.get("violations"):
                        found = r
                        break
        if found is None and target and (target in getattr(side, "GEN", {}) or target in getattr(side, "SMALL", {})):
            r = native(os.path.join(HERE, sidecar), run.repo, "search",
                       {"function": target, "clause": clause, "seed": run.seed, "n": 3000 if run.tier == "quick" else 30000})
            if r.get("status") == "found":
                found = r
        if found is not None:
            base.update({"encoded_args": found.get("encoded_args"), "args": found.get("args"), "observed_result": found.get("result"),
                         "raised": found.get("raised"), "violated_native_clauses": found.get("violations"), "function": target})
            run.report(fkey, base)
        else:
            run.report(fkey, base, no_input=True)
    for cid, d in res.get("_new_failing", []):
        func, clause = cid.split("/", 1)
        found = None
        if func in getattr(side, "GEN", {}) or func in getattr(side, "SMALL", {}):
            r = native(os.path.join(HERE, sidecar), run.repo, "search", {"function": func, "clause": clause, "seed": run.seed, "n": 3000 if run.tier == "quick" else 30000})
            if r.get("status") == "found":
                found = r
        if found is not None:
            run.report(f"{func}/{clause}", {"obligation": cid, "clause_text": d["text"], "function": func, "sidecar": sidecar,
                                            "solver_output": [{k: f[k] for k in ("vc", "verdict", "solver", "reason", "model", "second")} for f in d["failing"][:5]],
                                            "encoded_args": found.get("encoded_args"), "args": found.get("args"), "observed_result": found.get("result"),
                                            "raised": found.get("raised"), "violated_native_clauses": found.get("violations")})
        else:
            run.undecided.append(f"new obligation {cid} (not generated from the unchanged tree) is not discharged and no failing input was found")
    for cid in res["_missing"]:
        run.undecided.append(f"enrolled clause {cid} was not generated ({'; '.join(res['undecided'])[:300]})")
    for u in res["undecided"]:
        run.undecided.append(f"contract could not be bound to the current source: {u}")


def crosscheck(run: Run, sidecar: str, n: int, extra_env: dict[str, str] | None = None) -> dict[str, Any]:
    r = native(os.path.join(HERE, sidecar), run.repo, "crosscheck", {"n": n, "seed": run.seed}, extra_env=extra_env)
    if extra_env:
        r["environment"] = extra_env
    if "functions" not in r:
        run.crashes.append(f"native cross-check failed: {str(r)[:600]}")
        return r
    for f, st in r["functions"].items():
        fv = st.get("first_violation")
        if fv:
            for cl in fv["violations"]:
                run.report(f"{f}/{cl}", {"obligation": f"{f}/{cl} (runtime contract on the real function)", "function": f, "sidecar": sidecar,
                                         "encoded_args": fv.get("encoded"), "args": fv.get("args"), "observed_result": fv.get("result"),
                                         "raised": fv.get("raised"), "violated_native_clauses": fv["violations"],
                                         "exception": fv.get("exception"), "environment": extra_env or {}})
        if st["cases"] - st["skipped"] == 0:
            run.crashes.append(f"native generator for {f} produced no input satisfying requires")
    return r


def do_replay(run: Run, path: str) -> int:
    data = json.load(open(path))
    if data.get("bounded"):
        from checks import defs
        return defs.replay_bounded(run, data)
    sidecar = data["sidecar"]
    if data.get("encoded_args") is None:
        print(f"replay file names obligation {data.get('obligation')} and carries the solver output; no input to re-run")
        print(json.dumps(data.get("solver_output"), indent=1))
        return 0
    r = native(os.path.join(HERE, sidecar), run.repo, "replayfile", {"path": path}, extra_env=data.get("environment") or None)
    print(json.dumps(r, indent=1))
    if r.get("violations"):
        print(f"VIOLATION property={run.prop} replay={path}")
        return 1
    return 0


def run(prop: str, tier: str, seed: int, repo: str, replay: str, enroll: bool) -> int:
    from checks import defs
    if prop not in defs.PROPS:
        print(f"unknown property {prop}")
        return 3
    d = defs.PROPS[prop]
    r = Run(prop, tier, seed, repo)
    if replay:
        return do_replay(r, replay)
    r.clear_old_replays()
    ded_all = []
    for sc in d.get("sidecars", []):
        res = deductive(r, sc, both=(tier == "thorough"), enroll=enroll)
        triage_failing(r, sc, res)
        envs = d.get("native_envs") or [None]
        xc = crosscheck(r, sc, d.get("native_n", {}).get(tier, 300), envs[0])
        res["runtime_contracts_on_real_code"] = {f: {k: v for k, v in st.items() if k != "first_violation"}
                                                 for f, st in xc.get("functions", {}).items()}
        for extra in envs[1:]:
            xc2 = crosscheck(r, sc, max(200, d.get("native_n", {}).get(tier, 300) // 4), extra)
            res.setdefault("runtime_contracts_other_environments", []).append(
                {"environment": extra, "functions": {f: {k: v for k, v in st.items() if k != "first_violation"} for f, st in xc2.get("functions", {}).items()}})
        if hasattr(res["_session"].side, "validate_trusted") and d.get("validate_trusted", True):
            res["trusted_contract_validation"] = defs.validate_trusted(r, sc)
        if tier == "thorough" and d.get("selftest", True):
            from checks import selftest
            try:
                st_res = selftest.run(sc, repo, f"{prop}:{sc}")
            except Exception as e:  # noqa: BLE001
                st_res = {"error": f"{type(e).__name__}: {e}"}
            res["mutation_selftest"] = st_res
            if st_res.get("mutants", 0) > 0 and st_res.get("killed", 0) == 0:
                r.crashes.append(f"mutation self-test of {sc}: no mutant of the code makes any clause fail - the contracts / the generator prove too much")
        for k in ("_failing", "_missing", "_session", "_new_failing"):
            res.pop(k, None)
        res["_coherent_ok"] = res.get("_coherent_ok", {})
        ded_all.append(res)
    if d.get("frame_scan") and ded_all:
        from checks import frame_scan
        okc = ded_all[0].get("_coherent_ok", {})
        fr = frame_scan.obligations(repo, okc)
        n_ob = len(fr["obligations"])
        n_ok = sum(1 for o in fr["obligations"] if o["discharged"])
        ded_all[0]["obligations"] += n_ob
        ded_all[0]["discharged"] += n_ok
        ded_all[0]["by_solver"]["frame-scan"] = n_ok
        ded_all[0]["frame_scan"] = fr
        if fr["sites"] == 0:
            r.crashes.append("frame scan found no mutation site at all (scan broken?)")
        for o in fr["obligations"]:
            if not o["discharged"]:
                r.report(o["obligation"], {"obligation": o["obligation"], "sidecar": d["sidecars"][0], "encoded_args": None,
                                           "clause_text": "every site that mutates <x>.event_sets / the cached gate tree lies in a function whose contract "
                                                          "re-establishes the cache-coherence invariant of Event",
                                           "solver_output": o["sites"]}, no_input=True)
    bounded = []
    for b in d.get("bounded", []):
        bounded.append(defs.run_bounded(r, b))
    defs.fill_coverage(r, d, ded_all, bounded)
    return r.finish(d["level"])
