"""Data for MANIFEST.json (edit here, then run tools_manifest.py)."""

PYVC_PROPS = ["C08", "C16"]
BOUNDED_PROPS: list[str] = []


def chk(pid, category, text, note, technique, design_ref):
    return {
        "property_id": pid,
        "quick_cmd": f"./check {pid} --tier quick",
        "thorough_cmd": f"./check {pid} --tier thorough",
        "evidence_file": f"evidence/{pid}.json",
        "replay_cmd_template": f"./check {pid} --replay {{path}}",
        "engine": "pyvc",
        "level_claimed": {"category": category, "text": text, "design_ref": design_ref},
        "level_note": note,
        "technique": technique,
    }


CHECKS = [
    chk("C08", "proof",
        "Every function of tel2puml/otel_to_pv/sequence_otel.py between a trace and its PV job, except the recursion itself, is under contract "
        "and every enrolled obligation generated from the current source is discharged for all inputs (no bound on list lengths): ordering by "
        "start time (sorted groups, sorted by first start, ValueError iff an empty group), the asynchronous rule as the spec function "
        "chains() written from the HOWTO's 'chains of overlapping time windows' (loop invariant result == chains(prefix), running maximum == "
        "maxend of everything seen; lemmas maxend_upper/attained/app proved by induction), prior-information grouping (no empty group, every "
        "group homogeneous, one group per id, every child covered), root selection (unique parentless span), renaming (renamed iff a listed "
        "child type is present, frame: no other span touched), stream->map conversion, and job assembly (one PV event per span in order, "
        "job id / name / type / application copied, timestamp = unix_nano_to_pv_string(end), previousEventIds = the links computed by the "
        "recursion). The same clause texts are evaluated at run time on the real functions: exhaustively on small scopes (all 1-3 sibling "
        "interval configurations on a 5-point grid, all trees <= 4 spans) and on seeded random inputs.",
        "Trusted / not covered: the recursion sequence_otel_event_ancestors is a pure symbol here (its own contract against the LINKS "
        "specification is checked at run time on all small trees, bounded, not proved); order_groups' content clause (permutation of the "
        "input) is stated, not discharged, and checked at run time only; sorted()/max()/dict/list builtins by trusted contracts (listed in "
        "evidence); value semantics for the in-place list updates listed under alias_rule_sites; pyvc itself; z3/cvc5.",
        "contract-based deductive verification (ast -> VCs -> z3/cvc5) + runtime contracts", "DESIGN.md 4/C08"),
    chk("C16", "proof",
        "Both converters are under contract and every obligation generated from the current source is discharged (z3, cvc5 on z3's unknowns): "
        "unix_nano_to_pv_string(n) == str_of(n // 1000) for every microsecond-aligned n in 1970..2100 (float division and CPython's "
        "fromtimestamp rounding modelled per binade, 14 input chunks), convert_timestamp_to_unix_nano(str_of(k)) == 1000*k, and the "
        "round-trip / order / microsecond-preservation lemmas follow from the two contracts. Unbounded in the property's own range; the same "
        "clauses are also evaluated at run time on the real functions (boundary values exhaustively, the rest sampled).",
        "Trusted: pyvc's VC generation; z3/cvc5; IEEE-754 binary64 round-to-nearest for int->float, /, * (half-ulp + grid model, an "
        "over-approximation); the datetime contracts of pyvc/dt.py (fromtimestamp = modf + round-half-even of frac*1e6 with carry, strftime/"
        "fromisoformat canonical and inverse, exact timedelta arithmetic) which are re-validated against CPython by sampling on every run "
        "(validation, not proof).",
        "contract-based deductive verification (ast -> VCs -> z3/cvc5) + runtime contracts", "DESIGN.md 4/C16"),
]

NOT_APPLICABLE = [
    {"property_id": "C01", "reason": "whole-pipeline language inclusion over pm4py's miner, SCC loop extraction on mutable networkx graphs and a heuristic walk: no function-level contract can carry it (DESIGN 5)"},
    {"property_id": "C02", "reason": "behavioural equivalence of two job languages through the same heuristic pipeline, both directions (DESIGN 5)"},
    {"property_id": "C03", "reason": "2-safety (order/seed independence) of the heuristic walk and pm4py output is not a per-call contract; the ingestion half is covered under C04 (DESIGN 5)"},
    {"property_id": "C05", "reason": "text well-formedness depends on the nesting shapes the heuristic walk can emit; the emitter alone has no closed precondition (DESIGN 5)"},
    {"property_id": "C07", "reason": "recursive SCC decomposition with reachability over mutated graphs; inputs 'graphs the learner can build' have no closed precondition (DESIGN 5)"},
    {"property_id": "C13", "reason": "needs a formal semantics of jq programs; contracts on string concatenation cannot express it (DESIGN 5)"},
    {"property_id": "C04", "reason": "check under construction in this round (not yet registered)"},
    {"property_id": "C06", "reason": "check under construction in this round (not yet registered)"},
    {"property_id": "C09", "reason": "check under construction in this round (not yet registered)"},
    {"property_id": "C10", "reason": "check under construction in this round (not yet registered)"},
    {"property_id": "C11", "reason": "check under construction in this round (not yet registered)"},
    {"property_id": "C12", "reason": "check under construction in this round (not yet registered)"},
    {"property_id": "C14", "reason": "check under construction in this round (not yet registered)"},
    {"property_id": "C15", "reason": "check under construction in this round (not yet registered)"},
]

NOTES = ("Technique: contract-based deductive verification of the real code (sidecar contracts, VCs generated from /repo's current source on "
         "every run). No hooks in /repo; fix: commits are recorded in KNOWN_FINDINGS.txt. Exit codes of ./check: 0 ok, 1 violation, 2 undecided "
         "(contract cannot be bound to the changed source), 3 checker error.")
