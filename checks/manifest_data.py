"""Data for MANIFEST.json (edit here, then run tools_manifest.py)."""

PYVC_PROPS = ["C04", "C06", "C08", "C09", "C10", "C11", "C12", "C14", "C15", "C16"]
BOUNDED_PROPS: list[str] = ["C04", "C06", "C09", "C14", "C10", "C11", "C12", "C15"]


def chk(pid, category, text, note, technique, design_ref):
    return {
        "property_id": pid,
        "quick_cmd": f"./check {pid} --tier quick",
        "thorough_cmd": f"./check {pid} --tier thorough",
        "evidence_file": f"evidence/{pid}.json",
        "replay_cmd_template": f"./check {pid} --replay {{path}}",
        "engine": "pyvc",
        "level_claimed": {"category": category, "text": text, "design_ref": design_ref},
        "level_note": note,
        "technique": technique,
    }


CHECKS = [
    chk("C04", "proof",
        "Proved for all inputs (every enrolled obligation generated from the current source of tel2puml/events.py is discharged): the class invariant "
        "of Event - the cached gate tree is either marked stale or equals calculate_logic_gates(event_sets) - is established by __init__ and "
        "re-established by every method that touches the successor sets (update_event_sets, remove_event_type_from_event_sets, the getter), with frame "
        "clauses (no other Event object, no other field changes); update_event_sets / update_in_event_sets are S |-> S + {multiset(events)} for a "
        "non-empty list and the identity otherwise (the union lemma: learning is a fold of set unions, hence independent of chunking, order and "
        "repetition); event_inputs_to_events (model loading) yields exactly the listed event types, each with exactly the listed successor / "
        "predecessor multisets, and every loaded event satisfies the invariant - so its gate tree is recomputed from the loaded sets; the writing "
        "side (Event.to_event_input, events_to_event_inputs, save_events_to_file, load_events_from_file over a ghost file system) writes one entry per "
        "event with one (type, count) list per successor / predecessor multiset and no other, and the lemmas rep_count / entries_denote / "
        "written_lists_denote / same_denotation_same_sets / model_round_trip give: the events loaded from what was written have the same types and the "
        "same successor and predecessor multisets (93 clauses in contracts/c04.py; 21 in contracts/c04_eventset.py: the concrete EventSet under the dict view and get_event_set_counts, the counts each successor type was seen with; "
        "97 in contracts/c04_ingest.py: the fold of a run's evidence into the model it was given - update_and_create_events_from_graph_solution(s) of "
        "tel2puml/pv_to_puml/data_ingestion.py: afterwards a type's successor / predecessor sets are the sets it had plus one multiset per occurrence "
        "in the graph solutions, nothing else, every cache coherent; lemmas out_splits / chunked_equals_one_shot / chunk_order_irrelevant: folding chunk a "
        "then chunk b gives the sets of folding a + b at once, in either order (graph solutions themselves - janus - are records these functions do not "
        "modify; PV stream -> graph solution is not under contract); 23 in contracts/c04_models.py: pv_streams_to_puml_files gives every workflow name "
        "its own loaded-or-empty model, its own jobs and its own files). A mechanical scan "
        "of tel2puml/** turns every syntactic mutation site of event_sets / the cached tree into an obligation `Event.frame@<function>` that must be "
        "covered by such a contract. BOUNDED complement (not counted as proved): on the real code with real model files, for all job sets of <= 3 jobs "
        "from a 9-job family (incl. jobs started by two events in parallel) and every split into save -> load -> continue, the final model has the event types, sets, counts and gate trees of the "
        "one-shot run, and the model file round-trips.",
        "Trusted / not covered: EventSet is viewed as the multiset it denotes (equal counts <=> equal value; the concrete dict subclass and its "
        "__eq__/__hash__ are exercised only by the runtime contracts and the bounded harness, not proved; its constructor, is_subset, "
        "to_event_set_count_input_list ... are proved under the dict view in contracts/c04_eventset.py and used in contracts/c04.py through their "
        "abstract reading); a model file is identified with the validated EventInputsFile value (pydantic model_dump / model_validate and json trusted "
        "to be inverse); "
        "calculate_logic_gates is an uninterpreted pure function; that the diagram depends on the model only through sets and trees is C03 (not "
        "decided); mutation through an alias of the set object is invisible to the syntactic frame scan; object allocation freshness; pyvc; z3/cvc5; the "
        "janus stand-in (bounded part).",
        "contract-based deductive verification (ast -> VCs -> z3/cvc5) + mechanical frame scan + runtime contracts / bounded model round-trip", "DESIGN.md 4/C04"),
    chk("C08", "proof",
        "Every function of tel2puml/otel_to_pv/sequence_otel.py between a trace and its PV job, except the recursion itself, is under contract "
        "and every enrolled obligation generated from the current source is discharged for all inputs (no bound on list lengths): ordering by "
        "start time (sorted groups, sorted by first start, ValueError iff an empty group), the asynchronous rule as the spec function "
        "chains() written from the HOWTO's 'chains of overlapping time windows' (loop invariant result == chains(prefix), running maximum == "
        "maxend of everything seen; lemmas maxend_upper/attained/app proved by induction), prior-information grouping (no empty group, every "
        "group homogeneous, one group per id, every child covered), root selection (unique parentless span), renaming (renamed iff a listed "
        "child type is present, frame: no other span touched), stream->map conversion, and job assembly (one PV event per span in order, "
        "job id / name / type / application copied, timestamp = unix_nano_to_pv_string(end), previousEventIds = the links computed by the "
        "recursion). The same clause texts are evaluated at run time on the real functions: exhaustively on small scopes (all 1-3 sibling "
        "interval configurations on a 5-point grid, all trees <= 4 spans) and on seeded random inputs. The job-level composition "
        "(sequence_otel_jobs, sequence_otel_job_id_streams; contracts/c08_jobs.py, 8 clauses) is proved as plumbing: job k of the stream is the "
        "trace-level job of trace k, renamed first when rules are given, with the async flag and the prior information in their places - the three "
        "callees are trusted leaves there (proved in c08.py / c12.py), generators read as lists.",
        "Trusted / not covered: the recursion sequence_otel_event_ancestors is a pure symbol here (its own contract against the LINKS "
        "specification is checked at run time on all small trees, bounded, not proved); order_groups' content clause (permutation of the "
        "input) is stated, not discharged, and checked at run time only; sorted()/max()/dict/list builtins by trusted contracts (listed in "
        "evidence); value semantics for the in-place list updates listed under alias_rule_sites; pyvc itself; z3/cvc5.",
        "contract-based deductive verification (ast -> VCs -> z3/cvc5) + runtime contracts", "DESIGN.md 4/C08"),
    chk("C16", "proof",
        "Both converters are under contract and every obligation generated from the current source is discharged (z3, cvc5 on z3's unknowns): "
        "unix_nano_to_pv_string(n) == str_of(n // 1000) for every microsecond-aligned n in 1970..2100 (float division and CPython's "
        "fromtimestamp rounding modelled per binade, 14 input chunks), convert_timestamp_to_unix_nano(str_of(k)) == 1000*k, and the "
        "round-trip / order / microsecond-preservation lemmas follow from the two contracts. Unbounded in the property's own range; the same "
        "clauses are also evaluated at run time on the real functions (boundary values exhaustively, the rest sampled).",
        "Trusted: pyvc's VC generation; z3/cvc5; IEEE-754 binary64 round-to-nearest for int->float, /, * (half-ulp + grid model, an "
        "over-approximation); the datetime contracts of pyvc/dt.py (fromtimestamp = modf + round-half-even of frac*1e6 with carry, strftime/"
        "fromisoformat canonical and inverse, exact timedelta arithmetic) which are re-validated against CPython by sampling on every run "
        "(validation, not proof).",
        "contract-based deductive verification (ast -> VCs -> z3/cvc5) + runtime contracts", "DESIGN.md 4/C16"),
]

def bchk(pid, text, note, design_ref):
    tech = ("runtime contracts over an abstract view of the store, small-scope enumeration (bounded stand-in for the contract-based technique; SQL "
            "statements are outside the verifier's reach)")
    if pid in PYVC_PROPS:
        tech = ("mixed: contract-based deductive verification (ast -> VCs -> z3/cvc5) of the Python-level functions named in level_note, under trusted "
                "contracts of the SQL / library primitives; the end-to-end statement by " + tech)
    d = chk(pid, "exploration", text, note, tech, design_ref)
    d["engine"] = "bounded" if pid not in PYVC_PROPS else "pyvc+bounded"
    return d


CHECKS += [
    bchk("C06", "BOUNDED, exhaustive in the property's own bound (never counted as proved). Runtime contract on the real calculate_logic_gates: the "
         "inferred AND/OR/XOR tree admits every observed successor set, for every gate tree over <= 5 (thorough 6) distinct events, depth <= 3, "
         "alternating operators, with its full outcome family; and admits exactly those sets on the stated sub-class (OR over plain events only, no AND "
         "with two OR children). Soundness additionally on arbitrary observed families over 3 events (all) and 4 events (4000 sampled; thorough all 32767), on sampled PARTIAL observations (sub-families of 3-9 outcomes) of every enumerated tree, on random families over 5 and 6 events, on two families with an 8-event set, after / before another inference in the same process (no hidden state), and for every tree over <= 4 (thorough 5) events under seven pools of adversarial event names (names that are joins of one another, 'tau', '', operator symbols, blanks / commas / quotes; the start marker |||START||| is reserved).",
         "Bounded exploration: pm4py's inductive miner is external and has no contract, so no function-level contract can carry the property. "
         "Additionally PROVED (contracts/c06.py, 24 clauses, all inputs): utils.get_weighted_cover - a returned cover consists of observed sets, covers the "
         "universe, is pairwise disjoint, and every observed set is a union of whole members (what makes 'AND under OR' admit every observed set); "
         "one-directional: when a cover must be found is not specified (the selection key, a float ratio, is abstracted to 'some element'). "
         "PROVED too (contracts/c06_tree.py, 55 clauses, all trees): the in-place rewrite logic_detection.infer_or_gate_from_node on pm4py's ProcessTree as "
         "a heap record keeps parent pointers well-formed two levels deep, loses no child and no non-tau branch of an optional XOR, and touches nothing "
         "unless the node is an AND with an optional XOR child (structural only: check_is_or_operator is an arbitrary boolean; ProcessTree(...) and "
         "str(tree) == 'tau' are trusted models; the same clauses run natively on pm4py trees). PROVED too (contracts/c06_feed.py, 47 clauses): the event log "
         "handed to the miner by create_augmented_data_from_event_sets / ..._from_reduced_event_set / create_data_from_event_sequence has fresh case ids, "
         "the rows of a case adjacent, each case starting with the start marker, time-ordered and made of the events of its set (str(uuid4()) trusted "
         "to be new; that the cases are exactly the orderings is a run-time clause, bounded).",
         "DESIGN.md 4/C06"),
    bchk("C09", "BOUNDED (never counted as proved). The contract of find_unique_graphs - for each workflow name the selected traces contain exactly one "
         "member of every call-tree shape class, never two of one class, same answer for every batch size and ingestion order - is evaluated on the real "
         "SQLDataHolder over all pairs of small labelled trees plus random deeper ones, also with a selection, late-arriving spans and a second selection, and with three 4000-span traces (DESIGN 4/C09). The recursive hash function's deductive contract "
         "(spec function H) IS part of this check: create_event_id_to_child_nodes_map and compute_graph_hash_from_event_ids are proved to compute "
         "H(n) = xxh(type(n) ++ join(sorted([H(c) | c child of n]))) over the parent links, compute_graph_hashes_from_root_nodes / compute_graph_hashes_for_batch write one row per root, and the batch walk of "
         "find_unique_graphs (a `while True` loop over get_root_nodes slices) hashes every root of the window exactly once for every batch size >= 1 "
         "and get_unique_graph_job_ids_per_job_name regroups the representatives of the (name, hash) groups into name -> set of trace ids, so that "
         "find_unique_graphs returns, per workflow name, exactly one trace id of every hash class among the rows just written, never two of one class, "
         "and only hashed traces (44 clauses, all inputs; ghost root table / job_hashes rows, trusted contracts for the SQL primitives - the GROUP BY "
         "itself is a trusted ghost effect: the fetched rows are representatives of the groups; termination not proved). Lemmas L1/L2 about H "
         "(hash class = shape class) are not stated: they would need collision freedom, which D6 refutes. Also discharged here: contracts/c_run.py "
         "(25 clauses) - the selection otel_to_pv streams under is find_unique_graphs applied to the store AFTER the three cleaning steps, with the "
         "holder's range and buffer (store operations trusted, named by uninterpreted functions).",
         "Bounded exploration on real sqlite; oracle = canonical shapes from the abstract view. One known finding (hash input without separator, D6) is "
         "listed in KNOWN_FINDINGS.txt and printed as KNOWN-FINDING.", "DESIGN.md 4/C09"),
    chk("C10", "proof",
        'Proved for all span streams, duplicate placements, batch sizes and initial (well-formed) stores, on a ghost model of the two tables and under trusted contracts of three DB primitives (every enrolled obligation generated from the current source is discharged): after IngestData.load_to_data_holder the store holds the rows it held before, untouched, plus exactly one row per new span id with the content of the FIRST occurrence in the stream, the association rows it held plus exactly the parent links of those first occurrences, nothing pending, well-formed. BOUNDED complement on real sqlite (not counted as proved): Whole-view postcondition of ingestion - nodes == first occurrence per span id, association rows == the parent links of exactly those spans - over every stream of length <= 4 over a 6-span pool with a duplicated id x 4 batch sizes, and over every two-run split (duplicates across runs on a file-backed store).',
        "Trusted: the three DB primitives over the ghost store (batch_insert_node_models all-or-nothing with IntegrityError iff an id repeats or is stored, batch_insert_node_associations, get_event_ids_existing_in_db) - what the bounded harness validates on real sqlite -, a declared exception of a callee leaves the state unchanged where stated, DataHolder.__enter__/__exit__ of the base class, object freshness, pyvc, z3/cvc5. PROVED for all streams and every batch size (contracts/c10.py, 111 clauses, no bound), under trusted contracts of three DB primitives over a ghost store (validated on real sqlite by the bounded harness): IngestData.load_to_data_holder - the property's own statement: afterwards the store's ids are the ids stored before plus the ids of the stream; every id that is new is represented by a row with the content of its FIRST occurrence in the stream; rows stored before are untouched; the association rows are those stored before plus exactly the parent links of the new first occurrences; nothing is left pending; the store is well-formed. It rests on: _save_data / save_data (specified on the virtual store = stored rows + first occurrences of the pending batch), SQLDataHolder.__exit__ (flush on leaving the with block), and a flush (commit_batched_unique_data_to_database -> commit_batched_data_to_database -> check_and_filter_non_unique_nodes_and_associations) that never fails on a well-formed store and stores exactly the first occurrences.",
        "contract-based deductive verification (ast -> VCs -> z3/cvc5) on a ghost store + runtime contracts over an abstract view of the real store (bounded complement)", 'DESIGN.md 4/C10'),
    bchk("C11", "BOUNDED (never counted as proved). Whole-view postconditions of remove_inconsistent_jobs, remove_jobs_outside_of_time_window and "
         "update_job_names_by_root_span (exactly the broken / outside traces removed, every other row unchanged, root name everywhere, well-formedness "
         "preserved, ValueError iff the buffered window is empty) and the differential clause on PV sequences, over all pairs (sampled triples) of 17 "
         "trace variants (complete, dangling parent, several workflow names - also in a broken trace -, parent in another trace [view-level clauses only]) "
         "x time buffers x orders, the window step alone on stores with dangling parents, and two ingest + clean rounds on one holder.",
         "Bounded exploration on real sqlite for the SQL statements. Additionally PROVED (contracts/c11.py, 12 clauses): DataHolder.__init__/save_data track "
         "min start / max end, min_timestamp / max_timestamp give [0, MAXINT] when nothing was saved, get_time_window returns [min + b, max - b] and raises "
         "ValueError exactly when that window is empty; two lemmas (no ingestion => everything; buffer 0 contains every saved span). And PROVED "
         "(contracts/c_run.py, 25 clauses): the composition of a run - otel_to_pv / ingest_data_into_dataholder apply remove_inconsistent_jobs, then "
         "remove_jobs_outside_of_time_window (this holder's range and buffer), then update_job_names_by_root_span, once each, before anything is selected "
         "or streamed, and ValueError exactly when the buffered window is empty - for every configuration and flag combination, with the store "
         "operations themselves as TRUSTED leaves named by uninterpreted functions (their meaning is what the bounded harness decides); the same is "
         "explored through the real entry point otel_to_pv (unique graphs on/off x buffer).",
         "DESIGN.md I.2 (composition of one run), 4/C11"),
    bchk("C12", "BOUNDED (never counted as proved). Contract of stream_data over the abstract view: each workflow name once, under it each stored trace "
         "once (restricted by the optional filter), each trace's spans == its nodes rows with child links == its association rows; traces longer than / "
         "equal to / shorter than the batch size and off batch boundaries, interleaved ingestion order, one trace id under two workflow names, workflow names differing only in capitalisation.",
         "Bounded exploration on real sqlite; the nested lazy generators are consumed in the order the real consumers use. Additionally PROVED for all "
         "inputs (contracts/c12.py, 29 clauses), under the LIST reading of generators and a trusted model of itertools.groupby (maximal runs of equal "
         "keys; validated against CPython by sampling) and of the SQL row stream (one span per selected row, ordered by job_name, job_id): stream_data "
         "yields each workflow name once, under it each trace id once, every trace non-empty and homogeneous (its spans carry the name and the id it is "
         "listed under), the j-th span of the s-th trace of the a-th name is row number start(a)+start(s)+j of the row stream and every row is reached "
         "exactly so (nothing dropped, duplicated or re-attributed) - lemmas name_runs_increase / name_group_sorted / id_runs_increase: in an ordered "
         "stream the runs of equal keys have strictly increasing keys; node_to_otel_event copies every stored field and gives exactly the ids of "
         "node.children as child ids; job_ids_to_eventid_to_otelevent_map yields one id->span map per trace whose parent links resolve, in order, "
         "holding every span of the trace. NOT covered by the proof: the laziness of the real nested iterators over a server-side cursor (a group is "
         "only valid until the next is requested) and the SQL itself - that is what the bounded harness exercises. Also discharged here: "
         "contracts/c_run.py (25 clauses) - otel_to_pv streams the cleaned store under the unique-graph selection or no filter and sequences every "
         "workflow name with that name's configuration (store operations trusted, named by uninterpreted functions).",
         "DESIGN.md 4/C12"),
    bchk("C14", "BOUNDED (never counted as proved). Through the real entry point otel_to_puml: otel2puml on a data set versus otel2pv with saved events "
         "followed by pv2puml on the saved files, with the default and with a fully renamed field mapping, sync and async: the saved PV files hold exactly "
         "the events, links and field values of the in-memory stream (under the renamed keys), loading inverts saving, and the models learned on the two "
         "routes are equal per workflow (incl. a mapping whose custom names are other fields' standard names, and twin traces of one shape with reversed sibling order).",
         "Bounded exploration on seeded trace sets; diagram text is not compared (C03). Additionally PROVED for all inputs (contracts/c14.py, 66 clauses, "
         "the file boundary of the second sentence of the property): handle_save_events writes the n-th trace of a workflow, whole, as file n of the "
         "workflow's folder and touches no other file; save_pv_event_stream_to_file stores one dict per event, every field value under the field's "
         "(re)name and no other key; transform_dict_into_pv_event reads every field under the key the mapping gives it, normalises previousEventIds and "
         "raises ValueError exactly when a mandatory renamed key is missing; pv_job_file_to_event_sequence loads every entry of the file in order; "
         "pv_job_files_to_event_sequence_streams turns the k-th file of its list, whole and alone, into the k-th event sequence (the first file that cannot be "
         "loaded decides the exception) and pv_files_to_pv_streams hands exactly that to the learner under the given workflow name (job files; grouping by job id "
         "is outside the precondition); lemmas "
         "load_inverts_save_event / load_inverts_save_file: loading what was saved under the same mapping (pairwise distinct names; default names when no "
         "mapping was used) gives the events back. Files are a ghost map (json.dump / json.load trusted to be inverse; pydantic validation trusted). "
         "And PROVED (contracts/c04_models.py, 23 clauses): pv_streams_to_puml_files, where both routes end - every streamed workflow name learns its own "
         "jobs into its own loaded-or-empty model under its own .puml / _model.json paths, models saved iff requested (callees pv_to_puml_file and "
         "save_events_to_file trusted and logged in ghost lists).",
         "DESIGN.md I.2 (one model per workflow name), 4/C14"),
    bchk("C15", "BOUNDED (never counted as proved). Every history of <= 3 runs (ingest / no ingest x unique graphs on / off) of the real entry point "
         "otel_to_pv over a file-backed store, with time_buffer 0 and 1: each run terminates, keeps the store well-formed (association rows match stored "
         "spans) and reproduces the PV sequences and selected shapes of the first run with the same flags. Stores include a disconnected trace, a parent "
         "link that crosses traces, a span delivered twice inside one batch, and a trace spanning the whole buffered window.",
         "Bounded exploration; separate runs are emulated in one process with a fresh SQLDataHolder and engine per run on the same database file. "
         "Additionally PROVED (the sidecars of C09 and C11 discharged again under this property): the two pieces of state a run can inherit - "
         "find_unique_graphs empties job_hashes before hashing, its postcondition (one row per root of the window; ValueError only for an empty window, "
         "never IntegrityError) does not depend on the rows found at entry; a fresh DataHolder has the default time range and its window is then the "
         "whole time axis (lemma no_ingestion_means_everything). And PROVED (contracts/c_run.py, 25 clauses): the composition of a run - without "
         "ingestion otel_to_pv starts from the store as found and from a FRESH holder (default time range: nothing is inherited from an earlier process "
         "or derived from what is stored), with ingestion from the store as found plus the source with the range tracked from the default one; the only "
         "writes to the store are the three cleaning steps in their fixed order and the hash rows of find_unique_graphs (store operations are TRUSTED "
         "leaves named by uninterpreted functions).",
         "DESIGN.md I.2 (composition of one run), 4/C15"),
]

NOT_APPLICABLE = [
    {"property_id": "C01", "reason": "whole-pipeline language inclusion over pm4py's miner, SCC loop extraction on mutable networkx graphs and a heuristic walk: no function-level contract can carry it (DESIGN 5)"},
    {"property_id": "C02", "reason": "behavioural equivalence of two job languages through the same heuristic pipeline, both directions (DESIGN 5)"},
    {"property_id": "C03", "reason": "2-safety (order/seed independence) of the heuristic walk and pm4py output is not a per-call contract; the ingestion half is covered under C04 (DESIGN 5)"},
    {"property_id": "C05", "reason": "text well-formedness depends on the nesting shapes the heuristic walk can emit; the emitter alone has no closed precondition (DESIGN 5)"},
    {"property_id": "C07", "reason": "recursive SCC decomposition with reachability over mutated graphs; inputs 'graphs the learner can build' have no closed precondition (DESIGN 5)"},
    {"property_id": "C13", "reason": "needs a formal semantics of jq programs; contracts on string concatenation cannot express it (DESIGN 5)"},
]

NOTES = ("Technique: contract-based deductive verification of the real code (sidecar contracts, VCs generated from /repo's current source on "
         "every run). No hooks in /repo; fix: commits are recorded in KNOWN_FINDINGS.txt. Exit codes of ./check: 0 ok, 1 violation, 2 undecided "
         "(contract cannot be bound to the changed source), 3 checker error.")
