"""Data for MANIFEST.json (edit here, then run tools_manifest.py)."""

PYVC_PROPS = ["C16"]
BOUNDED_PROPS: list[str] = []


def chk(pid, category, text, note, technique, design_ref):
    return {
        "property_id": pid,
        "quick_cmd": f"./check {pid} --tier quick",
        "thorough_cmd": f"./check {pid} --tier thorough",
        "evidence_file": f"evidence/{pid}.json",
        "replay_cmd_template": f"./check {pid} --replay {{path}}",
        "engine": "pyvc",
        "level_claimed": {"category": category, "text": text, "design_ref": design_ref},
        "level_note": note,
        "technique": technique,
    }


CHECKS = [
    chk("C16", "proof",
        "Both converters are under contract and every obligation generated from the current source is discharged (z3, cvc5 on z3's unknowns): "
        "unix_nano_to_pv_string(n) == str_of(n // 1000) for every microsecond-aligned n in 1970..2100 (float division and CPython's "
        "fromtimestamp rounding modelled per binade, 14 input chunks), convert_timestamp_to_unix_nano(str_of(k)) == 1000*k, and the "
        "round-trip / order / microsecond-preservation lemmas follow from the two contracts. Unbounded in the property's own range; the same "
        "clauses are also evaluated at run time on the real functions (boundary values exhaustively, the rest sampled).",
        "Trusted: pyvc's VC generation; z3/cvc5; IEEE-754 binary64 round-to-nearest for int->float, /, * (half-ulp + grid model, an "
        "over-approximation); the datetime contracts of pyvc/dt.py (fromtimestamp = modf + round-half-even of frac*1e6 with carry, strftime/"
        "fromisoformat canonical and inverse, exact timedelta arithmetic) which are re-validated against CPython by sampling on every run "
        "(validation, not proof).",
        "contract-based deductive verification (ast -> VCs -> z3/cvc5) + runtime contracts", "DESIGN.md 4/C16"),
]

NOT_APPLICABLE = [
    {"property_id": "C01", "reason": "whole-pipeline language inclusion over pm4py's miner, SCC loop extraction on mutable networkx graphs and a heuristic walk: no function-level contract can carry it (DESIGN 5)"},
    {"property_id": "C02", "reason": "behavioural equivalence of two job languages through the same heuristic pipeline, both directions (DESIGN 5)"},
    {"property_id": "C03", "reason": "2-safety (order/seed independence) of the heuristic walk and pm4py output is not a per-call contract; the ingestion half is covered under C04 (DESIGN 5)"},
    {"property_id": "C05", "reason": "text well-formedness depends on the nesting shapes the heuristic walk can emit; the emitter alone has no closed precondition (DESIGN 5)"},
    {"property_id": "C07", "reason": "recursive SCC decomposition with reachability over mutated graphs; inputs 'graphs the learner can build' have no closed precondition (DESIGN 5)"},
    {"property_id": "C13", "reason": "needs a formal semantics of jq programs; contracts on string concatenation cannot express it (DESIGN 5)"},
    {"property_id": "C04", "reason": "check under construction in this round (not yet registered)"},
    {"property_id": "C06", "reason": "check under construction in this round (not yet registered)"},
    {"property_id": "C08", "reason": "check under construction in this round (not yet registered)"},
    {"property_id": "C09", "reason": "check under construction in this round (not yet registered)"},
    {"property_id": "C10", "reason": "check under construction in this round (not yet registered)"},
    {"property_id": "C11", "reason": "check under construction in this round (not yet registered)"},
    {"property_id": "C12", "reason": "check under construction in this round (not yet registered)"},
    {"property_id": "C14", "reason": "check under construction in this round (not yet registered)"},
    {"property_id": "C15", "reason": "check under construction in this round (not yet registered)"},
]

NOTES = ("Technique: contract-based deductive verification of the real code (sidecar contracts, VCs generated from /repo's current source on "
         "every run). No hooks in /repo; fix: commits are recorded in KNOWN_FINDINGS.txt. Exit codes of ./check: 0 ok, 1 violation, 2 undecided "
         "(contract cannot be bound to the changed source), 3 checker error.")
